#!/usr/bin/env python3-vt
# Generates /verif/fixtures/ref_table.json with scipy (run once; the table is committed).
import json, itertools
from scipy import special as sp, stats as st
rows=[]
for a in [0.2,0.5,1,1.5,3,5,20,50,100,150,500]:
    for x in [1e-3,0.1,0.5,1,2,5,10,25,60,100,140,160,480,520]:
        rows.append(["gamma_p",[a,x],float(sp.gammainc(a,x))])
        rows.append(["gamma_q",[a,x],float(sp.gammaincc(a,x))])
for a,b in itertools.product([0.2,0.5,1,2,4,10,50],[0.3,0.5,1,3,7,40]):
    for x in [0.001,0.05,0.2,0.5,0.8,0.95,0.999]:
        rows.append(["beta_i",[a,b,x],float(sp.betainc(a,b,x))])
for z in [-8,-5,-3,-2,-1,-0.5,-0.1,0,0.1,0.5,1,2,3,5,8]:
    rows.append(["norm_cdf",[z],float(st.norm.cdf(z))])
for nu in [0.5,1,2,3,5,10,30,200]:
    for t in [-50,-5,-2,-1,-0.3,0,0.3,1,2,5,50]:
        rows.append(["t_cdf",[nu,t],float(st.t.cdf(t,nu))])
for lam in [0.5,3,9.5,10,42,149,150,500]:
    for k in [0,1,2,5,10,20,40,60,130,150,170,450,500,550]:
        rows.append(["poisson_cdf",[lam,k],float(st.poisson.cdf(k,lam))])
        rows.append(["poisson_pmf",[lam,k],float(st.poisson.pmf(k,lam))])
for n,p in itertools.product([1,5,20,64,100,1000],[0.01,0.3,0.5,0.7,0.99]):
    for k in [0,1,2,5,10,19,32,50,64,99,300,500,700,999]:
        if k<=n:
            rows.append(["binom_cdf",[n,p,k],float(st.binom.cdf(k,n,p))])
            rows.append(["binom_pmf",[n,p,k],float(st.binom.pmf(k,n,p))])
for x in [0.001,0.1,0.5,1,1.5,2,3.7,10,50.5,100,170,171.5,-0.5,-1.5,-10.3]:
    rows.append(["lgamma",[x],float(sp.gammaln(x))])
    rows.append(["tgamma",[x],float(sp.gamma(x))])
for x in [-6,-3,-1,-0.5,-1e-3,0,1e-3,0.5,1,2,3,6]:
    rows.append(["erf",[x],float(sp.erf(x))])
rows=[r for r in rows if r[2]==r[2] and abs(r[2])<1e300]
json.dump({"generator":"scipy","rows":rows},open('/verif/fixtures/ref_table.json','w'))
print(len(rows))
