//! Double-double arithmetic (~106 bits) for residuals and reference sums.
use std::ops::{Add, Div, Mul, Neg, Sub};

#[derive(Debug, Clone, Copy, PartialEq)]
pub struct DD {
    pub hi: f64,
    pub lo: f64,
}

#[inline]
fn two_sum(a: f64, b: f64) -> (f64, f64) {
    let s = a + b;
    let bb = s - a;
    let e = (a - (s - bb)) + (b - bb);
    (s, e)
}
#[inline]
fn quick_two_sum(a: f64, b: f64) -> (f64, f64) {
    let s = a + b;
    let e = b - (s - a);
    (s, e)
}
#[inline]
fn two_prod(a: f64, b: f64) -> (f64, f64) {
    let p = a * b;
    let e = a.mul_add(b, -p);
    (p, e)
}

impl DD {
    pub const ZERO: DD = DD { hi: 0.0, lo: 0.0 };
    pub const ONE: DD = DD { hi: 1.0, lo: 0.0 };
    #[inline]
    pub fn new(x: f64) -> DD {
        DD { hi: x, lo: 0.0 }
    }
    #[inline]
    pub fn f(self) -> f64 {
        self.hi + self.lo
    }
    #[inline]
    pub fn abs(self) -> DD {
        if self.hi < 0.0 || (self.hi == 0.0 && self.lo < 0.0) {
            -self
        } else {
            self
        }
    }
    pub fn sqrt(self) -> DD {
        if self.hi <= 0.0 {
            return DD::new(self.hi.sqrt());
        }
        let x = 1.0 / self.hi.sqrt();
        let ax = self.hi * x;
        let d = self - DD::new(ax) * DD::new(ax);
        DD::new(ax) + DD::new(d.hi * (x * 0.5))
    }
    pub fn is_finite(self) -> bool {
        self.hi.is_finite() && self.lo.is_finite()
    }
    pub fn powi(self, n: u32) -> DD {
        let mut r = DD::ONE;
        for _ in 0..n {
            r = r * self;
        }
        r
    }
}

impl Neg for DD {
    type Output = DD;
    #[inline]
    fn neg(self) -> DD {
        DD { hi: -self.hi, lo: -self.lo }
    }
}
impl Add for DD {
    type Output = DD;
    #[inline]
    fn add(self, o: DD) -> DD {
        let (s1, s2) = two_sum(self.hi, o.hi);
        let (t1, t2) = two_sum(self.lo, o.lo);
        let s2 = s2 + t1;
        let (s1, s2) = quick_two_sum(s1, s2);
        let s2 = s2 + t2;
        let (h, l) = quick_two_sum(s1, s2);
        DD { hi: h, lo: l }
    }
}
impl Sub for DD {
    type Output = DD;
    #[inline]
    fn sub(self, o: DD) -> DD {
        self + (-o)
    }
}
impl Mul for DD {
    type Output = DD;
    #[inline]
    fn mul(self, o: DD) -> DD {
        let (p1, p2) = two_prod(self.hi, o.hi);
        let p2 = p2 + (self.hi * o.lo + self.lo * o.hi);
        let (h, l) = quick_two_sum(p1, p2);
        DD { hi: h, lo: l }
    }
}
impl Div for DD {
    type Output = DD;
    fn div(self, o: DD) -> DD {
        let q1 = self.hi / o.hi;
        let r = self - o * DD::new(q1);
        let q2 = r.hi / o.hi;
        let r = r - o * DD::new(q2);
        let q3 = r.hi / o.hi;
        let (h, l) = quick_two_sum(q1, q2);
        DD { hi: h, lo: l } + DD::new(q3)
    }
}
impl From<f64> for DD {
    fn from(x: f64) -> DD {
        DD::new(x)
    }
}

/// Σ x_i·y_i in double-double
pub fn dot(x: &[f64], y: &[f64]) -> DD {
    let mut s = DD::ZERO;
    for i in 0..x.len() {
        s = s + DD::new(x[i]) * DD::new(y[i]);
    }
    s
}
pub fn sum(x: &[f64]) -> DD {
    let mut s = DD::ZERO;
    for &v in x {
        s = s + DD::new(v);
    }
    s
}
