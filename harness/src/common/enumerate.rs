//! Small helpers for exhaustive product spaces.
use rayon::prelude::*;

/// number of words of length `len` over an alphabet of `base` letters
pub fn pow(base: usize, len: usize) -> u64 {
    (base as u64).pow(len as u32)
}

/// decode `idx` into `len` digits base `base` (least significant first)
#[inline]
pub fn digits(mut idx: u64, base: usize, len: usize, out: &mut [usize]) {
    for d in out.iter_mut().take(len) {
        *d = (idx % base as u64) as usize;
        idx /= base as u64;
    }
}

/// run `f(word)` for every word of length `len` over `base` letters, in parallel
pub fn par_words<F>(base: usize, len: usize, f: F)
where
    F: Fn(&[usize]) + Sync,
{
    let total = pow(base, len);
    (0..total).into_par_iter().for_each(|i| {
        let mut w = [0usize; 32];
        digits(i, base, len, &mut w);
        f(&w[..len]);
    });
}

/// mixed-radix product, sequential
pub fn product<F: FnMut(&[usize])>(radix: &[usize], mut f: F) {
    if radix.iter().any(|&r| r == 0) {
        return;
    }
    let mut idx = vec![0usize; radix.len()];
    loop {
        f(&idx);
        let mut k = 0;
        loop {
            if k == radix.len() {
                return;
            }
            idx[k] += 1;
            if idx[k] < radix[k] {
                break;
            }
            idx[k] = 0;
            k += 1;
        }
    }
}

/// all permutations of 0..n (Heap's algorithm), sequential
pub fn permutations<F: FnMut(&[usize])>(n: usize, mut f: F) {
    let mut a: Vec<usize> = (0..n).collect();
    let mut c = vec![0usize; n];
    f(&a);
    let mut i = 0;
    while i < n {
        if c[i] < i {
            if i % 2 == 0 {
                a.swap(0, i);
            } else {
                a.swap(c[i], i);
            }
            f(&a);
            c[i] += 1;
            i = 0;
        } else {
            c[i] = 0;
            i += 1;
        }
    }
}

/// all strictly increasing index subsets of size k from 0..n
pub fn combinations<F: FnMut(&[usize])>(n: usize, k: usize, mut f: F) {
    if k > n {
        return;
    }
    let mut c: Vec<usize> = (0..k).collect();
    loop {
        f(&c);
        let mut i = k;
        loop {
            if i == 0 {
                return;
            }
            i -= 1;
            if c[i] != i + n - k {
                break;
            }
            if i == 0 {
                return;
            }
        }
        c[i] += 1;
        for j in i + 1..k {
            c[j] = c[j - 1] + 1;
        }
    }
}

pub const PRIMES: [f64; 64] = [
    2., 3., 5., 7., 11., 13., 17., 19., 23., 29., 31., 37., 41., 43., 47., 53., 59., 61., 67., 71., 73., 79., 83., 89., 97., 101.,
    103., 107., 109., 113., 127., 131., 137., 139., 149., 151., 157., 163., 167., 173., 179., 181., 191., 193., 197., 199., 211.,
    223., 227., 229., 233., 239., 241., 251., 257., 263., 269., 271., 277., 281., 283., 293., 307., 311.,
];
