//! E1: exhaustive exploration of scripted RNG answers on the real samplers.
//!
//! A sampler is a deterministic transducer from the answers it pulls out of `alea` to its
//! return value. `explore` enumerates, depth first, every answer sequence over a finite,
//! probability-weighted partition of each request's range:
//!  * raw word (ziggurat): all 128 layers × 2 signs × a partition of the 24-bit field, refined by
//!    bisection at control-flow boundaries (continuation signature changes);
//!  * unit float: the interval [0,1) partitioned by continuation signature (probe grid +
//!    bisection); an interval in which the answer does not influence the value is a *gate*
//!    (accept/reject) and is explored once with its exact mass, otherwise it is subdivided;
//!  * bounded integer: every value.
//! A request beyond the declared draws of one loop iteration is a *rejection* (memoryless
//! restart): the path is cut and its mass reported; the output law is the accepted leaf measure
//! normalised. Leaves are uniform segments [lo,hi] (lo = hi for atoms) with exact masses.
use super::guard::guard;
use alea::script::{self, Ans, Kind};

/// wall-clock deadline of the exact engine for the whole check (milliseconds since the UNIX epoch; 0 = none):
/// explorations that are still running then are cut and reported as inconclusive
pub static DEADLINE_MS: std::sync::atomic::AtomicU64 = std::sync::atomic::AtomicU64::new(0);
pub fn set_deadline_in(secs: u64) {
    let now = std::time::SystemTime::now().duration_since(std::time::UNIX_EPOCH).map(|d| d.as_millis() as u64).unwrap_or(0);
    DEADLINE_MS.store(now + secs * 1000, std::sync::atomic::Ordering::Relaxed);
}
fn past_deadline() -> bool {
    let d = DEADLINE_MS.load(std::sync::atomic::Ordering::Relaxed);
    d != 0 && std::time::SystemTime::now().duration_since(std::time::UNIX_EPOCH).map(|t| t.as_millis() as u64 > d).unwrap_or(false)
}

#[derive(Clone, Debug)]
pub struct Leaf {
    pub lo: f64,
    pub hi: f64,
    pub mass: f64,
    /// a representative script reaching this leaf
    pub script: Vec<Ans>,
}

#[derive(Clone, Copy, Debug)]
pub struct Decl {
    /// raw-word requests in one rejection-free sample
    pub max_words: usize,
    /// unit-float requests in one rejection-free sample
    pub max_units: usize,
    /// cells of the 24-bit field per (layer, sign) in the directly accepted strip / in the wedge
    pub jb: usize,
    pub jw: usize,
    /// subdivisions of a value-producing unit interval at depth 0,1,2..
    pub gu: [usize; 4],
    /// subdivisions of a value-producing unit interval that follows a raw word (ziggurat tail)
    pub gw: usize,
    /// integer-valued output: cells are split at jumps of the value
    pub discrete: bool,
    /// caps of one exploration (leaves, sampler runs): beyond them the result is "inconclusive"
    pub max_leaves: usize,
    pub max_runs: u64,
}

#[derive(Default, Debug)]
pub struct Explored {
    pub leaves: Vec<Leaf>,
    pub accepted: f64,
    pub rejected: f64,
    pub runs: u64,
    pub panics: Vec<(String, Vec<Ans>)>,
    pub livelocks: Vec<Vec<Ans>>,
    pub structure_errors: Vec<String>,
}

#[derive(Clone, PartialEq, Debug)]
enum Sig {
    Done,
    /// kind of the next request, and the total number of requests of the default-completed run
    Needs(Kind, usize),
    Panic,
}

struct RunOut {
    sig: Sig,
    value: f64,
    /// value when the run is allowed to finish on default answers
    msg: String,
}

pub struct Explorer<'a> {
    pub f: &'a (dyn Fn() -> f64 + Sync),
    pub decl: Decl,
    pub out: Explored,
    /// caps of one exploration: a sampler outside the engine's model (a draw structure that keeps
    /// branching) must end in "inconclusive", not in an exhausted machine
    pub max_leaves: usize,
    pub max_runs: u64,
    capped: bool,
}

const BISECT: usize = 44;

impl<'a> Explorer<'a> {
    pub fn new(f: &'a (dyn Fn() -> f64 + Sync), decl: Decl) -> Self {
        Explorer { f, decl, out: Explored::default(), max_leaves: decl.max_leaves, max_runs: decl.max_runs, capped: false }
    }

    /// run the sampler on `script`; default answers finish the run. A sampler that rejects forever on
    /// one choice of defaults (PTRS on u = 1e-9) is retried with other defaults; only a sampler that
    /// exceeds the default budget on all of them is reported as not terminating.
    fn run(&mut self, s: &[Ans]) -> RunOut {
        if self.capped || (self.out.runs % 64 == 0 && past_deadline()) {
            // cut: unwind the enumeration quickly, the caller reports "inconclusive"
            if !self.capped {
                self.capped = true;
                self.out.structure_errors.push(format!("exploration cut after {} leaves / {} runs: the time budget of the exact engine for this check is used up", self.out.leaves.len(), self.out.runs));
            }
            self.out.runs += 1;
            return RunOut { sig: Sig::Done, value: f64::NAN, msg: String::new() };
        }
        const DEFAULTS: [(u64, f64); 3] = [(0x0000_0000_0000_0101, 1e-9), (0x0000_0000_0040_0085, 0.5), (0x0000_0000_0100_0143, 0.999)];
        let mut last = None;
        for (k, &(dw, du)) in DEFAULTS.iter().enumerate() {
            self.out.runs += 1;
            script::install_with_defaults(s.to_vec(), if k == 0 { 2_000 } else { 20_000 }, dw, du);
            let r = guard(|| (self.f)());
            let rep = script::uninstall();
            if rep.livelock {
                last = Some(RunOut { sig: Sig::Panic, value: f64::NAN, msg: "livelock".into() });
                continue;
            }
            return match r {
                Err(m) => RunOut { sig: Sig::Panic, value: f64::NAN, msg: m },
                Ok(v) => {
                    if rep.defaults == 0 {
                        RunOut { sig: Sig::Done, value: v, msg: String::new() }
                    } else {
                        RunOut { sig: Sig::Needs(rep.trace[s.len()], rep.trace.len()), value: v, msg: String::new() }
                    }
                }
            };
        }
        last.unwrap()
    }

    pub fn explore(mut self) -> Explored {
        self.rec(Vec::new(), 1.0);
        self.out
    }

    fn counts(s: &[Ans]) -> (usize, usize) {
        let w = s.iter().filter(|a| matches!(a, Ans::Word(_))).count();
        let u = s.iter().filter(|a| matches!(a, Ans::Unit(_))).count();
        (w, u)
    }

    fn rec(&mut self, prefix: Vec<Ans>, mass: f64) {
        if mass <= 0.0 || self.capped {
            return;
        }
        if past_deadline() {
            self.capped = true;
            self.out.structure_errors.push(format!("exploration cut after {} leaves / {} runs: the time budget of the exact engine for this check is used up", self.out.leaves.len(), self.out.runs));
            return;
        }
        if self.out.leaves.len() >= self.max_leaves || self.out.runs >= self.max_runs {
            self.capped = true;
            self.out.structure_errors.push(format!("exploration cut at {} leaves / {} runs: the draw structure keeps branching beyond what the engine can enumerate", self.out.leaves.len(), self.out.runs));
            return;
        }
        let r = self.run(&prefix);
        match r.sig {
            Sig::Panic => {
                if r.msg == "livelock" {
                    self.out.livelocks.push(prefix);
                } else {
                    self.out.panics.push((r.msg, prefix));
                }
            }
            Sig::Done => {
                self.out.accepted += mass;
                self.out.leaves.push(Leaf { lo: r.value, hi: r.value, mass, script: prefix });
            }
            Sig::Needs(kind, _) => {
                let (w, u) = Self::counts(&prefix);
                match kind {
                    Kind::Word => {
                        if w >= self.decl.max_words {
                            self.out.rejected += mass;
                        } else {
                            self.expand_word(prefix, mass);
                        }
                    }
                    Kind::Unit => {
                        if u >= self.decl.max_units {
                            self.out.rejected += mass;
                        } else {
                            self.expand_unit(prefix, mass, 0.0, 1.0, u);
                        }
                    }
                    Kind::Below(n) => {
                        if n > 4096 {
                            self.out.structure_errors.push(format!("bounded integer over {} values", n));
                            return;
                        }
                        for k in 0..n {
                            let mut p = prefix.clone();
                            p.push(Ans::Below(k));
                            self.rec(p, mass / n as f64);
                        }
                    }
                }
            }
        }
    }

    /// signature of the run with one more answer
    fn sig_with(&mut self, prefix: &[Ans], a: Ans) -> (Sig, f64) {
        let mut p = prefix.to_vec();
        p.push(a);
        let r = self.run(&p);
        (r.sig, r.value)
    }

    // ---- raw word (ziggurat) ------------------------------------------------------------------
    fn expand_word(&mut self, prefix: Vec<Ans>, mass: f64) {
        const J: u64 = 1 << 24;
        for i in 0..128u64 {
            for sign in 0..2u64 {
                let word = |j: u64| Ans::Word(i | (sign << 7) | (j << 8));
                let m = mass / 256.0;
                // boundary between "this word alone completes / continues the same way" regions:
                // partition [0, 2^24) by signature using end points and bisection (one boundary per layer)
                let (s0, _) = self.sig_with(&prefix, word(0));
                let (s1, _) = self.sig_with(&prefix, word(J - 1));
                let mut cuts = vec![0u64, J];
                if s0 != s1 {
                    let (mut lo, mut hi) = (0u64, J - 1);
                    while hi - lo > 1 {
                        let mid = (lo + hi) / 2;
                        if self.sig_with(&prefix, word(mid)).0 == s0 {
                            lo = mid;
                        } else {
                            hi = mid;
                        }
                    }
                    cuts = vec![0, hi, J];
                }
                for c in 0..cuts.len() - 1 {
                    let (a, b) = (cuts[c], cuts[c + 1]);
                    if b <= a {
                        continue;
                    }
                    let first_region = c == 0;
                    let cells = if first_region { self.decl.jb } else { self.decl.jw };
                    let cells = cells.min((b - a) as usize).max(1);
                    for k in 0..cells as u64 {
                        let j0 = a + (b - a) * k / cells as u64;
                        let j1 = a + (b - a) * (k + 1) / cells as u64;
                        if j1 <= j0 {
                            continue;
                        }
                        let cm = m * (j1 - j0) as f64 / J as f64;
                        let jm = (j0 + j1 - 1) / 2;
                        self.cell(&prefix, word(jm), Some((word(j0), word(j1 - 1))), cm);
                    }
                }
            }
        }
    }

    /// one cell of an answer partition: `rep` is its representative, `ends` its end-point answers
    fn cell(&mut self, prefix: &[Ans], rep: Ans, ends: Option<(Ans, Ans)>, mass: f64) {
        let mut p = prefix.to_vec();
        p.push(rep);
        let before = self.out.leaves.len();
        self.rec(p, mass);
        // leaves reached through this cell inherit the spread of the value over the cell: the
        // continuation is re-run on the cell's end points with the same suffix
        if let Some((e0, e1)) = ends {
            let plen = prefix.len();
            for li in before..self.out.leaves.len() {
                let mut s0 = self.out.leaves[li].script.clone();
                let mut s1 = s0.clone();
                s0[plen] = e0;
                s1[plen] = e1;
                // the later answers of the representative script may be gate answers that reject at the
                // cell's end points (the acceptance threshold moves with the value); gates do not influence
                // the value, so fall back to the accepting default continuation there
                let mut ends = [f64::NAN; 2];
                for (k, sc) in [s0, s1].iter().enumerate() {
                    let r = self.run(sc);
                    if r.sig == Sig::Done && r.value.is_finite() {
                        ends[k] = r.value;
                    } else {
                        let r = self.run(&sc[..plen + 1]);
                        if r.sig != Sig::Panic && r.value.is_finite() {
                            ends[k] = r.value;
                        }
                    }
                }
                if ends[0].is_finite() && ends[1].is_finite() {
                    let l = &mut self.out.leaves[li];
                    l.lo = l.lo.min(ends[0]).min(ends[1]);
                    l.hi = l.hi.max(ends[0]).max(ends[1]);
                }
            }
        }
    }

    // ---- unit float ---------------------------------------------------------------------------
    /// value of the run when it is allowed to finish on accepting defaults
    fn probe(&mut self, prefix: &[Ans], u: f64) -> (Sig, u64) {
        let mut p = prefix.to_vec();
        p.push(Ans::Unit(u));
        let r = self.run(&p);
        // unit partitions use the plain signature (the draw count of the default continuation can
        // vary with rejections on defaults and would create spurious boundaries)
        let sig = match r.sig {
            Sig::Needs(k, _) => Sig::Needs(k, 0),
            other => other,
        };
        (sig, r.value.to_bits())
    }

    fn expand_unit(&mut self, prefix: Vec<Ans>, mass: f64, a: f64, b: f64, depth: usize) {
        // 1. partition [a,b) by continuation signature: probe grid + bisection
        // probe grid plus the two extreme ends (a gate whose threshold lies within 1/32 of an end
        // would otherwise be missed)
        let inner = 16usize;
        let mut pts: Vec<f64> = vec![a + (b - a) * 1e-12];
        pts.extend((0..inner).map(|k| a + (b - a) * (k as f64 + 0.5) / inner as f64));
        pts.push(b - (b - a) * 1e-12);
        let probes = pts.len();
        let sigs: Vec<(Sig, u64)> = pts.iter().map(|&u| self.probe(&prefix, u)).collect();
        let mut cuts = vec![a];
        for k in 0..probes - 1 {
            if sigs[k].0 != sigs[k + 1].0 {
                let (mut lo, mut hi) = (pts[k], pts[k + 1]);
                for _ in 0..BISECT {
                    let mid = 0.5 * (lo + hi);
                    if self.probe(&prefix, mid).0 == sigs[k].0 {
                        lo = mid;
                    } else {
                        hi = mid;
                    }
                }
                cuts.push(0.5 * (lo + hi));
            }
        }
        cuts.push(b);
        // 2. each interval: gate (answer does not influence the default-completed value) or value-producing
        for c in 0..cuts.len() - 1 {
            let (lo, hi) = (cuts[c], cuts[c + 1]);
            let w = hi - lo;
            if w <= 0.0 {
                continue;
            }
            let m = mass * w / (b - a);
            let (u1, u2, u3) = (lo + 0.1 * w, lo + 0.5 * w, lo + 0.9 * w);
            let (v1, v2, v3) = (self.probe(&prefix, u1), self.probe(&prefix, u2), self.probe(&prefix, u3));
            let gate = v1 == v2 && v2 == v3;
            if gate {
                let mut p = prefix.clone();
                p.push(Ans::Unit(u2));
                self.rec(p, m);
            } else {
                let g = if Self::counts(&prefix).0 > 0 { self.decl.gw } else { self.decl.gu[depth.min(3)] };
                for k in 0..g {
                    let c0 = (lo + w * k as f64 / g as f64).max(lo + w * 1e-13);
                    let c1 = (lo + w * (k + 1) as f64 / g as f64).min(hi - w * 1e-13);
                    let cm = m / g as f64;
                    if self.decl.discrete {
                        self.split_discrete(&prefix, c0, c1, cm, 0);
                    } else {
                        self.cell(&prefix, Ans::Unit(0.5 * (c0 + c1)), Some((Ans::Unit(c0), Ans::Unit(c1))), cm);
                    }
                }
            }
        }
    }
}

impl<'a> Explorer<'a> {
    /// integer-valued output: split [c0,c1] where the default-completed value jumps
    fn split_discrete(&mut self, prefix: &[Ans], c0: f64, c1: f64, mass: f64, level: usize) {
        let (v0, v1) = (self.probe(prefix, c0), self.probe(prefix, c1));
        if v0 == v1 || level > 40 || (c1 - c0) < 1e-13 {
            self.cell(prefix, Ans::Unit(0.5 * (c0 + c1)), None, mass);
            return;
        }
        // locate the first jump by bisection, split there, continue on the right part
        let (mut lo, mut hi) = (c0, c1);
        for _ in 0..BISECT {
            let mid = 0.5 * (lo + hi);
            if self.probe(prefix, mid) == v0 {
                lo = mid;
            } else {
                hi = mid;
            }
        }
        let cut = 0.5 * (lo + hi);
        let w = c1 - c0;
        self.cell(prefix, Ans::Unit(0.5 * (c0 + lo)), None, mass * (cut - c0) / w);
        self.split_discrete(prefix, hi, c1, mass * (c1 - cut) / w, level + 1);
    }
}

/// weighted uniform segments / atoms → sup-distance to a continuous reference CDF.
/// Sweep over the sorted end points with an explicit active-segment set (a global slope/intercept
/// accumulator loses all accuracy on heavy-tailed laws, where t reaches 1e13 and beyond).
pub fn sup_distance(leaves: &[Leaf], total: f64, cdf: &dyn Fn(f64) -> f64) -> (f64, f64) {
    // (t, is_end, leaf index)
    let mut ev: Vec<(f64, bool, usize)> = Vec::with_capacity(leaves.len() * 2);
    for (i, l) in leaves.iter().enumerate() {
        ev.push((l.lo, false, i));
        if l.hi > l.lo {
            ev.push((l.hi, true, i));
        }
    }
    ev.sort_by(|a, b| a.0.partial_cmp(&b.0).unwrap().then(a.1.cmp(&b.1).reverse()));
    let mut active: Vec<usize> = Vec::new();
    let mut base = 0.0f64;
    let (mut worst, mut at) = (0.0f64, f64::NAN);
    let eval = |active: &Vec<usize>, base: f64, t: f64| -> f64 {
        let mut f = base;
        for &i in active {
            let l = &leaves[i];
            f += l.mass / total * ((t - l.lo) / (l.hi - l.lo)).clamp(0.0, 1.0);
        }
        f
    };
    let mut i = 0;
    while i < ev.len() {
        let t = ev[i].0;
        let r = cdf(t);
        let before = eval(&active, base, t);
        let mut j = i;
        while j < ev.len() && ev[j].0 == t {
            let (_, is_end, li) = ev[j];
            let l = &leaves[li];
            if is_end {
                if let Some(p) = active.iter().position(|&x| x == li) {
                    active.swap_remove(p);
                }
                base += l.mass / total;
            } else if l.hi > l.lo {
                active.push(li);
            } else {
                base += l.mass / total;
            }
            j += 1;
        }
        let after = eval(&active, base, t);
        let d = (before - r).abs().max((after - r).abs());
        if d > worst {
            worst = d;
            at = t;
        }
        i = j;
    }
    (worst, at)
}

/// integer-valued leaves (atoms) → sup-distance between the cumulative masses and a reference
/// CDF evaluated at the integers; also returns whether every atom is an integer
pub fn sup_distance_discrete(leaves: &[Leaf], total: f64, cdf: &dyn Fn(f64) -> f64) -> (f64, f64, bool) {
    use std::collections::BTreeMap;
    let mut pm: BTreeMap<i64, f64> = BTreeMap::new();
    let mut integral = true;
    for l in leaves {
        if l.lo != l.hi || l.lo.fract() != 0.0 || !l.lo.is_finite() {
            integral = false;
            continue;
        }
        *pm.entry(l.lo as i64).or_insert(0.0) += l.mass / total;
    }
    if pm.is_empty() {
        return (1.0, f64::NAN, integral);
    }
    let (lo, hi) = (*pm.keys().next().unwrap(), *pm.keys().last().unwrap());
    let mut cum = 0.0;
    let (mut worst, mut at) = (0.0f64, f64::NAN);
    for k in (lo - 1)..=(hi + 1) {
        cum += pm.get(&k).copied().unwrap_or(0.0);
        let d = (cum - cdf(k as f64)).abs();
        if d > worst {
            worst = d;
            at = k as f64;
        }
    }
    (worst, at, integral)
}
