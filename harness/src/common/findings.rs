//! known_findings.json (read-only at run time) and build identification.
use std::process::Command;

#[derive(Debug, Clone)]
pub struct Finding {
    pub property: String,
    pub key: String,
    pub status: String,
    pub what: String,
}

pub struct Findings {
    pub all: Vec<Finding>,
}

pub fn load() -> Findings {
    let mut all = Vec::new();
    if let Ok(s) = std::fs::read_to_string("/verif/known_findings.json") {
        if let Ok(v) = serde_json::from_str::<serde_json::Value>(&s) {
            if let Some(arr) = v.get("findings").and_then(|a| a.as_array()) {
                for f in arr {
                    let g = |k: &str| f.get(k).and_then(|x| x.as_str()).unwrap_or("").to_string();
                    all.push(Finding { property: g("property"), key: g("key"), status: g("status"), what: g("what") });
                }
            }
        }
    }
    Findings { all }
}

fn key_matches(pat: &str, key: &str) -> bool {
    if let Some(p) = pat.strip_suffix('*') {
        key.starts_with(p)
    } else {
        pat == key
    }
}

impl Findings {
    /// returns the matching open finding's key pattern
    pub fn match_open(&self, id: &str, key: &str) -> Option<String> {
        self.all
            .iter()
            .find(|f| f.status == "open" && f.property == id && key_matches(&f.key, key))
            .map(|f| f.key.clone())
    }
    pub fn open_for(&self, id: &str) -> Vec<Finding> {
        self.all.iter().filter(|f| f.status == "open" && f.property == id).cloned().collect()
    }
}

pub fn build_id() -> String {
    let head = Command::new("git").args(["-C", "/repo", "rev-parse", "--short", "HEAD"]).output();
    let diff = Command::new("git").args(["-C", "/repo", "diff", "HEAD"]).output();
    let h = head.ok().map(|o| String::from_utf8_lossy(&o.stdout).trim().to_string()).unwrap_or_default();
    let d = diff.ok().map(|o| o.stdout).unwrap_or_default();
    if d.is_empty() {
        format!("{}+clean", h)
    } else {
        format!("{}+diff:{:016x}", h, crate::common::run::hash_of(&d))
    }
}
