//! Subject isolation: catch_unwind with captured message, fd redirection, poisoning allocator.
use std::alloc::{GlobalAlloc, Layout, System};
use std::cell::RefCell;
use std::io::Write;
use std::os::unix::io::FromRawFd;
use std::panic::{catch_unwind, AssertUnwindSafe};

thread_local! {
    static LAST_PANIC: RefCell<String> = RefCell::new(String::new());
}

/// Run `f`, converting a panic into `Err(message)`.
pub fn guard<T>(f: impl FnOnce() -> T) -> Result<T, String> {
    match catch_unwind(AssertUnwindSafe(f)) {
        Ok(v) => Ok(v),
        Err(p) => {
            let msg = if let Some(s) = p.downcast_ref::<&str>() {
                s.to_string()
            } else if let Some(s) = p.downcast_ref::<String>() {
                s.clone()
            } else {
                LAST_PANIC.with(|l| l.borrow().clone())
            };
            Err(msg)
        }
    }
}

/// Silence the panic hook (messages are kept in the payload) and send the library's own
/// stdout/stderr chatter to /dev/null. Returns a writer onto the real stdout.
/// file descriptor of the real standard output after `isolate_io` (for the watchdog)
/// the most recent panic of any thread, with its source location (`panicked at <file>:<line>`)
pub static LAST_PANIC_GLOBAL: std::sync::Mutex<String> = std::sync::Mutex::new(String::new());
pub static REAL_STDOUT: std::sync::atomic::AtomicI32 = std::sync::atomic::AtomicI32::new(1);

pub fn isolate_io() -> Box<dyn Write + Send> {
    std::panic::set_hook(Box::new(|info| {
        let s = info.to_string();
        if let Ok(mut g) = LAST_PANIC_GLOBAL.lock() {
            *g = s.clone();
        }
        LAST_PANIC.with(|l| *l.borrow_mut() = s);
    }));
    unsafe {
        let real = libc::dup(1);
        let null = libc::open(b"/dev/null\0".as_ptr() as *const libc::c_char, libc::O_WRONLY);
        if real >= 0 && null >= 0 {
            REAL_STDOUT.store(real, std::sync::atomic::Ordering::SeqCst);
            libc::dup2(null, 1);
            libc::dup2(null, 2);
            libc::close(null);
            return Box::new(std::fs::File::from_raw_fd(real));
        }
    }
    Box::new(std::io::stdout())
}

/// The payload every fresh allocation is filled with: a quiet NaN with a recognisable mantissa.
pub const POISON: u64 = 0x7ff8_dead_beef_0bad;

pub fn is_poison(x: f64) -> bool {
    x.to_bits() == POISON
}

pub struct PoisonAlloc;

unsafe impl GlobalAlloc for PoisonAlloc {
    unsafe fn alloc(&self, layout: Layout) -> *mut u8 {
        let p = System.alloc(layout);
        if !p.is_null() {
            fill(p, layout.size());
        }
        p
    }
    unsafe fn dealloc(&self, ptr: *mut u8, layout: Layout) {
        System.dealloc(ptr, layout)
    }
    unsafe fn alloc_zeroed(&self, layout: Layout) -> *mut u8 {
        System.alloc_zeroed(layout)
    }
    unsafe fn realloc(&self, ptr: *mut u8, layout: Layout, new_size: usize) -> *mut u8 {
        let old = layout.size();
        let p = System.realloc(ptr, layout, new_size);
        if !p.is_null() && new_size > old {
            fill(p.add(old), new_size - old);
        }
        p
    }
}

#[inline]
unsafe fn fill(p: *mut u8, n: usize) {
    // fill with the 8-byte poison pattern, phase-aligned to the address so that an f64 read at
    // any 8-aligned address sees the full pattern
    let bytes = POISON.to_le_bytes();
    let mut i = 0usize;
    let addr = p as usize;
    // unaligned head
    while i < n && (addr + i) % 8 != 0 {
        *p.add(i) = bytes[(addr + i) % 8];
        i += 1;
    }
    while i + 8 <= n {
        (p.add(i) as *mut u64).write(POISON);
        i += 8;
    }
    while i < n {
        *p.add(i) = bytes[(addr + i) % 8];
        i += 1;
    }
}
