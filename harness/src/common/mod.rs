pub mod dd;
pub mod enumerate;
pub mod findings;
pub mod guard;
pub mod rat;
pub mod refmath;
pub mod run;
pub use guard::guard;
pub use run::{Run, Tier};
