//! Checked i128 rationals. Any overflow poisons the value (`ovf`), and the caller skips the case.
use std::cmp::Ordering;

#[derive(Debug, Clone, Copy)]
pub struct Rat {
    pub n: i128,
    pub d: i128, // > 0
    pub ovf: bool,
}

fn gcd(mut a: i128, mut b: i128) -> i128 {
    a = a.abs();
    b = b.abs();
    while b != 0 {
        let t = a % b;
        a = b;
        b = t;
    }
    a
}

impl Rat {
    pub const ZERO: Rat = Rat { n: 0, d: 1, ovf: false };
    pub const ONE: Rat = Rat { n: 1, d: 1, ovf: false };
    pub const OVF: Rat = Rat { n: 0, d: 1, ovf: true };
    pub fn int(n: i128) -> Rat {
        Rat { n, d: 1, ovf: false }
    }
    pub fn new(n: i128, d: i128) -> Rat {
        if d == 0 {
            return Rat::OVF;
        }
        let g = gcd(n, d);
        let (mut n, mut d) = if g > 1 { (n / g, d / g) } else { (n, d) };
        if d < 0 {
            n = -n;
            d = -d;
        }
        Rat { n, d, ovf: false }
    }
    /// exact conversion of a finite f64 (dyadic) — overflow if it does not fit
    pub fn from_f64(x: f64) -> Rat {
        if !x.is_finite() {
            return Rat::OVF;
        }
        if x == 0.0 {
            return Rat::ZERO;
        }
        let bits = x.to_bits();
        let sign: i128 = if bits >> 63 == 1 { -1 } else { 1 };
        let exp = ((bits >> 52) & 0x7ff) as i64;
        let frac = bits & ((1u64 << 52) - 1);
        let (mut m, mut e) = if exp == 0 { (frac as i128, -1074i64) } else { ((frac | (1u64 << 52)) as i128, exp - 1075) };
        while m % 2 == 0 && e < 0 {
            m /= 2;
            e += 1;
        }
        if e >= 0 {
            if e > 70 {
                return Rat::OVF;
            }
            Rat { n: sign * (m << e), d: 1, ovf: false }
        } else {
            if -e > 100 {
                return Rat::OVF;
            }
            Rat { n: sign * m, d: 1i128 << (-e), ovf: false }
        }
    }
    pub fn to_dd(self) -> crate::common::dd::DD {
        use crate::common::dd::DD;
        if self.ovf {
            return DD::new(f64::NAN);
        }
        fn i2dd(v: i128) -> DD {
            let hi = v as f64;
            // |v| < 2^127 so hi is finite; the remainder fits in i128 and is < 2^75 in magnitude
            let lo = (v - hi as i128) as f64;
            DD::new(hi) + DD::new(lo)
        }
        i2dd(self.n) / i2dd(self.d)
    }
    pub fn to_f64(self) -> f64 {
        self.to_dd().f()
    }
    pub fn is_zero(self) -> bool {
        !self.ovf && self.n == 0
    }
    pub fn add(self, o: Rat) -> Rat {
        if self.ovf || o.ovf {
            return Rat::OVF;
        }
        let g = gcd(self.d, o.d);
        let l = self.d / g;
        let (a, b, c) = match (self.n.checked_mul(o.d / g), o.n.checked_mul(l), l.checked_mul(o.d)) {
            (Some(a), Some(b), Some(c)) => (a, b, c),
            _ => return Rat::OVF,
        };
        match a.checked_add(b) {
            Some(s) => Rat::new(s, c),
            None => Rat::OVF,
        }
    }
    pub fn neg(self) -> Rat {
        Rat { n: -self.n, d: self.d, ovf: self.ovf }
    }
    pub fn sub(self, o: Rat) -> Rat {
        self.add(o.neg())
    }
    pub fn mul(self, o: Rat) -> Rat {
        if self.ovf || o.ovf {
            return Rat::OVF;
        }
        let g1 = gcd(self.n, o.d).max(1);
        let g2 = gcd(o.n, self.d).max(1);
        match ((self.n / g1).checked_mul(o.n / g2), (self.d / g2).checked_mul(o.d / g1)) {
            (Some(n), Some(d)) => Rat::new(n, d),
            _ => Rat::OVF,
        }
    }
    pub fn div(self, o: Rat) -> Rat {
        if o.ovf || o.n == 0 {
            return Rat::OVF;
        }
        self.mul(Rat { n: o.d * o.n.signum(), d: o.n.abs(), ovf: false })
    }
    pub fn abs(self) -> Rat {
        Rat { n: self.n.abs(), d: self.d, ovf: self.ovf }
    }
    pub fn cmp(self, o: Rat) -> Option<Ordering> {
        let d = self.sub(o);
        if d.ovf {
            None
        } else {
            Some(d.n.cmp(&0))
        }
    }
    pub fn signum(self) -> i32 {
        self.n.signum() as i32
    }
}

/// Solve A x = B (A n×n, B n×m, row-major rationals) by Gauss–Jordan with exact pivoting.
/// Returns None if singular or on overflow.
pub fn solve(a: &[Rat], b: &[Rat], n: usize, m: usize) -> Option<Vec<Rat>> {
    let mut a = a.to_vec();
    let mut b = b.to_vec();
    for c in 0..n {
        let mut p = None;
        for r in c..n {
            if a[r * n + c].ovf {
                return None;
            }
            if !a[r * n + c].is_zero() {
                p = Some(r);
                break;
            }
        }
        let p = p?;
        if p != c {
            for k in 0..n {
                a.swap(p * n + k, c * n + k);
            }
            for k in 0..m {
                b.swap(p * m + k, c * m + k);
            }
        }
        let piv = a[c * n + c];
        for k in 0..n {
            a[c * n + k] = a[c * n + k].div(piv);
        }
        for k in 0..m {
            b[c * m + k] = b[c * m + k].div(piv);
        }
        for r in 0..n {
            if r != c && !a[r * n + c].is_zero() {
                let f = a[r * n + c];
                for k in 0..n {
                    a[r * n + k] = a[r * n + k].sub(f.mul(a[c * n + k]));
                }
                for k in 0..m {
                    b[r * m + k] = b[r * m + k].sub(f.mul(b[c * m + k]));
                }
            }
        }
    }
    if b.iter().any(|x| x.ovf) {
        return None;
    }
    Some(b)
}

/// Exact determinant by fraction-free (Bareiss) elimination on integers. None on overflow.
pub fn det_bareiss(a: &[i128], n: usize) -> Option<i128> {
    if n == 0 {
        return Some(1);
    }
    let mut m = a.to_vec();
    let mut sign = 1i128;
    let mut prev = 1i128;
    for k in 0..n - 1 {
        if m[k * n + k] == 0 {
            let mut sw = None;
            for r in k + 1..n {
                if m[r * n + k] != 0 {
                    sw = Some(r);
                    break;
                }
            }
            match sw {
                None => return Some(0),
                Some(r) => {
                    for c in 0..n {
                        m.swap(r * n + c, k * n + c);
                    }
                    sign = -sign;
                }
            }
        }
        for i in k + 1..n {
            for j in k + 1..n {
                let t = m[i * n + j].checked_mul(m[k * n + k])?.checked_sub(m[i * n + k].checked_mul(m[k * n + j])?)?;
                m[i * n + j] = t / prev;
            }
        }
        prev = m[k * n + k];
    }
    Some(sign * m[n * n - 1])
}

/// determinant of a rational matrix via Gaussian elimination
pub fn det_rat(a: &[Rat], n: usize) -> Option<Rat> {
    let mut a = a.to_vec();
    let mut det = Rat::ONE;
    for c in 0..n {
        let mut p = None;
        for r in c..n {
            if a[r * n + c].ovf {
                return None;
            }
            if !a[r * n + c].is_zero() {
                p = Some(r);
                break;
            }
        }
        let p = match p {
            Some(p) => p,
            None => return Some(Rat::ZERO),
        };
        if p != c {
            for k in 0..n {
                a.swap(p * n + k, c * n + k);
            }
            det = det.neg();
        }
        let piv = a[c * n + c];
        det = det.mul(piv);
        for r in c + 1..n {
            if !a[r * n + c].is_zero() {
                let f = a[r * n + c].div(piv);
                for k in c..n {
                    a[r * n + k] = a[r * n + k].sub(f.mul(a[c * n + k]));
                }
            }
        }
    }
    if det.ovf {
        None
    } else {
        Some(det)
    }
}
