//! Independent reference mathematics: glibc libm through FFI, and reference CDFs written here
//! (self-tested against committed scipy tables at the start of every run that uses them).
extern "C" {
    fn tgamma(x: f64) -> f64;
    fn lgamma_r(x: f64, sign: *mut i32) -> f64;
    fn erf(x: f64) -> f64;
    fn erfc(x: f64) -> f64;
    fn expm1(x: f64) -> f64;
    fn log1p(x: f64) -> f64;
}
pub fn c_tgamma(x: f64) -> f64 {
    unsafe { tgamma(x) }
}
/// (ln|Γ(x)|, sign)
pub fn c_lgamma(x: f64) -> (f64, i32) {
    let mut s = 0i32;
    let v = unsafe { lgamma_r(x, &mut s) };
    (v, s)
}
pub fn lgam(x: f64) -> f64 {
    c_lgamma(x).0
}
pub fn c_erf(x: f64) -> f64 {
    unsafe { erf(x) }
}
pub fn c_erfc(x: f64) -> f64 {
    unsafe { erfc(x) }
}
pub fn c_expm1(x: f64) -> f64 {
    unsafe { expm1(x) }
}
pub fn c_log1p(x: f64) -> f64 {
    unsafe { log1p(x) }
}

pub const U: f64 = 1.1102230246251565e-16; // 2^-53

/// Regularised lower incomplete gamma P(a,x)
pub fn gamma_p(a: f64, x: f64) -> f64 {
    if x <= 0.0 {
        return 0.0;
    }
    if x < a + 1.0 {
        // series
        let mut ap = a;
        let mut del = 1.0 / a;
        let mut sum = del;
        for _ in 0..100000 {
            ap += 1.0;
            del *= x / ap;
            sum += del;
            if del.abs() < sum.abs() * 1e-17 {
                break;
            }
        }
        (sum.ln() - x + a * x.ln() - lgam(a)).exp()
    } else {
        1.0 - gamma_q_cf(a, x)
    }
}
fn gamma_q_cf(a: f64, x: f64) -> f64 {
    let tiny = 1e-300;
    let mut b = x + 1.0 - a;
    let mut c = 1.0 / tiny;
    let mut d = 1.0 / b;
    let mut h = d;
    for i in 1..100000 {
        let an = -(i as f64) * (i as f64 - a);
        b += 2.0;
        d = an * d + b;
        if d.abs() < tiny {
            d = tiny;
        }
        c = b + an / c;
        if c.abs() < tiny {
            c = tiny;
        }
        d = 1.0 / d;
        let del = d * c;
        h *= del;
        if (del - 1.0).abs() < 1e-16 {
            break;
        }
    }
    (-x + a * x.ln() - lgam(a)).exp() * h
}
pub fn gamma_q(a: f64, x: f64) -> f64 {
    if x <= 0.0 {
        return 1.0;
    }
    if x < a + 1.0 {
        1.0 - gamma_p(a, x)
    } else {
        gamma_q_cf(a, x)
    }
}

/// Regularised incomplete beta I_x(a,b)
pub fn beta_i(a: f64, b: f64, x: f64) -> f64 {
    if x <= 0.0 {
        return 0.0;
    }
    if x >= 1.0 {
        return 1.0;
    }
    let bt = (lgam(a + b) - lgam(a) - lgam(b) + a * x.ln() + b * c_log1p(-x)).exp();
    if x < (a + 1.0) / (a + b + 2.0) {
        bt * betacf(a, b, x) / a
    } else {
        1.0 - bt * betacf(b, a, 1.0 - x) / b
    }
}
fn betacf(a: f64, b: f64, x: f64) -> f64 {
    let tiny = 1e-300;
    let qab = a + b;
    let qap = a + 1.0;
    let qam = a - 1.0;
    let mut c = 1.0;
    let mut d = 1.0 - qab * x / qap;
    if d.abs() < tiny {
        d = tiny;
    }
    d = 1.0 / d;
    let mut h = d;
    for m in 1..100000 {
        let m = m as f64;
        let m2 = 2.0 * m;
        let aa = m * (b - m) * x / ((qam + m2) * (a + m2));
        d = 1.0 + aa * d;
        if d.abs() < tiny {
            d = tiny;
        }
        c = 1.0 + aa / c;
        if c.abs() < tiny {
            c = tiny;
        }
        d = 1.0 / d;
        h *= d * c;
        let aa = -(a + m) * (qab + m) * x / ((a + m2) * (qap + m2));
        d = 1.0 + aa * d;
        if d.abs() < tiny {
            d = tiny;
        }
        c = 1.0 + aa / c;
        if c.abs() < tiny {
            c = tiny;
        }
        d = 1.0 / d;
        let del = d * c;
        h *= del;
        if (del - 1.0).abs() < 1e-16 {
            break;
        }
    }
    h
}

pub fn norm_cdf(z: f64) -> f64 {
    0.5 * c_erfc(-z / std::f64::consts::SQRT_2)
}
pub fn gamma_cdf(shape: f64, rate: f64, x: f64) -> f64 {
    gamma_p(shape, rate * x)
}
pub fn chi2_cdf(k: f64, x: f64) -> f64 {
    gamma_p(k / 2.0, x / 2.0)
}
pub fn beta_cdf(a: f64, b: f64, x: f64) -> f64 {
    beta_i(a, b, x)
}
pub fn t_cdf(nu: f64, t: f64) -> f64 {
    let x = nu / (nu + t * t);
    let tail = 0.5 * beta_i(nu / 2.0, 0.5, x);
    if t > 0.0 {
        1.0 - tail
    } else {
        tail
    }
}
/// P(X ≤ k) for Poisson(λ)
pub fn poisson_cdf(lam: f64, k: f64) -> f64 {
    if k < 0.0 {
        0.0
    } else {
        gamma_q(k.floor() + 1.0, lam)
    }
}
pub fn poisson_pmf(lam: f64, k: f64) -> f64 {
    (k * lam.ln() - lam - lgam(k + 1.0)).exp()
}
pub fn binom_pmf(n: f64, p: f64, k: f64) -> f64 {
    if k < 0.0 || k > n {
        return 0.0;
    }
    if p == 0.0 {
        return if k == 0.0 { 1.0 } else { 0.0 };
    }
    if p == 1.0 {
        return if k == n { 1.0 } else { 0.0 };
    }
    (lgam(n + 1.0) - lgam(k + 1.0) - lgam(n - k + 1.0) + k * p.ln() + (n - k) * c_log1p(-p)).exp()
}
/// P(X ≤ k) for Binomial(n,p)
pub fn binom_cdf(n: f64, p: f64, k: f64) -> f64 {
    if k < 0.0 {
        return 0.0;
    }
    if k >= n {
        return 1.0;
    }
    if p == 0.0 {
        return 1.0;
    }
    if p == 1.0 {
        return 0.0;
    }
    beta_i(n - k.floor(), k.floor() + 1.0, 1.0 - p)
}

/// Self-test of the reference functions against the committed scipy table.
/// Returns Err(description) on the first disagreement.
pub fn self_test() -> Result<usize, String> {
    let path = "/verif/fixtures/ref_table.json";
    let s = std::fs::read_to_string(path).map_err(|e| format!("{}: {}", path, e))?;
    let v: serde_json::Value = serde_json::from_str(&s).map_err(|e| format!("{}: {}", path, e))?;
    let rows = v.get("rows").and_then(|r| r.as_array()).ok_or("ref_table: no rows")?;
    let mut n = 0;
    for r in rows {
        let f = r[0].as_str().unwrap_or("");
        let a: Vec<f64> = r[1].as_array().unwrap().iter().map(|x| x.as_f64().unwrap()).collect();
        let want = r[2].as_f64().unwrap();
        let got = match f {
            "gamma_p" => gamma_p(a[0], a[1]),
            "gamma_q" => gamma_q(a[0], a[1]),
            "beta_i" => beta_i(a[0], a[1], a[2]),
            "norm_cdf" => norm_cdf(a[0]),
            "t_cdf" => t_cdf(a[0], a[1]),
            "poisson_cdf" => poisson_cdf(a[0], a[1]),
            "binom_cdf" => binom_cdf(a[0], a[1], a[2]),
            "binom_pmf" => binom_pmf(a[0], a[1], a[2]),
            "poisson_pmf" => poisson_pmf(a[0], a[1]),
            "lgamma" => lgam(a[0]),
            "tgamma" => c_tgamma(a[0]),
            "erf" => c_erf(a[0]),
            _ => return Err(format!("ref_table: unknown function {}", f)),
        };
        let tol = 1e-11 * want.abs().max(1e-3) + 1e-14;
        if !((got - want).abs() <= tol) {
            return Err(format!("reference self-test: {}({:?}) = {:e}, scipy {:e}", f, a, got, want));
        }
        n += 1;
    }
    if n < 100 {
        return Err(format!("reference self-test: only {} rows", n));
    }
    Ok(n)
}
