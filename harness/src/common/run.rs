//! Run context: counters, violation collection, known-findings matching, evidence writing.
use std::collections::{BTreeMap, HashSet};
use std::hash::{Hash, Hasher};
use std::sync::atomic::{AtomicU64, Ordering::Relaxed};
use std::sync::Mutex;
use std::time::Instant;

#[derive(Debug, Clone, Copy, PartialEq, Eq)]
pub enum Tier {
    Quick,
    Thorough,
}

impl Tier {
    pub fn name(self) -> &'static str {
        match self {
            Tier::Quick => "quick",
            Tier::Thorough => "thorough",
        }
    }
    pub fn thorough(self) -> bool {
        self == Tier::Thorough
    }
    /// pick a by tier
    pub fn pick<T>(self, quick: T, thorough: T) -> T {
        match self {
            Tier::Quick => quick,
            Tier::Thorough => thorough,
        }
    }
}

#[derive(Debug, Clone)]
pub struct Viol {
    pub count: u64,
    pub detail: String,
}

pub struct Run {
    pub id: &'static str,
    pub tier: Tier,
    pub seed: u64,
    start: Instant,
    evaluations: AtomicU64,
    transitions: AtomicU64,
    validated: AtomicU64,
    states: AtomicU64,
    nontrivial: AtomicU64,
    outcomes: Mutex<HashSet<u64>>,
    violations: Mutex<BTreeMap<String, Viol>>,
    samples: Mutex<Vec<String>>,
    skipped: Mutex<BTreeMap<String, u64>>,
    regimes: Mutex<BTreeMap<String, u64>>,
    required_regimes: Mutex<Vec<String>>,
    caps: Mutex<Vec<String>>,
    bounds: Mutex<BTreeMap<String, String>>,
    assumptions: Mutex<Vec<String>>,
    rule: Mutex<String>,
    exhaustive: Mutex<bool>,
    extra: Mutex<BTreeMap<String, serde_json::Value>>,
    machinery_errors: Mutex<Vec<String>>,
}

pub fn hash_of<T: Hash>(t: &T) -> u64 {
    let mut h = std::collections::hash_map::DefaultHasher::new();
    t.hash(&mut h);
    h.finish()
}

impl Run {
    pub fn new(id: &'static str, tier: Tier, seed: u64) -> Self {
        Run {
            id,
            tier,
            seed,
            start: Instant::now(),
            evaluations: AtomicU64::new(0),
            transitions: AtomicU64::new(0),
            validated: AtomicU64::new(0),
            states: AtomicU64::new(0),
            nontrivial: AtomicU64::new(0),
            outcomes: Mutex::new(HashSet::new()),
            violations: Mutex::new(BTreeMap::new()),
            samples: Mutex::new(Vec::new()),
            skipped: Mutex::new(BTreeMap::new()),
            regimes: Mutex::new(BTreeMap::new()),
            required_regimes: Mutex::new(Vec::new()),
            caps: Mutex::new(Vec::new()),
            bounds: Mutex::new(BTreeMap::new()),
            assumptions: Mutex::new(Vec::new()),
            rule: Mutex::new(String::new()),
            exhaustive: Mutex::new(true),
            extra: Mutex::new(BTreeMap::new()),
            machinery_errors: Mutex::new(Vec::new()),
        }
    }
    pub fn thorough(&self) -> bool {
        self.tier.thorough()
    }
    pub fn elapsed(&self) -> f64 {
        self.start.elapsed().as_secs_f64()
    }

    // ---- counters -------------------------------------------------------------------------
    /// one enumerated case (distinct by construction) — counts as evaluation and as state
    #[inline]
    pub fn case(&self) {
        self.evaluations.fetch_add(1, Relaxed);
        self.states.fetch_add(1, Relaxed);
    }
    #[inline]
    pub fn cases(&self, n: u64) {
        self.evaluations.fetch_add(n, Relaxed);
        self.states.fetch_add(n, Relaxed);
    }
    /// enumerated case that is not a new state (e.g. re-visit)
    #[inline]
    pub fn evals(&self, n: u64) {
        self.evaluations.fetch_add(n, Relaxed);
    }
    #[inline]
    pub fn add_states(&self, n: u64) {
        self.states.fetch_add(n, Relaxed);
    }
    /// a call of real `compute` code
    #[inline]
    pub fn tr(&self) {
        self.transitions.fetch_add(1, Relaxed);
    }
    #[inline]
    pub fn trs(&self, n: u64) {
        self.transitions.fetch_add(n, Relaxed);
    }
    /// a comparison implementation-vs-model actually performed
    #[inline]
    pub fn ok(&self) {
        self.validated.fetch_add(1, Relaxed);
    }
    #[inline]
    pub fn oks(&self, n: u64) {
        self.validated.fetch_add(n, Relaxed);
    }
    /// a case that is non-trivial by the property's rule (distinct by construction)
    #[inline]
    pub fn nontrivial(&self, n: u64) {
        self.nontrivial.fetch_add(n, Relaxed);
    }
    /// record an outcome signature (distinct-outcome set; vacuity guard)
    pub fn outcome<T: Hash>(&self, sig: &T) {
        let h = hash_of(sig);
        let mut o = self.outcomes.lock().unwrap();
        if o.len() < 2_000_000 {
            o.insert(h);
        }
    }
    pub fn outcome_hash(&self, h: u64) {
        let mut o = self.outcomes.lock().unwrap();
        if o.len() < 2_000_000 {
            o.insert(h);
        }
    }
    pub fn skip(&self, reason: &str) {
        *self.skipped.lock().unwrap().entry(reason.to_string()).or_insert(0) += 1;
    }
    pub fn skips(&self, reason: &str, n: u64) {
        *self.skipped.lock().unwrap().entry(reason.to_string()).or_insert(0) += n;
    }
    pub fn regime(&self, name: &str) {
        *self.regimes.lock().unwrap().entry(name.to_string()).or_insert(0) += 1;
    }
    pub fn regimes(&self, name: &str, n: u64) {
        *self.regimes.lock().unwrap().entry(name.to_string()).or_insert(0) += n;
    }
    /// a regime that must have been entered at least once, else the run is vacuous (exit 2)
    pub fn require_regime(&self, name: &str) {
        self.required_regimes.lock().unwrap().push(name.to_string());
    }
    pub fn cap(&self, what: &str) {
        self.caps.lock().unwrap().push(what.to_string());
        *self.exhaustive.lock().unwrap() = false;
    }
    pub fn not_exhaustive(&self) {
        *self.exhaustive.lock().unwrap() = false;
    }
    pub fn bound(&self, axis: &str, value: impl ToString) {
        self.bounds.lock().unwrap().insert(axis.to_string(), value.to_string());
    }
    pub fn assume(&self, a: &str) {
        let mut v = self.assumptions.lock().unwrap();
        if !v.iter().any(|x| x == a) {
            v.push(a.to_string());
        }
    }
    pub fn rule(&self, r: &str) {
        *self.rule.lock().unwrap() = r.to_string();
    }
    pub fn extra(&self, k: &str, v: serde_json::Value) {
        self.extra.lock().unwrap().insert(k.to_string(), v);
    }
    pub fn machinery_error(&self, m: impl ToString) {
        self.machinery_errors.lock().unwrap().push(m.to_string());
    }
    /// keep up to 8 sample cases (first ones offered at distinct `slot`s)
    pub fn sample(&self, s: impl FnOnce() -> String) {
        let mut v = self.samples.lock().unwrap();
        if v.len() < 8 {
            v.push(s());
        }
    }
    pub fn want_sample(&self) -> bool {
        self.samples.lock().unwrap().len() < 8
    }

    // ---- violations -----------------------------------------------------------------------
    pub fn violate(&self, key: &str, detail: impl FnOnce() -> String) {
        let mut v = self.violations.lock().unwrap();
        match v.get_mut(key) {
            Some(e) => {
                e.count += 1;
                // keep the shortest (then lexicographically least) witness: deterministic under
                // parallel enumeration
                if e.count < 100_000 {
                    let d = detail();
                    if (d.len(), &d) < (e.detail.len(), &e.detail) {
                        e.detail = d;
                    }
                }
            }
            None => {
                v.insert(key.to_string(), Viol { count: 1, detail: detail() });
            }
        }
    }
    pub fn violation_map(&self) -> BTreeMap<String, Viol> {
        self.violations.lock().unwrap().clone()
    }
    pub fn n_violation_keys(&self) -> usize {
        self.violations.lock().unwrap().len()
    }

    // ---- finish ---------------------------------------------------------------------------
    /// Writes evidence, prints protocol lines, returns the process exit code.
    pub fn finish(&self, out: &mut dyn std::io::Write, replay_filter: Option<&str>) -> i32 {
        let wall = self.elapsed();
        let viols = self.violation_map();
        let findings = crate::common::findings::load();
        let mut open_seen: Vec<String> = Vec::new();
        let mut new_viols: Vec<(String, Viol)> = Vec::new();
        for (k, v) in &viols {
            match findings.match_open(self.id, k) {
                Some(f) => {
                    if !open_seen.contains(&f) {
                        open_seen.push(f);
                    }
                }
                None => new_viols.push((k.clone(), v.clone())),
            }
        }
        // vacuity / machinery
        let mut mach = self.machinery_errors.lock().unwrap().clone();
        let regimes = self.regimes.lock().unwrap().clone();
        for r in self.required_regimes.lock().unwrap().iter() {
            if regimes.get(r).copied().unwrap_or(0) == 0 {
                mach.push(format!("vacuity: required regime '{}' was never entered", r));
            }
        }
        let n_outcomes = self.outcomes.lock().unwrap().len();
        if n_outcomes < 2 {
            mach.push(format!("vacuity: only {} distinct outcome(s) observed", n_outcomes));
        }
        let states = self.states.load(Relaxed);
        let transitions = self.transitions.load(Relaxed);
        if states == 0 || transitions == 0 {
            mach.push("vacuity: no states or transitions".to_string());
        }

        // evidence
        let mut samples: Vec<serde_json::Value> =
            self.samples.lock().unwrap().iter().map(|s| serde_json::Value::String(s.clone())).collect();
        for (k, v) in viols.iter().take(40) {
            samples.push(serde_json::json!({"violation_key": k, "count": v.count, "witness": v.detail}));
        }
        if samples.is_empty() {
            samples.push(serde_json::Value::String("(no sample recorded)".into()));
        }
        let nontrivial = self.nontrivial.load(Relaxed);
        let mut cov = serde_json::Map::new();
        cov.insert("states".into(), states.into());
        cov.insert("transitions".into(), transitions.into());
        cov.insert("traces_validated_against_impl".into(), self.validated.load(Relaxed).into());
        cov.insert("evaluations".into(), self.evaluations.load(Relaxed).into());
        cov.insert("distinct_nontrivial".into(), nontrivial.into());
        cov.insert("distinct_outcomes".into(), (n_outcomes as u64).into());
        cov.insert("rule".into(), self.rule.lock().unwrap().clone().into());
        cov.insert("samples".into(), serde_json::Value::Array(samples));
        cov.insert("exhaustive".into(), (*self.exhaustive.lock().unwrap()).into());
        cov.insert("bound".into(), serde_json::json!(*self.bounds.lock().unwrap()));
        cov.insert("caps_hit".into(), serde_json::json!(*self.caps.lock().unwrap()));
        cov.insert("skipped".into(), serde_json::json!(*self.skipped.lock().unwrap()));
        cov.insert("regimes".into(), serde_json::json!(regimes));
        cov.insert("known_findings_seen".into(), serde_json::json!(open_seen));
        cov.insert("violation_keys".into(), serde_json::json!(viols.keys().collect::<Vec<_>>()));
        cov.insert("build".into(), crate::common::findings::build_id().into());
        for (k, v) in self.extra.lock().unwrap().iter() {
            cov.insert(k.clone(), v.clone());
        }
        let ev = serde_json::json!({
            "property_id": self.id,
            "tier": self.tier.name(),
            "seed": self.seed,
            "level": "model_checking",
            "coverage": serde_json::Value::Object(cov),
            "assumptions": *self.assumptions.lock().unwrap(),
            "wall_s": (wall * 1000.0).round() / 1000.0,
            "violations": new_viols.len(),
        });
        if replay_filter.is_none() {
            let edir = std::env::var("VERIF_EVIDENCE_DIR").unwrap_or_else(|_| "/verif/evidence".to_string());
            let path = format!("{}/{}.json", edir, self.id);
            let _ = std::fs::create_dir_all(&edir);
            if let Err(e) = std::fs::write(&path, serde_json::to_string_pretty(&ev).unwrap() + "\n") {
                mach.push(format!("cannot write evidence {}: {}", path, e));
            }
        }

        let _ = writeln!(
            out,
            "MC: property={} tier={} states={} transitions={} validated={} outcomes={} nontrivial={} violation_keys={} wall={:.1}s exhaustive={}",
            self.id,
            self.tier.name(),
            states,
            transitions,
            self.validated.load(Relaxed),
            n_outcomes,
            nontrivial,
            viols.len(),
            wall,
            *self.exhaustive.lock().unwrap()
        );
        for c in self.caps.lock().unwrap().iter() {
            let _ = writeln!(out, "MC: cap hit: {}", c);
        }
        // known findings: one line per listed open finding of this property
        for f in findings.open_for(self.id) {
            let seen = open_seen.contains(&f.key);
            let _ = writeln!(
                out,
                "KNOWN-FINDING: property={} {} [key={}{}]",
                self.id,
                f.what,
                f.key,
                if seen { "" } else { "; not exercised in this run" }
            );
        }
        if let Some(want) = replay_filter {
            // replay mode: report whether the wanted key reproduces
            return match viols.get(want) {
                Some(v) => {
                    let _ = writeln!(out, "MC: replay reproduced key={} count={} witness={}", want, v.count, v.detail);
                    let _ = writeln!(out, "VIOLATION property={} replay=(replayed) key={}", self.id, want);
                    1
                }
                None => {
                    let _ = writeln!(out, "MC: replay did NOT reproduce key={}", want);
                    0
                }
            };
        }
        if !mach.is_empty() {
            for m in &mach {
                let _ = writeln!(out, "MC: MACHINERY-ERROR property={} {}", self.id, m);
            }
        }
        let mut code = 0;
        if !new_viols.is_empty() {
            let rdir = std::env::var("VERIF_REPLAY_DIR").unwrap_or_else(|_| "/verif/replays".to_string());
            let dir = format!("{}/{}", rdir, self.id);
            let _ = std::fs::create_dir_all(&dir);
            for (k, v) in &new_viols {
                let fname: String = k.chars().map(|c| if c.is_ascii_alphanumeric() || c == '-' || c == '.' { c } else { '_' }).collect();
                let path = format!("{}/{}.json", dir, fname);
                let rp = serde_json::json!({"property": self.id, "tier": self.tier.name(), "key": k, "count": v.count, "witness": v.detail,
                    "replay_cmd": format!("/verif/check {} {} --replay {}", self.id, self.tier.name(), path)});
                let _ = std::fs::write(&path, serde_json::to_string_pretty(&rp).unwrap() + "\n");
                let _ = writeln!(out, "VIOLATION property={} replay={} key={} count={} witness={}", self.id, path, k, v.count, truncate(&v.detail, 400));
            }
            code = 1;
        }
        if code == 0 && !mach.is_empty() {
            code = 2;
        }
        code
    }
}

pub fn truncate(s: &str, n: usize) -> String {
    if s.len() <= n {
        s.to_string()
    } else {
        let mut e = n;
        while !s.is_char_boundary(e) {
            e -= 1;
        }
        format!("{}…", &s[..e])
    }
}
