//! E2: explicit-state breadth-first search over operation sequences on real objects.
//!
//! `step` performs the real call and the model call, compares them and returns the next
//! canonical state — or `None` to prune (divergences are reported by the closure through the
//! `Run`, so the search continues over the conforming part of the space and collects *all*
//! divergences, each with its BFS-shortest action path).
//!
//! Two drivers over the same `Seq` description:
//!  * `explore`: level-synchronous BFS (rayon-parallel expansion, sequential in-order
//!    de-duplication → deterministic counts and true shortest paths) with depth / state / time
//!    caps that are honoured exactly and reported;
//!  * `explore_stateright`: the same model under stateright 0.31's BFS checker, used to
//!    cross-check unique-state counts on searches that run to closure.
use rayon::prelude::*;
use stateright::{Checker, Model, Property};
use std::collections::HashSet;
use std::fmt::Debug;
use std::hash::{Hash, Hasher};
use std::sync::Arc;
use std::time::Instant;

type ActsFn<S, A> = dyn Fn(&S, &mut Vec<A>) + Send + Sync;
type StepFn<S, A> = dyn Fn(&S, &A, &dyn Fn() -> Vec<A>) -> Option<S> + Send + Sync;

type VisitFn<S, A> = dyn Fn(&S, &dyn Fn() -> Vec<A>) + Send + Sync;

pub struct Seq<S, A> {
    pub inits: Vec<S>,
    pub acts: Arc<ActsFn<S, A>>,
    pub step: Arc<StepFn<S, A>>,
    /// called exactly once for every distinct state (state invariant)
    pub visit: Option<Arc<VisitFn<S, A>>>,
}

#[derive(Debug, Clone, Default)]
pub struct SeqStats {
    pub unique_states: usize,
    pub generated: usize,
    pub max_depth: usize,
    /// the frontier was empty: the reachable set was exhausted
    pub closed: bool,
    pub cap_hit: Option<String>,
    pub per_level: Vec<usize>,
}

fn fp<S: Hash>(s: &S) -> u64 {
    let mut h = std::collections::hash_map::DefaultHasher::new();
    s.hash(&mut h);
    h.finish()
}

pub fn explore<S, A>(m: &Seq<S, A>, max_depth: Option<usize>, max_states: Option<usize>, timeout_s: Option<u64>) -> SeqStats
where
    S: Clone + Hash + PartialEq + Debug + Send + Sync + 'static,
    A: Clone + PartialEq + Debug + Send + Sync + 'static,
{
    let t0 = Instant::now();
    // arena of (parent index, action) for path reconstruction
    let mut arena: Vec<(u32, Option<A>)> = Vec::new();
    let mut seen: HashSet<u64> = HashSet::new();
    let mut frontier: Vec<(u32, S)> = Vec::new();
    let mut st = SeqStats::default();
    for s in &m.inits {
        if seen.insert(fp(s)) {
            arena.push((u32::MAX, None));
            frontier.push(((arena.len() - 1) as u32, s.clone()));
        }
    }
    st.per_level.push(frontier.len());
    if let Some(v) = &m.visit {
        frontier.par_iter().for_each(|(_, s)| v(s, &|| Vec::new()));
    }
    let mut depth = 0usize;
    loop {
        if frontier.is_empty() {
            st.closed = true;
            break;
        }
        if let Some(d) = max_depth {
            if depth >= d {
                st.cap_hit = Some(format!("depth bound {} (frontier of {} states not expanded)", d, frontier.len()));
                break;
            }
        }
        if let Some(n) = max_states {
            if seen.len() >= n {
                st.cap_hit = Some(format!("state cap {} reached at depth {}", n, depth));
                break;
            }
        }
        if let Some(t) = timeout_s {
            if t0.elapsed().as_secs() >= t {
                st.cap_hit = Some(format!("time cap {}s reached at depth {}", t, depth));
                break;
            }
        }
        // expand chunk by chunk: parallel expansion (successors already in `seen` are dropped at
        // once), then sequential in-order insertion → deterministic parents and bounded memory
        let mut next: Vec<(u32, S)> = Vec::new();
        let mut start = 0usize;
        while start < frontier.len() {
            let end = (start + 8192).min(frontier.len());
            let arena_ref = &arena;
            let seen_ref = &seen;
            let path_of = |mut idx: u32| -> Vec<A> {
                let mut p = Vec::new();
                while idx != u32::MAX {
                    let (par, a) = &arena_ref[idx as usize];
                    if let Some(a) = a {
                        p.push(a.clone());
                    }
                    idx = *par;
                }
                p.reverse();
                p
            };
            let expanded: Vec<(usize, Vec<(u64, u32, A, S)>)> = frontier[start..end]
                .par_iter()
                .map(|(idx, s)| {
                    let mut acts = Vec::new();
                    (m.acts)(s, &mut acts);
                    let mut out = Vec::new();
                    let mut gen = 0usize;
                    for a in acts {
                        let pf = || path_of(*idx);
                        if let Some(ns) = (m.step)(s, &a, &pf) {
                            gen += 1;
                            let f = fp(&ns);
                            if !seen_ref.contains(&f) {
                                out.push((f, *idx, a, ns));
                            }
                        }
                    }
                    (gen, out)
                })
                .collect();
            for (gen, v) in expanded {
                st.generated += gen;
                for (f, par, a, ns) in v {
                    if seen.insert(f) {
                        arena.push((par, Some(a)));
                        next.push(((arena.len() - 1) as u32, ns));
                    }
                }
            }
            start = end;
        }
        if let Some(v) = &m.visit {
            let arena_ref = &arena;
            next.par_iter().for_each(|(idx, s)| {
                let pf = || {
                    let mut p = Vec::new();
                    let mut i = *idx;
                    while i != u32::MAX {
                        let (par, a) = &arena_ref[i as usize];
                        if let Some(a) = a {
                            p.push(a.clone());
                        }
                        i = *par;
                    }
                    p.reverse();
                    p
                };
                v(s, &pf)
            });
        }
        depth += 1;
        if !next.is_empty() {
            st.max_depth = depth;
            st.per_level.push(next.len());
        }
        frontier = next;
    }
    st.unique_states = seen.len();
    st
}

// ---- the same description under stateright -----------------------------------------------------

#[derive(Clone, Debug)]
pub struct Node<S>(pub S);
impl<S: Hash> Hash for Node<S> {
    fn hash<H: Hasher>(&self, h: &mut H) {
        self.0.hash(h)
    }
}
impl<S: PartialEq> PartialEq for Node<S> {
    fn eq(&self, o: &Self) -> bool {
        self.0 == o.0
    }
}
struct SrModel<S, A> {
    inits: Vec<S>,
    acts: Arc<ActsFn<S, A>>,
    step: Arc<StepFn<S, A>>,
}
impl<S, A> Model for SrModel<S, A>
where
    S: Clone + Hash + PartialEq + Debug + Send + Sync + 'static,
    A: Clone + PartialEq + Debug + Send + Sync + 'static,
{
    type State = Node<S>;
    type Action = A;
    fn init_states(&self) -> Vec<Self::State> {
        self.inits.iter().cloned().map(Node).collect()
    }
    fn actions(&self, state: &Self::State, actions: &mut Vec<A>) {
        (self.acts)(&state.0, actions)
    }
    fn next_state(&self, last: &Self::State, action: A) -> Option<Self::State> {
        (self.step)(&last.0, &action, &|| Vec::new()).map(Node)
    }
    fn properties(&self) -> Vec<Property<Self>> {
        // one never-violated property keeps stateright searching until the space is exhausted
        vec![Property::always("search to closure", |_, _| true)]
    }
}

/// unique-state count of the closure under stateright's BFS checker
pub fn explore_stateright<S, A>(m: &Seq<S, A>, threads: usize) -> usize
where
    S: Clone + Hash + PartialEq + Debug + Send + Sync + 'static,
    A: Clone + PartialEq + Debug + Send + Sync + 'static,
{
    let sm = SrModel { inits: m.inits.clone(), acts: Arc::clone(&m.acts), step: Arc::clone(&m.step) };
    let c = sm.checker().threads(threads).spawn_bfs().join();
    c.unique_state_count()
}
