//! mc — model-checking harness for the semantic properties of `compute` (see /verif/DESIGN.md).
mod common;
mod props;

use common::run::{Run, Tier};
use std::io::Write;

#[global_allocator]
static ALLOC: common::guard::PoisonAlloc = common::guard::PoisonAlloc;

fn usage() -> ! {
    eprintln!("usage: mc <ID> quick|thorough [--replay <path>]");
    std::process::exit(2)
}

fn main() {
    let args: Vec<String> = std::env::args().collect();
    if args.len() < 3 {
        usage();
    }
    let id = args[1].to_uppercase();
    let tier = match args[2].as_str() {
        "quick" => Tier::Quick,
        "thorough" => Tier::Thorough,
        _ => usage(),
    };
    let mut replay_key: Option<String> = None;
    let mut replay_tier = tier;
    if args.len() >= 5 && args[3] == "--replay" {
        let s = std::fs::read_to_string(&args[4]).unwrap_or_else(|e| {
            eprintln!("cannot read replay {}: {}", args[4], e);
            std::process::exit(2)
        });
        let v: serde_json::Value = serde_json::from_str(&s).unwrap_or_else(|e| {
            eprintln!("bad replay file: {}", e);
            std::process::exit(2)
        });
        replay_key = v.get("key").and_then(|k| k.as_str()).map(|s| s.to_string());
        if v.get("tier").and_then(|k| k.as_str()) == Some("thorough") {
            replay_tier = Tier::Thorough;
        }
        if replay_key.is_none() {
            eprintln!("replay file has no key");
            std::process::exit(2);
        }
    }
    let seed: u64 = std::env::var("VERIF_SEED").ok().and_then(|s| s.parse::<i64>().ok()).map(|x| x as u64).unwrap_or(0);
    let threads: usize = std::env::var("VERIF_THREADS").ok().and_then(|s| s.parse().ok()).unwrap_or(16);
    rayon::ThreadPoolBuilder::new().num_threads(threads).stack_size(64 << 20).build_global().ok();

    let f = match props::lookup(&id) {
        Some(f) => f,
        None => {
            eprintln!("unknown property {}", id);
            std::process::exit(2)
        }
    };
    let sid: &'static str = Box::leak(id.clone().into_boxed_str());
    // resource caps of the machinery itself (an exploration that runs away on changed code must end
    // as a machinery exit, never as a verdict and never by exhausting the machine): address space
    // 40 GiB (VERIF_MEM_GB), wall clock 20 min quick / 6 h thorough (VERIF_WALL_S)
    let mem_gb: u64 = std::env::var("VERIF_MEM_GB").ok().and_then(|s| s.parse().ok()).unwrap_or(40);
    unsafe {
        let lim = libc::rlimit { rlim_cur: mem_gb << 30, rlim_max: mem_gb << 30 };
        libc::setrlimit(libc::RLIMIT_AS, &lim);
    }
    let wall_s: u64 = std::env::var("VERIF_WALL_S").ok().and_then(|s| s.parse().ok()).unwrap_or(match tier {
        Tier::Quick => 1200,
        Tier::Thorough => 6 * 3600,
    });
    let mut out = common::guard::isolate_io();
    {
        let sid2 = sid;
        std::thread::spawn(move || {
            std::thread::sleep(std::time::Duration::from_secs(wall_s));
            let msg = format!("MC: MACHINERY-ERROR property={} wall-clock cap of {} s reached; no verdict\n", sid2, wall_s);
            unsafe {
                libc::write(common::guard::REAL_STDOUT.load(std::sync::atomic::Ordering::SeqCst), msg.as_ptr() as *const libc::c_void, msg.len());
                libc::_exit(2);
            }
        });
    }

    let code = if let Some(key) = replay_key {
        // replay: run the deterministic enumeration twice; both runs must agree
        let r1 = Run::new(sid, replay_tier, seed);
        f(&r1);
        let r2 = Run::new(sid, replay_tier, seed);
        f(&r2);
        let (m1, m2) = (r1.violation_map(), r2.violation_map());
        let same = m1.get(&key).map(|v| (v.count, v.detail.clone())) == m2.get(&key).map(|v| (v.count, v.detail.clone()));
        if !same {
            let _ = writeln!(out, "MC: MACHINERY-ERROR property={} replay diverged between two executions", sid);
            2
        } else {
            r1.finish(&mut *out, Some(&key))
        }
    } else {
        let r = Run::new(sid, tier, seed);
        // A panic that escapes the per-call guards: if it was raised inside the subject (source location
        // under /repo), the subject failed on an input of the property's quantifier - a finding with
        // the panic message as witness; a panic of the harness itself is a machinery failure.
        if std::panic::catch_unwind(std::panic::AssertUnwindSafe(|| f(&r))).is_err() {
            let msg = common::guard::LAST_PANIC_GLOBAL.lock().map(|g| g.clone()).unwrap_or_default();
            if msg.contains("/repo/src/") || msg.contains("panicked at src/") {
                r.violate("subject-panic/unguarded", || format!("the subject panicked outside a guarded call: {}", msg.replace('\n', " | ")));
            } else {
                r.machinery_error(format!("the harness panicked: {}", msg.replace('\n', " | ")));
            }
        }
        r.finish(&mut *out, None)
    };
    let _ = out.flush();
    std::process::exit(code);
}
