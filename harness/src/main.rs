//! mc — model-checking harness for the semantic properties of `compute` (see /verif/DESIGN.md).
mod common;
mod props;

use common::run::{Run, Tier};
use std::io::Write;

#[global_allocator]
static ALLOC: common::guard::PoisonAlloc = common::guard::PoisonAlloc;

fn usage() -> ! {
    eprintln!("usage: mc <ID> quick|thorough [--replay <path>]");
    std::process::exit(2)
}

fn main() {
    let args: Vec<String> = std::env::args().collect();
    if args.len() < 3 {
        usage();
    }
    let id = args[1].to_uppercase();
    let tier = match args[2].as_str() {
        "quick" => Tier::Quick,
        "thorough" => Tier::Thorough,
        _ => usage(),
    };
    let mut replay_key: Option<String> = None;
    let mut replay_tier = tier;
    if args.len() >= 5 && args[3] == "--replay" {
        let s = std::fs::read_to_string(&args[4]).unwrap_or_else(|e| {
            eprintln!("cannot read replay {}: {}", args[4], e);
            std::process::exit(2)
        });
        let v: serde_json::Value = serde_json::from_str(&s).unwrap_or_else(|e| {
            eprintln!("bad replay file: {}", e);
            std::process::exit(2)
        });
        replay_key = v.get("key").and_then(|k| k.as_str()).map(|s| s.to_string());
        if v.get("tier").and_then(|k| k.as_str()) == Some("thorough") {
            replay_tier = Tier::Thorough;
        }
        if replay_key.is_none() {
            eprintln!("replay file has no key");
            std::process::exit(2);
        }
    }
    let seed: u64 = std::env::var("VERIF_SEED").ok().and_then(|s| s.parse::<i64>().ok()).map(|x| x as u64).unwrap_or(0);
    let threads: usize = std::env::var("VERIF_THREADS").ok().and_then(|s| s.parse().ok()).unwrap_or(16);
    rayon::ThreadPoolBuilder::new().num_threads(threads).stack_size(64 << 20).build_global().ok();

    let f = match props::lookup(&id) {
        Some(f) => f,
        None => {
            eprintln!("unknown property {}", id);
            std::process::exit(2)
        }
    };
    let sid: &'static str = Box::leak(id.clone().into_boxed_str());
    let mut out = common::guard::isolate_io();

    let code = if let Some(key) = replay_key {
        // replay: run the deterministic enumeration twice; both runs must agree
        let r1 = Run::new(sid, replay_tier, seed);
        f(&r1);
        let r2 = Run::new(sid, replay_tier, seed);
        f(&r2);
        let (m1, m2) = (r1.violation_map(), r2.violation_map());
        let same = m1.get(&key).map(|v| (v.count, v.detail.clone())) == m2.get(&key).map(|v| (v.count, v.detail.clone()));
        if !same {
            let _ = writeln!(out, "MC: MACHINERY-ERROR property={} replay diverged between two executions", sid);
            2
        } else {
            r1.finish(&mut *out, Some(&key))
        }
    } else {
        let r = Run::new(sid, tier, seed);
        f(&r);
        r.finish(&mut *out, None)
    };
    let _ = out.flush();
    std::process::exit(code);
}
