//! C01 — linear systems are solved to working precision through every entry point.
//! Engine E3: every nonsingular small matrix over an alphabet containing a 2^-30 letter, and
//! structured families of every order with all single-entry deviations, row transpositions,
//! diagonal sign flips and whole-matrix scalings (crossing the solver's routing predicate in
//! every direction) × all six entry points; residuals in double-double.
use super::lin::*;
use crate::common::enumerate::par_words;
use crate::common::{guard, Run};
use compute::linalg::{self, Matrix, Solve, Vector};
use rayon::prelude::*;

const ENTRY: [&str; 6] = ["solve", "solve_sys", "invert_matrix", "Matrix.solve(Vector)", "Matrix.solve(Matrix)", "Matrix.inv"];

fn rhs(n: usize, k: usize) -> Vec<f64> {
    match k {
        0 => (0..n).map(|i| (i + 1) as f64).collect(),
        1 => (0..n).map(|i| if i % 2 == 0 { 1.0 } else { -1.0 }).collect(),
        2 => (0..n).map(|i| if i == n / 2 { 1.0 } else { 0.0 }).collect(),
        3 => (0..n).map(|i| 0.5 * (i as f64) - 1.0).collect(),
        4 => (0..n).map(|i| if i == 0 { 1.0 } else { 0.0 }).collect(),
        _ => (0..n).map(|i| ((i * 7) % 5) as f64 - 2.0).collect(),
    }
}

fn routing_class(a: &[f64], n: usize) -> &'static str {
    let sym = (0..n).all(|i| (0..n).all(|j| a[i * n + j] == a[j * n + i]));
    let posdiag = (0..n).all(|i| a[i * n + i] > 0.0);
    let near_sym = (0..n).all(|i| (0..n).all(|j| (a[i * n + j] - a[j * n + i]).abs() <= f64::EPSILON));
    if sym && posdiag {
        "symmetric-positive-diagonal"
    } else if near_sym && posdiag {
        "tiny-asymmetric-positive-diagonal"
    } else if sym {
        "symmetric-other"
    } else {
        "general"
    }
}

fn judge(run: &Run, entry: usize, class: &str, a: &[f64], n: usize, x: Result<Vec<f64>, String>, b: &[f64], m: usize, tag: &str) {
    run.tr();
    run.ok();
    let site = ENTRY[entry];
    let desc = |extra: String| format!("{} [{} / {}] A({}x{})={:?} B({}x{})={:?}: {}", site, tag, class, n, n, a, n, m, b, extra);
    match x {
        Err(p) => {
            run.outcome(&(site, class, "panic"));
            run.violate(&format!("{}/panic/{}", site, class), || desc(format!("panicked: {}", p)))
        }
        Ok(x) => {
            if x.len() != n * m {
                run.violate(&format!("{}/wrong-size", site), || desc(format!("returned {} values", x.len())));
            } else if x.iter().any(|v| !v.is_finite()) {
                run.outcome(&(site, class, "non-finite"));
                run.violate(&format!("{}/non-finite/{}", site, class), || desc(format!("X = {:?}", x)));
            } else {
                let be = backward_error(a, n, &x, b, m);
                if !(be <= solve_bound(n)) {
                    run.outcome(&(site, class, "backward-error"));
                    run.violate(&format!("{}/backward-error/{}", site, class), || desc(format!("X = {:?}, backward error {:e} > {:e}", x, be, solve_bound(n))));
                } else {
                    run.outcome(&(site, class, "ok", n.min(9)));
                    run.regime(&format!("route:{}", class));
                }
            }
        }
    }
}

/// all six entry points on one nonsingular matrix
fn suite(run: &Run, a: &[f64], n: usize, tag: &str) {
    // the property's range is cond ≤ 1e10 (reference κ∞ from a double-double inverse)
    match cond_inf(a, n) {
        Some(k) if k <= 1e10 => {
            run.regime(if k > 1e6 { "cond:1e6..1e10" } else if k > 1e3 { "cond:1e3..1e6" } else { "cond:<1e3" });
        }
        _ => {
            run.skip("condition number above 1e10");
            return;
        }
    }
    run.case();
    let class = routing_class(a, n);
    let mat = Matrix::new(a.to_vec(), n as i32, n as i32);
    // single right-hand sides
    for k in 0..2 {
        let b = rhs(n, k);
        judge(run, 0, class, a, n, guard(|| linalg::solve(a, &b)), &b, 1, tag);
        judge(run, 3, class, a, n, guard(|| mat.solve(&Vector::new(b.clone())).v.clone()), &b, 1, tag);
    }
    // several columns (row-major n×m, columns distinct so that a transposed layout is visible)
    for m in [1usize, 2, 3, 6] {
        if m == 6 && n % 3 != 0 {
            continue;
        }
        let mut bm = vec![0.0; n * m];
        for c in 0..m {
            let col = rhs(n, c);
            for i in 0..n {
                bm[i * m + c] = col[i];
            }
        }
        judge(run, 1, class, a, n, guard(|| linalg::solve_sys(a, &bm)), &bm, m, tag);
        let bmat = Matrix::new(bm.clone(), n as i32, m as i32);
        judge(run, 4, class, a, n, guard(|| {
            let r: Matrix = mat.solve(&bmat);
            assert_eq!(r.shape(), [n, m], "result shape");
            r.data.v.clone()
        }), &bm, m, tag);
    }
    // right-hand sides of very small and very large magnitude (the bound is relative to ‖B‖)
    for (si, sc) in [2f64.powi(-70), 1e-200, 1e150].into_iter().enumerate() {
        let b: Vec<f64> = rhs(n, si % 2).iter().map(|v| v * sc).collect();
        let tg = format!("{}, B*{:e}", tag, sc);
        judge(run, 0, class, a, n, guard(|| linalg::solve(a, &b)), &b, 1, &tg);
        judge(run, 3, class, a, n, guard(|| mat.solve(&Vector::new(b.clone())).v.clone()), &b, 1, &tg);
        let m = 2;
        let mut bm = vec![0.0; n * m];
        for c in 0..m {
            let col = rhs(n, c + si);
            for i in 0..n {
                bm[i * m + c] = col[i] * sc;
            }
        }
        judge(run, 1, class, a, n, guard(|| linalg::solve_sys(a, &bm)), &bm, m, &tg);
        let bmat = Matrix::new(bm.clone(), n as i32, m as i32);
        judge(run, 4, class, a, n, guard(|| mat.solve(&bmat).data.v.clone()), &bm, m, &tg);
    }
    run.regime("rhs:scaled");
    // inverses: A·X = I column by column
    let mut id = vec![0.0; n * n];
    for i in 0..n {
        id[i * n + i] = 1.0;
    }
    judge(run, 2, class, a, n, guard(|| linalg::invert_matrix(a)), &id, n, tag);
    judge(run, 5, class, a, n, guard(|| {
        let r = mat.inv();
        assert_eq!(r.shape(), [n, n], "result shape");
        r.data.v.clone()
    }), &id, n, tag);
    // routing independence: routed slice solver vs the always-LU Matrix solver
    let b = rhs(n, 0);
    if let (Ok(x1), Ok(x2), Ok(inv)) = (guard(|| linalg::solve(a, &b)), guard(|| mat.solve(&Vector::new(b.clone())).v.clone()), guard(|| mat.inv().data.v.clone())) {
        if x1.iter().chain(x2.iter()).chain(inv.iter()).all(|v| v.is_finite()) {
            let kappa = inf_norm(a, n, n) * inf_norm(&inv, n, n);
            let bound = 4.0 * solve_bound(n) * kappa;
            if bound < 0.05 {
                run.ok();
                let xn = inf_norm(&x2, n, 1).max(1e-300);
                let diff = x1.iter().zip(&x2).map(|(p, q)| (p - q).abs()).fold(0.0, f64::max);
                if diff > bound * xn {
                    run.violate(&format!("routing-dependence/{}", class), || format!("[{}] A({}x{})={:?}: solve -> {:?} but Matrix.solve (LU) -> {:?} (cond ~{:e})", tag, n, n, a, x1, x2, kappa));
                }
            }
        }
    }
}

pub fn run(run: &Run) {
    run.rule("(a) every nonsingular n×n matrix over {0,±1,±2,2^-30} for n≤2 and over {0,±1,2^-30} for n=3 (thorough: all six letters for n=3, {0,±1} for n=4); (b) families minmat, pascal, tridiag, ddom, P·D·T, symmetric-indefinite, graded for every order 1..=20 (32 thorough) × every single-entry deviation × row transpositions × single diagonal sign flips × scalings {2^-60,1,2^40}; (c) deterministic pseudo-random dense and SPD (AᵀA+I) matrices of every order 5..=32; six entry points, (d) SPD matrices with one triangle scaled by 1+δ, δ from 2^-52 to 1e-3; (e) nearly dependent rows at order 2, 3; (f) sequences of different tiny-scale systems on one thread; six entry points, right-hand sides with 1,2,3,6 columns and of scale 2^-70, 1e-200, 1e150; singular cases (exact determinant 0 mod 2^61-1) are skipped; non-trivial = routed to Cholesky, needs pivoting, or scaled");
    let t30 = 2f64.powi(-30);
    // (a) small matrices
    let l2: Vec<f64> = vec![0.0, 1.0, -1.0, 2.0, -2.0, t30];
    let l3: Vec<f64> = if run.thorough() { l2.clone() } else { vec![0.0, 1.0, -1.0, t30] };
    for (n, letters) in [(1usize, &l2), (2, &l2), (3, &l3)] {
        par_words(letters.len(), n * n, |w| {
            let a: Vec<f64> = w.iter().map(|&i| letters[i]).collect();
            match nonsingular(&a, n) {
                Some(true) => {
                    suite(run, &a, n, "small");
                    if a.contains(&t30) {
                        run.nontrivial(1);
                    }
                }
                Some(false) => run.skip("singular"),
                None => run.skip("oracle overflow"),
            }
        });
    }
    if run.thorough() {
        par_words(3, 16, |w| {
            let a: Vec<f64> = w.iter().map(|&i| [0.0, 1.0, -1.0][i]).collect();
            if nonsingular(&a, 4) == Some(true) {
                suite(run, &a, 4, "small");
            } else {
                run.skip("singular");
            }
        });
    }
    run.bound("small matrices", format!("n≤2 over 6 letters, n=3 over {} letters{}", l3.len(), if run.thorough() { ", n=4 over {0,±1}" } else { "" }));
    run.sample(|| "small A=[[1,2],[2,1]] (symmetric, positive diagonal, indefinite): all six entry points, RHS with 1..3 columns".to_string());
    // (b) families
    let nmax = run.tier.pick(20usize, 32usize);
    run.bound("family orders", format!("1..={}", nmax));
    (1..=nmax).into_par_iter().for_each(|n| {
        let mut fams: Vec<(&str, Vec<f64>)> = vec![
            ("minmat", minmat(n)),
            ("tridiag(-1,4,-1)", tridiag(n, -1.0, 4.0, -1.0)),
            ("ddom", ddom(n)),
            ("pdt0", pdt(n, 0).0),
            ("pdt2", pdt(n, 2).0),
            ("graded8", graded(n, 8)),
            ("graded16", graded(n, 16)),
        ];
        if n >= 2 {
            fams.push(("sym_indef", sym_indef(n)));
        }
        if n <= 12 {
            fams.push(("pascal", pascal(n)));
        }
        for (name, base) in &fams {
            let try_suite = |a: &[f64], tag: &str| match nonsingular(a, n) {
                Some(true) => {
                    suite(run, a, n, tag);
                    run.nontrivial(1);
                }
                Some(false) => run.skip("singular"),
                None => run.skip("oracle overflow"),
            };
            try_suite(base, name);
            // whole-matrix scalings: the symmetry test of the routing predicate is absolute
            for sc in [2f64.powi(-60), 2f64.powi(40)] {
                let a: Vec<f64> = base.iter().map(|v| v * sc).collect();
                try_suite(&a, &format!("{}*{:e}", name, sc));
            }
            let stride = if n > 12 { 3 } else { 1 };
            // single-entry deviations
            for i in 0..n {
                for j in 0..n {
                    if (i * n + j) % stride != 0 && i != j {
                        continue;
                    }
                    for delta in [1.0, -3.0] {
                        let mut a = base.clone();
                        a[i * n + j] += delta;
                        try_suite(&a, &format!("{}+entry-deviation", name));
                        if delta == 1.0 && (i + j) % 2 == 0 {
                            let t: Vec<f64> = a.iter().map(|v| v * 2f64.powi(-60)).collect();
                            try_suite(&t, &format!("{}+entry-deviation*2^-60", name));
                        }
                    }
                    // symmetric deviation keeps the matrix on the Cholesky route
                    if j < i {
                        let mut a = base.clone();
                        a[i * n + j] += 2.0;
                        a[j * n + i] += 2.0;
                        try_suite(&a, &format!("{}+symmetric-deviation", name));
                    }
                }
            }
            // every row transposition
            for i in 0..n {
                for j in 0..i {
                    if (i + j) % stride != 0 {
                        continue;
                    }
                    let mut a = base.clone();
                    for k in 0..n {
                        a.swap(i * n + k, j * n + k);
                    }
                    try_suite(&a, &format!("{}+row-transposition", name));
                }
            }
            // every single diagonal sign flip
            for i in 0..n {
                let mut a = base.clone();
                a[i * n + i] = -a[i * n + i];
                try_suite(&a, &format!("{}+diagonal-sign-flip", name));
            }
        }
    });
    // (c) pseudo-random dense matrices (entries k/8), every order 5..=32, general and SPD (AᵀA + I)
    let per = run.tier.pick(6u64, 40u64);
    run.bound("random dense", format!("{} deterministic pseudo-random matrices per order 5..=32, general and A^T A + I", per));
    (5..=32usize).into_par_iter().for_each(|n| {
        for seed in 0..per {
            let a = lcg_dense(n, n, seed * 131 + n as u64);
            match nonsingular(&a, n) {
                Some(true) => {
                    suite(run, &a, n, "random-dense");
                    run.nontrivial(1);
                }
                _ => run.skip("singular"),
            }
            if seed % 2 == 0 {
                let g = gram_spd(&a, n);
                suite(run, &g, n, "random-spd");
            }
        }
    });
    // (d) nearly symmetric positive definite matrices: the upper triangle of an SPD matrix times
    // (1+δ). Whatever route is taken, the system that is solved must be the one that was given.
    let deltas = [2f64.powi(-52), 2f64.powi(-50), 1e-14, 1e-12, 1e-10, 1e-8, 1e-6, 1e-3];
    run.bound("nearly symmetric", format!("SPD bases (tridiagonal, min(i,j), pseudo-random Gram) of every order 2..={} with the upper triangle scaled by 1+δ, δ ∈ {:?}", nmax, deltas));
    (2..=nmax).into_par_iter().for_each(|n| {
        let bases: Vec<(&str, Vec<f64>)> = vec![
            ("tridiag(-1,4,-1)", tridiag(n, -1.0, 4.0, -1.0)),
            ("minmat", minmat(n)),
            ("gram", gram_spd(&lcg_dense(n, n, 977 + n as u64), n)),
        ];
        for (name, base) in &bases {
            for d in deltas {
                for lower in [false, true] {
                    let mut a = base.clone();
                    for i in 0..n {
                        for j in 0..n {
                            if (j > i) != lower && i != j {
                                a[i * n + j] *= 1.0 + d;
                            }
                        }
                    }
                    suite(run, &a, n, &format!("{}, {} triangle*(1+{:e})", name, if lower { "lower" } else { "upper" }, d));
                    run.nontrivial(1);
                }
            }
        }
    });
    // (e) nearly dependent rows (cond 1e4..1e10 at order 2 and 3: closed-form shortcuts such as Cramer's
    // rule are not backward stable there)
    {
        let mut near: Vec<(usize, Vec<f64>)> = vec![(2, vec![1.2969, 0.8648, 0.2161, 0.1441])];
        for d in [1e-4, 1e-6, 1e-8, 3e-9] {
            near.push((2, vec![1.0, 1.0, 1.0, 1.0 + d]));
            near.push((2, vec![3.0, 2.0, 3.0 + 3.0 * d, 2.0]));
            near.push((2, vec![1.0, 2.0, 0.5 + d, 1.0]));
            near.push((2, vec![-7.0, 5.0, 1.4, -(1.0 + d)]));
            near.push((2, vec![1e3, 1e3 - 1.0, 1e3 + 1.0, 1e3 + d]));
            near.push((3, vec![1.0, 2.0, 3.0, 4.0, 5.0, 6.0, 5.0, 7.0, 9.0 + d]));
            near.push((3, vec![2.0, -1.0, 0.5, 1.0, 1.0, 1.0, 3.0, 0.0, 1.5 + d]));
        }
        run.bound("nearly dependent rows", format!("{} matrices of order 2 and 3 with cond 1e4..1e10, each also transposed and scaled by 2^-20", near.len()));
        for (n, a) in &near {
            let n = *n;
            suite(run, a, n, "nearly-dependent-rows");
            let t: Vec<f64> = (0..n * n).map(|k| a[(k % n) * n + k / n]).collect();
            suite(run, &t, n, "nearly-dependent-columns");
            let sc: Vec<f64> = a.iter().map(|v| v * 2f64.powi(-20)).collect();
            suite(run, &sc, n, "nearly-dependent-rows*2^-20");
            run.nontrivial(3);
        }
    }
    // (f) call sequences on one thread: different matrices of the same order one after the other, all of
    // them tiny (entries below machine epsilon, so that they are "equal" under an absolute tolerance),
    // or differing in a single interior entry - a solver must not remember the previous system
    {
        for n in 2..=6usize {
            let fam: Vec<Vec<f64>> = vec![minmat(n), tridiag(n, -1.0, 4.0, -1.0), ddom(n), pdt(n, 0).0, lcg_dense(n, n, 4242 + n as u64), pdt(n, 2).0];
            for sc in [2f64.powi(-60), 1e-17, 1e-100, 1.0] {
                for a in &fam {
                    let b: Vec<f64> = a.iter().map(|v| v * sc).collect();
                    if cond_inf(&b, n).map(|k| k <= 1e10).unwrap_or(false) {
                        suite(run, &b, n, &format!("sequence of systems of scale {:e}", sc));
                        run.regime("call-sequence");
                    }
                }
                // single interior entry changed between consecutive calls
                let mut c = fam[2].iter().map(|v| v * sc).collect::<Vec<f64>>();
                for k in 0..3 {
                    let idx = (n * n) / 2;
                    c[idx] += sc * (k as f64 + 1.0);
                    suite(run, &c, n, "sequence of systems differing in one entry");
                }
            }
        }
    }
    for r in ["call-sequence", "rhs:scaled", "route:symmetric-positive-diagonal", "route:general", "route:tiny-asymmetric-positive-diagonal", "route:symmetric-other"] {
        run.require_regime(r);
    }
    run.assume("normwise backward error ‖AX−B‖∞/(‖A‖∞‖X‖∞+‖B‖∞) ≤ 64n²u with the residual in double-double; the inverse is judged column by column against the identity");
    run.assume("nonsingularity is certified by a non-zero determinant modulo 2^61−1 of the integer-scaled matrix; cases with determinant ≡ 0 are skipped and counted");
    run.assume("dense matrices of order 5..32 are covered by structured integer families, their single-entry neighbourhoods and 6 (40) pseudo-random matrices per order");
}
