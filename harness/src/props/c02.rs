//! C02 — densities and mass functions are proper and match the stated mean and variance.
//! Engine E3: parameter-regime lattice × evaluation lattice per law (bulk, boundary ±1 ulp,
//! outside the support, far tails; every integer of the support for discrete laws) against the
//! textbook formula evaluated independently in log space through glibc lgamma; exhaustive
//! mass/moment summation for discrete laws, Gauss–Legendre cross-checks for continuous ones.
use crate::common::rat::Rat;
use crate::common::refmath::*;
use crate::common::{guard, Run};
use compute::distributions::*;
use compute::linalg::{Matrix, Vector};
use rayon::prelude::*;
use std::f64::consts::PI;

const EULER: f64 = 0.577_215_664_901_532_9;

struct Cont {
    law: &'static str,
    params: String,
    pdf: Box<dyn Fn(f64) -> f64 + Sync + Send>,
    ln_pdf: Box<dyn Fn(f64) -> f64 + Sync + Send>,
    /// log of the textbook density (−inf outside the support)
    ref_ln: Box<dyn Fn(f64) -> f64 + Sync + Send>,
    support: (f64, f64),
    mean_var: (f64, f64),
    ref_mean_var: (f64, f64),
    /// evaluation points inside the support
    grid: Vec<f64>,
    /// relative tolerance on the density
    tol: f64,
    /// integrate numerically (light tails) over this range
    integrate: Option<(f64, f64)>,
}

fn up(x: f64) -> f64 {
    if x == 0.0 {
        5e-324
    } else {
        f64::from_bits(if x > 0.0 { x.to_bits() + 1 } else { x.to_bits() - 1 })
    }
}
fn down(x: f64) -> f64 {
    -up(-x)
}
fn logspace(lo: f64, hi: f64, n: usize) -> Vec<f64> {
    (0..n).map(|i| (lo.ln() + (hi.ln() - lo.ln()) * i as f64 / (n - 1) as f64).exp()).collect()
}
fn linspace(lo: f64, hi: f64, n: usize) -> Vec<f64> {
    (0..n).map(|i| lo + (hi - lo) * i as f64 / (n - 1) as f64).collect()
}

fn continuous_cases(run: &Run) -> Vec<Cont> {
    let mut v: Vec<Cont> = Vec::new();
    let shapes = [0.2, 0.5, 1.0, 1.5, 3.0, 20.0, 150.0];
    let rates = [1e-3, 1e-2, 0.1, 1.0, 10.0, 1e2, 1e3];
    let locs = [0.0, 1.0, -1.0, 1e3, -1e3];
    let np = run.tier.pick(120usize, 4000usize);
    // Normal
    for &mu in &locs {
        for &sigma in &[1e-3, 0.5, 1.0, 20.0, 1e3] {
            let d = Normal::new(mu, sigma);
            let mut grid = linspace(mu - 10.0 * sigma, mu + 10.0 * sigma, np);
            grid.extend([mu - 37.0 * sigma, mu + 37.0 * sigma, mu]);
            v.push(Cont {
                law: "Normal",
                params: format!("mu={} sigma={}", mu, sigma),
                pdf: Box::new(move |x| d.pdf(x)),
                ln_pdf: Box::new(move |x| d.ln_pdf(x)),
                ref_ln: Box::new(move |x| -0.5 * ((x - mu) / sigma).powi(2) - sigma.ln() - 0.5 * (2.0 * PI).ln()),
                support: (f64::NEG_INFINITY, f64::INFINITY),
                mean_var: (d.mean(), d.var()),
                ref_mean_var: (mu, sigma * sigma),
                grid,
                tol: 1e-10,
                integrate: Some((mu - 12.0 * sigma, mu + 12.0 * sigma)),
            });
        }
    }
    // Gamma
    for &a in &shapes {
        for &b in &rates {
            if a >= 20.0 && !(0.1..=10.0).contains(&b) {
                continue; // β^α leaves the f64 range; the cross product of extremes is not claimed
            }
          for via in [false, true] {
            let d = if via {
                let mut t = Gamma::new(b + 0.75, a + 2.0);
                t.set_beta(b);
                t.set_alpha(a);
                t
            } else {
                Gamma::new(a, b)
            };
            let m = a / b;
            let sd = a.sqrt() / b;
            let mut grid = logspace(m * 1e-6, m * 1e3, np / 2);
            grid.extend(linspace((m - 8.0 * sd).max(m * 1e-3), m + 12.0 * sd, np / 2));
            v.push(Cont {
                law: "Gamma",
                params: format!("alpha={} beta={}{}", a, b, if via { " (reached through set_beta, set_alpha)" } else { "" }),
                pdf: Box::new(move |x| d.pdf(x)),
                ln_pdf: Box::new(move |x| d.ln_pdf(x)),
                ref_ln: Box::new(move |x| if x <= 0.0 { f64::NEG_INFINITY } else { a * b.ln() - lgam(a) + (a - 1.0) * x.ln() - b * x }),
                support: (0.0, f64::INFINITY),
                mean_var: (d.mean(), d.var()),
                ref_mean_var: (a / b, a / (b * b)),
                grid,
                tol: 1e-10,
                integrate: if a >= 2.0 { Some((0.0, m + 40.0 * sd + 40.0 / b)) } else { None },
            });
          }
        }
    }
    // Beta
    let bshapes = [0.2, 0.5, 1.0, 1.5, 3.0, 20.0, 60.0];
    for &a in &bshapes {
        for &b in &bshapes {
          // every parameter pair on a fresh object and on one that reached it through its setters
          for via in [false, true] {
            let d = if via {
                let mut t = Beta::new(b + 0.75, a + 2.0);
                t.set_alpha(a);
                t.set_beta(b);
                t
            } else {
                Beta::new(a, b)
            };
            let mut grid = linspace(1e-6, 1.0 - 1e-6, np);
            grid.extend(logspace(1e-12, 1e-3, 20));
            grid.extend(logspace(1e-12, 1e-3, 20).iter().map(|t| 1.0 - t));
            let s = a + b;
            v.push(Cont {
                law: "Beta",
                params: format!("alpha={} beta={}{}", a, b, if via { " (reached through set_alpha, set_beta)" } else { "" }),
                pdf: Box::new(move |x| d.pdf(x)),
                ln_pdf: Box::new(move |x| d.ln_pdf(x)),
                ref_ln: Box::new(move |x| if !(0.0..=1.0).contains(&x) { f64::NEG_INFINITY } else { (a - 1.0) * x.ln() + (b - 1.0) * c_log1p(-x) - (lgam(a) + lgam(b) - lgam(a + b)) }),
                support: (0.0, 1.0),
                mean_var: (d.mean(), d.var()),
                ref_mean_var: (a / s, a * b / (s * s * (s + 1.0))),
                grid,
                tol: 1e-10,
                integrate: if a >= 2.0 && b >= 2.0 { Some((0.0, 1.0)) } else { None },
            });
          }
        }
    }
    // ChiSquared
    for k in (1..=8usize).chain([30, 200]) {
      for via in [false, true] {
        let d = if via {
            let mut t = ChiSquared::new(k + 3);
            t.set_dof(k);
            t
        } else {
            ChiSquared::new(k)
        };
        let kf = k as f64;
        let mut grid = logspace(kf * 1e-6, kf * 50.0, np / 2);
        grid.extend(linspace(kf * 0.01, kf + 12.0 * (2.0 * kf).sqrt(), np / 2));
        v.push(Cont {
            law: "ChiSquared",
            params: format!("dof={}{}", k, if via { " (reached through set_dof)" } else { "" }),
            pdf: Box::new(move |x| d.pdf(x)),
            ln_pdf: Box::new(move |x| d.ln_pdf(x)),
            ref_ln: Box::new(move |x| if x <= 0.0 { f64::NEG_INFINITY } else { (kf / 2.0 - 1.0) * x.ln() - x / 2.0 - (kf / 2.0) * 2f64.ln() - lgam(kf / 2.0) }),
            support: (0.0, f64::INFINITY),
            mean_var: (d.mean(), d.var()),
            ref_mean_var: (kf, 2.0 * kf),
            grid,
            tol: 1e-10,
            integrate: if k >= 4 { Some((0.0, kf + 60.0 * (2.0 * kf).sqrt() + 80.0)) } else { None },
        });
      }
    }
    // T
    for &nu in &[0.5, 1.0, 2.0, 3.0, 4.0, 5.0, 6.0, 7.0, 8.0, 30.0, 200.0] {
      for via in [false, true] {
        let d = if via {
            let mut t = T::new(nu + 1.5);
            t.set_dof(nu);
            t
        } else {
            T::new(nu)
        };
        let mut grid = linspace(-12.0, 12.0, np);
        grid.extend(logspace(12.0, 1e6, 30));
        grid.extend(logspace(12.0, 1e6, 30).iter().map(|t| -t));
        v.push(Cont {
            law: "T",
            params: format!("dof={}{}", nu, if via { " (reached through set_dof)" } else { "" }),
            pdf: Box::new(move |x| d.pdf(x)),
            ln_pdf: Box::new(move |x| d.ln_pdf(x)),
            ref_ln: Box::new(move |x| lgam((nu + 1.0) / 2.0) - lgam(nu / 2.0) - 0.5 * (nu * PI).ln() - (nu + 1.0) / 2.0 * c_log1p(x * x / nu)),
            support: (f64::NEG_INFINITY, f64::INFINITY),
            mean_var: (d.mean(), d.var()),
            ref_mean_var: (if nu > 1.0 { 0.0 } else { f64::NAN }, if nu > 2.0 { nu / (nu - 2.0) } else { f64::NAN }),
            grid,
            tol: 1e-10,
            integrate: if nu >= 30.0 { Some((-400.0, 400.0)) } else { None },
        });
      }
    }
    // Pareto
    for &a in &[0.5, 1.0, 1.5, 2.0, 3.0, 20.0] {
        for &xm in &[1e-3, 0.5, 1.0, 4.0, 1e3] {
            let d = Pareto::new(a, xm);
            let grid = logspace(xm, xm * 1e6, np);
            v.push(Cont {
                law: "Pareto",
                params: format!("alpha={} minval={}", a, xm),
                pdf: Box::new(move |x| d.pdf(x)),
                ln_pdf: Box::new(move |x| d.ln_pdf(x)),
                ref_ln: Box::new(move |x| if x < xm { f64::NEG_INFINITY } else { a.ln() + a * xm.ln() - (a + 1.0) * x.ln() }),
                support: (xm, f64::INFINITY),
                mean_var: (d.mean(), d.var()),
                ref_mean_var: (if a > 1.0 { a * xm / (a - 1.0) } else { f64::INFINITY }, if a > 2.0 { xm * xm * a / ((a - 1.0).powi(2) * (a - 2.0)) } else { f64::INFINITY }),
                grid,
                tol: 1e-10,
                integrate: None,
            });
        }
    }
    // Gumbel
    for &mu in &locs {
        for &b in &[1e-3, 0.5, 1.0, 10.0, 1e3] {
            let d = Gumbel::new(mu, b);
            let grid = linspace(mu - 6.0 * b, mu + 40.0 * b, np);
            v.push(Cont {
                law: "Gumbel",
                params: format!("mu={} beta={}", mu, b),
                pdf: Box::new(move |x| d.pdf(x)),
                ln_pdf: Box::new(move |x| d.ln_pdf(x)),
                ref_ln: Box::new(move |x| {
                    let z = (x - mu) / b;
                    -b.ln() - z - (-z).exp()
                }),
                support: (f64::NEG_INFINITY, f64::INFINITY),
                mean_var: (d.mean(), d.var()),
                ref_mean_var: (mu + b * EULER, PI * PI / 6.0 * b * b),
                grid,
                tol: 1e-10,
                integrate: Some((mu - 8.0 * b, mu + 60.0 * b)),
            });
        }
    }
    // Exponential
    for &l in &rates {
        let d = Exponential::new(l);
        let mut grid = logspace(1e-9 / l, 700.0 / l, np);
        grid.push(0.0);
        v.push(Cont {
            law: "Exponential",
            params: format!("lambda={}", l),
            pdf: Box::new(move |x| d.pdf(x)),
            ln_pdf: Box::new(move |x| d.ln_pdf(x)),
            ref_ln: Box::new(move |x| if x < 0.0 { f64::NEG_INFINITY } else { l.ln() - l * x }),
            support: (0.0, f64::INFINITY),
            mean_var: (d.mean(), d.var()),
            ref_mean_var: (1.0 / l, 1.0 / (l * l)),
            grid,
            tol: 1e-10,
            integrate: Some((0.0, 60.0 / l)),
        });
    }
    // Uniform
    for &(a, b) in &[(0.0, 1.0), (-2.0, 6.0), (-1e3, 1e3), (1e3, 1e3 + 0.5), (-1.0, -0.999), (5.0, 6.0)] {
        let d = Uniform::new(a, b);
        let mut grid = linspace(a, b, np);
        grid.extend([a, b]);
        v.push(Cont {
            law: "Uniform",
            params: format!("lower={} upper={}", a, b),
            pdf: Box::new(move |x| d.pdf(x)),
            ln_pdf: Box::new(move |x| d.ln_pdf(x)),
            ref_ln: Box::new(move |x| if x < a || x > b { f64::NEG_INFINITY } else { -(b - a).ln() }),
            support: (a, b),
            mean_var: (d.mean(), d.var()),
            ref_mean_var: ((a + b) / 2.0, (b - a) * (b - a) / 12.0),
            grid,
            tol: 1e-10,
            integrate: Some((a, b)),
        });
    }
    v
}

fn rel_close(got: f64, want: f64, tol: f64) -> bool {
    if want.is_nan() {
        return true; // moment does not exist: any convention accepted
    }
    if want.is_infinite() {
        return got == want || got.is_nan();
    }
    (got - want).abs() <= tol * want.abs().max(1e-300) || (got - want).abs() <= 1e-300
}

fn gauss_legendre(f: &dyn Fn(f64) -> f64, a: f64, b: f64, panels: usize) -> f64 {
    // 5-point Gauss–Legendre per panel (harness's own nodes)
    const X: [f64; 5] = [0.0, 0.538_469_310_105_683_1, -0.538_469_310_105_683_1, 0.906_179_845_938_664, -0.906_179_845_938_664];
    const W: [f64; 5] = [0.568_888_888_888_888_9, 0.478_628_670_499_366_47, 0.478_628_670_499_366_47, 0.236_926_885_056_189_08, 0.236_926_885_056_189_08];
    let h = (b - a) / panels as f64;
    let mut s = 0.0;
    for p in 0..panels {
        let c = a + (p as f64 + 0.5) * h;
        for i in 0..5 {
            s += W[i] * f(c + 0.5 * h * X[i]);
        }
    }
    s * 0.5 * h
}

fn check_cont(run: &Run, c: &Cont) {
    let law = c.law;
    let site = |s: &str| format!("{}/{}", law, s);
    let mut pts = c.grid.clone();
    let (lo, hi) = c.support;
    let mut outside: Vec<f64> = Vec::new();
    if lo.is_finite() {
        pts.extend([up(lo), up(up(lo))]);
        let w = if hi.is_finite() { hi - lo } else { lo.abs().max(1.0) };
        outside.extend([down(lo), lo - 1e-9 * w, lo - 0.5 * w, lo - 10.0 * w, lo - 1e6 * w.max(1.0), -1e300]);
        if lo > 0.0 {
            outside.extend([0.0, -lo]);
        }
    }
    if hi.is_finite() {
        pts.extend([down(hi), down(down(hi))]);
        let w = hi - lo;
        outside.extend([up(hi), hi + 1e-9 * w, hi + 0.5 * w, hi + 10.0 * w, hi + 1e6 * w.max(1.0), 1e300]);
    }
    // towards the finite ends of the support on a geometric lattice (distance m·10^-k, k = 1..300)
    {
        let w = if lo.is_finite() && hi.is_finite() { hi - lo } else { 1.0 };
        for k in (1..=24).chain([30, 40, 60, 100, 150, 200, 300]) {
            for m in [1.0, 3.0] {
                let d = m * 10f64.powi(-k) * w;
                if lo.is_finite() && lo + d > lo && lo + d < hi {
                    pts.push(lo + d);
                }
                if hi.is_finite() && hi - d < hi && hi - d > lo {
                    pts.push(hi - d);
                }
            }
        }
    }
    // far tails: up to 10^6 scale units from the centre, inside the support
    {
        let centre = if c.ref_mean_var.0.is_finite() { c.ref_mean_var.0 } else { c.grid[c.grid.len() / 2] };
        let scale = if c.ref_mean_var.1.is_finite() && c.ref_mean_var.1 > 0.0 { c.ref_mean_var.1.sqrt() } else { (c.grid[c.grid.len() - 1] - c.grid[0]).abs().max(1e-300) / 10.0 };
        for k in [30.0, 100.0, 720.0, 800.0, 1e4, 1e6] {
            for t in [centre - k * scale, centre + k * scale] {
                if t > lo && t < hi && t.is_finite() {
                    pts.push(t);
                }
            }
        }
    }
    let mut seen: Vec<(f64, u64)> = Vec::with_capacity(pts.len());
    for &x in &pts {
        run.case();
        run.tr();
        run.ok();
        let want_ln = (c.ref_ln)(x);
        let want = want_ln.exp();
        match guard(|| (c.pdf)(x)) {
            Ok(g) => {
                seen.push((x, g.to_bits()));
                if !(g >= 0.0) {
                    run.violate(&site("pdf/negative-or-nan"), || format!("{}({}).pdf({:e}) = {:e} (formula {:e})", law, c.params, x, g, want));
                } else if want > 1e-150 && want < 1e150 && !((g - want).abs() <= c.tol * want) {
                    run.outcome(&(law, "pdf-bad"));
                    run.violate(&site("pdf/formula"), || format!("{}({}).pdf({:e}) = {:e}, textbook {:e} (rel {:e})", law, c.params, x, g, want, (g - want).abs() / want));
                } else {
                    run.outcome(&(law, "pdf-ok", want > 1e-150));
                    // ln_pdf = ln(pdf) where pdf is a normal number
                    if g > 2.3e-308 && g.is_finite() {
                        run.tr();
                        match guard(|| (c.ln_pdf)(x)) {
                            Ok(l) => {
                                // "the log-density equals the logarithm of the density": of the density as
                                // returned (where the textbook value is demanded of the density, it is thereby
                                // demanded of the log-density too)
                                let lg = g.ln();
                                if !((l - lg).abs() <= 1e-9 * lg.abs().max(1.0)) {
                                    run.violate(&site("ln_pdf"), || format!("{}({}).ln_pdf({:e}) = {:e}, ln of the density {:e} (textbook {:e})", law, c.params, x, l, lg, want_ln));
                                }
                            }
                            Err(p) => run.violate(&site("ln_pdf/panic"), || format!("{}({}).ln_pdf({:e}): {}", law, c.params, x, p)),
                        }
                    }
                }
            }
            Err(p) => run.violate(&site("pdf/panic"), || format!("{}({}).pdf({:e}): {}", law, c.params, x, p)),
        }
    }
    // the density is a function of its argument only: the same points in reverse order
    for &(x, bits) in seen.iter().rev() {
        run.tr();
        if let Ok(g) = guard(|| (c.pdf)(x)) {
            if g.to_bits() != bits && !(g.is_nan() && f64::from_bits(bits).is_nan()) {
                run.violate(&site("pdf/depends-on-evaluation-order"), || format!("{}({}).pdf({:e}) = {:e} in reverse order, {:e} in the first pass", law, c.params, x, g, f64::from_bits(bits)));
                break;
            }
        }
    }
    for &x in &outside {
        run.case();
        run.tr();
        run.ok();
        run.nontrivial(1);
        match guard(|| (c.pdf)(x)) {
            Ok(g) if g == 0.0 => {
                run.outcome(&(law, "outside-zero"));
                run.regime("outside-support-zero");
                // the log-density is the logarithm of the density: ln 0 = -inf outside the support
                run.tr();
                match guard(|| (c.ln_pdf)(x)) {
                    Ok(l) if l == f64::NEG_INFINITY => {}
                    Ok(l) => run.violate(&site("ln_pdf/outside-support"), || format!("{}({}).ln_pdf({:e}) = {:e} although the density is 0 there (support [{:e},{:e}])", law, c.params, x, l, lo, hi)),
                    Err(p) => run.violate(&site("ln_pdf/panic-outside-support"), || format!("{}({}).ln_pdf({:e}): {}", law, c.params, x, p)),
                }
            }
            Ok(g) => run.violate(&site("pdf/nonzero-outside-support"), || format!("{}({}).pdf({:e}) = {:e} outside the support [{:e},{:e}]", law, c.params, x, g, lo, hi)),
            Err(p) => run.violate(&site("pdf/panic-outside-support"), || format!("{}({}).pdf({:e}): {}", law, c.params, x, p)),
        }
    }
    // mean / variance against the closed-form moments
    run.case();
    run.ok();
    if !rel_close(c.mean_var.0, c.ref_mean_var.0, 1e-12) {
        run.violate(&site("mean"), || format!("{}({}).mean() = {:e}, first moment {:e}", law, c.params, c.mean_var.0, c.ref_mean_var.0));
    }
    if !rel_close(c.mean_var.1, c.ref_mean_var.1, 1e-12) {
        run.outcome(&(law, "var-bad"));
        run.violate(&site("var"), || format!("{}({}).var() = {:e}, second central moment {:e}", law, c.params, c.mean_var.1, c.ref_mean_var.1));
    } else {
        run.outcome(&(law, "moments-ok"));
    }
    // numerical cross-check: mass and moments of *the implemented function*
    if let Some((a, b)) = c.integrate {
        let f = |x: f64| (c.pdf)(x);
        let panels = 4000;
        let r = guard(|| {
            let mass = gauss_legendre(&f, a, b, panels);
            let m1 = gauss_legendre(&|x| x * f(x), a, b, panels);
            let m2 = gauss_legendre(&|x| (x - c.ref_mean_var.0).powi(2) * f(x), a, b, panels);
            (mass, m1, m2)
        });
        run.trs(3 * 5 * panels as u64);
        if let Ok((mass, m1, m2)) = r {
            let scale = c.ref_mean_var.1.sqrt();
            if (mass - 1.0).abs() > 1e-7 {
                run.violate(&site("pdf/total-mass"), || format!("{}({}): integral of pdf over [{:e},{:e}] = {:e}", law, c.params, a, b, mass));
            } else if (m1 - c.mean_var.0).abs() > 1e-6 * (scale + c.ref_mean_var.0.abs() * 1e-3) + 1e-7 * scale {
                run.violate(&site("mean/not-first-moment-of-pdf"), || format!("{}({}): integral x pdf = {:e}, mean() = {:e}", law, c.params, m1, c.mean_var.0));
            } else if (m2 - c.mean_var.1).abs() > 1e-5 * c.ref_mean_var.1 {
                run.violate(&site("var/not-second-moment-of-pdf"), || format!("{}({}): integral (x-m)^2 pdf = {:e}, var() = {:e}", law, c.params, m2, c.mean_var.1));
            } else {
                run.regime("integrated");
            }
        }
    }
}

// ---- discrete laws ---------------------------------------------------------------------------
struct Disc {
    law: &'static str,
    params: String,
    pmf: Box<dyn Fn(i64) -> f64 + Sync + Send>,
    ref_pmf: Box<dyn Fn(i64) -> f64 + Sync + Send>,
    range: (i64, i64), // exhaustive evaluation range (covers all but 1e-14 of the mass)
    support: (i64, i64),
    mean_var: (f64, f64),
    ref_mean_var: (f64, f64),
    cls: &'static str,
}

fn discrete_cases(run: &Run) -> Vec<Disc> {
    let mut v = Vec::new();
    for &l in &[1e-3, 1e-2, 0.1, 0.5, 1.0, 3.0, 9.5, 10.0, 42.0, 100.0, 149.0, 150.0, 500.0, 1e3] {
        let d = Poisson::new(l);
        let hi = (l + 12.0 * l.sqrt() + 40.0) as i64;
        v.push(Disc {
            law: "Poisson",
            params: format!("lambda={}", l),
            pmf: Box::new(move |k| d.pmf(k)),
            ref_pmf: Box::new(move |k| if k < 0 { 0.0 } else { poisson_pmf(l, k as f64) }),
            range: (-3, hi),
            support: (0, i64::MAX),
            mean_var: (d.mean(), d.var()),
            ref_mean_var: (l, l),
            cls: if l >= 100.0 { "rate>=100" } else { "rate<100" },
        });
    }
    let ns: Vec<u64> = if run.thorough() { (0..=64).chain([100, 170, 171, 500, 1000]).collect() } else { (0..=64).step_by(1).chain([100, 1000]).collect() };
    for &n in &ns {
        for &p in &[0.0, 0.01, 0.3, 0.5, 0.7, 0.99, 1.0] {
            let d = Binomial::new(n, p);
            v.push(Disc {
                law: "Binomial",
                params: format!("n={} p={}", n, p),
                pmf: Box::new(move |k| d.pmf(k)),
                ref_pmf: Box::new(move |k| binom_pmf(n as f64, p, k as f64)),
                range: (-3, n as i64 + 3),
                support: (0, n as i64),
                mean_var: (d.mean(), d.var()),
                ref_mean_var: (n as f64 * p, n as f64 * p * (1.0 - p)),
                cls: if n > 64 { "n>64" } else { "n<=64" },
            });
        }
    }
    for &p in &[0.0, 0.01, 0.25, 0.5, 0.75, 1.0] {
        let d = Bernoulli::new(p);
        v.push(Disc {
            law: "Bernoulli",
            params: format!("p={}", p),
            pmf: Box::new(move |k| d.pmf(k)),
            ref_pmf: Box::new(move |k| if k == 0 { 1.0 - p } else if k == 1 { p } else { 0.0 }),
            range: (-3, 4),
            support: (0, 1),
            mean_var: (d.mean(), d.var()),
            ref_mean_var: (p, p * (1.0 - p)),
            cls: "all",
        });
    }
    for &(a, b) in &[(0i64, 1i64), (0, 0), (-2, 6), (3, 4), (-5, -2), (-1, 2), (1, 2), (-1000, 1000), (7, 1000), (-3, 0)] {
        let d = DiscreteUniform::new(a, b);
        let n = (b - a + 1) as f64;
        v.push(Disc {
            law: "DiscreteUniform",
            params: format!("lower={} upper={}", a, b),
            pmf: Box::new(move |k| d.pmf(k)),
            ref_pmf: Box::new(move |k| if k < a || k > b { 0.0 } else { 1.0 / n }),
            range: (a - 3, b + 3),
            support: (a, b),
            mean_var: (d.mean(), d.var()),
            ref_mean_var: ((a + b) as f64 / 2.0, (n * n - 1.0) / 12.0),
            cls: if (a + b) % 2 != 0 { "odd-sum-of-bounds" } else { "even-sum-of-bounds" },
        });
    }
    v
}

fn check_disc(run: &Run, d: &Disc) {
    let law = d.law;
    let site = |s: &str| format!("{}/{}", law, s);
    let (mut mass, mut m1) = (0.0f64, 0.0f64);
    let mut vals: Vec<(i64, f64)> = Vec::new();
    let mut usable = true;
    for k in d.range.0..=d.range.1 {
        run.case();
        run.tr();
        run.ok();
        let want = (d.ref_pmf)(k);
        let outside = k < d.support.0 || k > d.support.1;
        if outside {
            run.nontrivial(1);
        }
        match guard(|| (d.pmf)(k)) {
            Ok(g) => {
                if outside {
                    if g != 0.0 {
                        usable = false;
                        run.violate(&site("pmf/nonzero-outside-support"), || format!("{}({}).pmf({}) = {:e}", law, d.params, k, g));
                    } else {
                        run.regime("outside-support-zero");
                    }
                } else if !(g >= 0.0) || !((g - want).abs() <= 1e-10 * want + 1e-300) {
                    usable = false;
                    run.outcome(&(law, "pmf-bad", d.cls));
                    run.violate(&format!("{}/pmf/formula/{}", law, d.cls), || format!("{}({}).pmf({}) = {:e}, textbook {:e}", law, d.params, k, g, want));
                } else {
                    run.outcome(&(law, "pmf-ok", d.cls));
                    mass += g;
                    m1 += g * k as f64;
                    vals.push((k, g));
                }
            }
            Err(p) => {
                usable = false;
                let cls = if outside { "panic-outside-support" } else { "panic" };
                run.violate(&format!("{}/pmf/{}/{}", law, cls, d.cls), || format!("{}({}).pmf({}): {}", law, d.params, k, p));
            }
        }
    }
    // the mass function is a function of its argument only: the same counts in descending order, in a
    // stride-permuted order and each right after its upper neighbour must give the same values
    if usable && !vals.is_empty() {
        let lookup: std::collections::HashMap<i64, f64> = vals.iter().cloned().collect();
        let ks: Vec<i64> = vals.iter().map(|(k, _)| *k).collect();
        let n = ks.len();
        let mut orders: Vec<(&str, Vec<i64>)> = vec![("descending", ks.iter().rev().cloned().collect())];
        let stride = [7usize, 11, 13, 17, 19, 23].iter().cloned().find(|s| n % s != 0).unwrap_or(1);
        orders.push(("stride-permuted", (0..n).map(|i| ks[(i * stride) % n]).collect()));
        let mut zig = Vec::with_capacity(2 * n);
        for w in ks.windows(2) {
            zig.push(w[1]);
            zig.push(w[0]);
        }
        orders.push(("each count after its upper neighbour", zig));
        for (oname, order) in orders {
            for k in order {
                run.tr();
                let want = lookup[&k];
                match guard(|| (d.pmf)(k)) {
                    Ok(g) => {
                        if g.to_bits() != want.to_bits() && !((g - want).abs() <= 1e-12 * want) {
                            run.violate(&format!("{}/pmf/depends-on-evaluation-order", law), || format!("{}({}).pmf({}) = {:e} when evaluated in {} order, {:e} in ascending order", law, d.params, k, g, oname, want));
                            break;
                        }
                    }
                    Err(p) => {
                        run.violate(&format!("{}/pmf/panic/{}", law, d.cls), || format!("{}({}).pmf({}) in {} order: {}", law, d.params, k, oname, p));
                        break;
                    }
                }
            }
        }
        run.regime("pmf-evaluation-orders");
    }
    if usable {
        // exhaustive summation over the support: total mass and the first two moments of that same function
        let m2: f64 = vals.iter().map(|(k, g)| g * (*k as f64 - m1).powi(2)).sum();
        let sd = d.ref_mean_var.1.sqrt().max(1e-300);
        if (mass - 1.0).abs() > 1e-10 {
            run.violate(&site("pmf/total-mass"), || format!("{}({}): sum of pmf = {:e}", law, d.params, mass));
        }
        if (m1 - d.mean_var.0).abs() > 1e-9 * (sd + d.ref_mean_var.0.abs()) + 1e-12 {
            run.outcome(&(law, "mean-bad"));
            run.violate(&format!("{}/mean/{}", law, d.cls), || format!("{}({}).mean() = {:e} but the first moment of its pmf is {:e}", law, d.params, d.mean_var.0, m1));
        }
        if (m2 - d.mean_var.1).abs() > 1e-8 * d.ref_mean_var.1.max(1e-30) + 1e-12 {
            run.violate(&site("var"), || format!("{}({}).var() = {:e} but the second central moment of its pmf is {:e}", law, d.params, d.mean_var.1, m2));
        }
        run.regime("mass-summed");
    }
    if !rel_close(d.mean_var.0, d.ref_mean_var.0, 1e-12) && (d.mean_var.0 - d.ref_mean_var.0).abs() > 1e-300 {
        run.violate(&format!("{}/mean/{}", law, d.cls), || format!("{}({}).mean() = {:e}, textbook {:e}", law, d.params, d.mean_var.0, d.ref_mean_var.0));
    }
    if !rel_close(d.mean_var.1, d.ref_mean_var.1, 1e-12) && (d.mean_var.1 - d.ref_mean_var.1).abs() > 1e-300 {
        run.violate(&site("var"), || format!("{}({}).var() = {:e}, textbook {:e}", law, d.params, d.mean_var.1, d.ref_mean_var.1));
    }
}

// ---- multivariate normal -------------------------------------------------------------------------
fn mvn_suite(run: &Run) {
    let dmax = run.tier.pick(4usize, 6usize);
    for dim in 1..=dmax {
        let covs: Vec<(&str, Vec<f64>)> = vec![
            ("minmat", super::lin::minmat(dim)),
            ("pascal", super::lin::pascal(dim)),
            ("diag+rank1", (0..dim * dim).map(|t| if t / dim == t % dim { 3.0 + (t / dim) as f64 } else { 1.0 }).collect()),
            ("tridiag", super::lin::tridiag(dim, -1.0, 4.0, -1.0)),
            // correlations of both signs whose sum is exactly zero (dimension >= 3)
            ("balanced-signs", (0..dim * dim).map(|t| { let (i, j) = (t / dim, t % dim); if i == j { 3.0 + i as f64 } else if i.min(j) == 0 && i.max(j) % 2 == 1 && i.max(j) + 1 < dim.max(3) { 1.0 } else if i.min(j) == 0 && i.max(j) % 2 == 0 && i.max(j) >= 2 { -1.0 } else { 0.0 } }).collect()),
        ];
        // the same covariances at standard deviations of ~2e-3 and ~1e3 around means of ~1e3 (|mean|/sd up to 1e6)
        let covs: Vec<(String, Vec<f64>, f64)> = covs.into_iter().flat_map(|(n, c)| [1.0f64, 2e-3, 1e3, 0.0078125].into_iter().map(move |sc| (if sc == 1.0 { n.to_string() } else { format!("{}·{}²", n, sc) }, c.iter().map(|v| v * sc * sc).collect::<Vec<f64>>(), sc))).collect();
        for (cname, cov, sc) in covs {
            let cname = cname.as_str();
            // exact inverse and determinant
            let r: Vec<Rat> = cov.iter().map(|v| Rat::from_f64(*v)).collect();
            let id: Vec<Rat> = (0..dim * dim).map(|t| if t / dim == t % dim { Rat::ONE } else { Rat::ZERO }).collect();
            let (inv, det) = match (crate::common::rat::solve(&r, &id, dim, dim), crate::common::rat::det_rat(&r, dim)) {
                (Some(i), Some(d)) => (i.iter().map(|x| x.to_f64()).collect::<Vec<_>>(), d.to_f64()),
                _ => continue,
            };
            let mu: Vec<f64> = (0..dim).map(|i| if sc == 1.0 { [0.5, -1.0, 2.0, 0.0, 1e3, -3.0][i] } else { [1e3, -2e3, 1.5e3, 999.0, 1e3, -3e3][i] }).collect();
            let made = guard(|| MVN::new(Vector::new(mu.clone()), Matrix::new(cov.clone(), dim as i32, dim as i32)));
            run.tr();
            let mvn = match made {
                Ok(m) => m,
                Err(p) => {
                    run.violate("MVN/new/panic", || format!("dim {} cov {} {:?}: {}", dim, cname, cov, p));
                    continue;
                }
            };
            let offs: Vec<Vec<f64>> = {
                let mut o = vec![vec![0.0; dim]];
                for i in 0..dim {
                    for &s in &[1.0, -2.5, 0.125] {
                        let mut e = vec![0.0; dim];
                        e[i] = s;
                        o.push(e);
                    }
                }
                o.push((0..dim).map(|i| (i as f64 + 1.0) * 0.5).collect());
                o.push((0..dim).map(|i| if i % 2 == 0 { 3.0 } else { -3.0 }).collect());
                o.push((0..dim).map(|_| 12.0).collect());
                o
            };
            for off in &offs {
                run.case();
                run.trs(2);
                run.ok();
                run.nontrivial(1);
                let x: Vec<f64> = (0..dim).map(|i| mu[i] + off[i] * sc).collect();
                // the offset the object actually sees (x - mean is exact for such close values)
                let off: Vec<f64> = (0..dim).map(|i| x[i] - mu[i]).collect();
                let mut q = 0.0;
                for i in 0..dim {
                    for j in 0..dim {
                        q += off[i] * inv[i * dim + j] * off[j];
                    }
                }
                let want_ln = -0.5 * (q + dim as f64 * (2.0 * PI).ln() + det.ln());
                let desc = || format!("MVN(dim {}, cov {} = {:?}) at mean + {:?}", dim, cname, cov, off);
                match guard(|| ((&mvn).pdf(&x), (&mvn).ln_pdf(&x))) {
                    Ok((p, l)) => {
                        let want = want_ln.exp();
                        if !((p - want).abs() <= 1e-9 * want) {
                            run.outcome(&("MVN", "pdf-bad"));
                            run.violate("MVN/pdf/formula", || format!("{}: pdf = {:e}, textbook {:e}", desc(), p, want));
                        } else if !((l - want_ln).abs() <= 1e-9 * want_ln.abs().max(1.0)) {
                            run.violate("MVN/ln_pdf", || format!("{}: ln_pdf = {:e}, ln of the density {:e}", desc(), l, want_ln));
                        } else {
                            run.outcome(&("MVN", "ok", dim));
                            run.regime("mvn-ok");
                        }
                    }
                    Err(e) => run.violate("MVN/pdf/panic", || format!("{}: {}", desc(), e)),
                }
            }
            // reported mean and covariance
            let m = (&mvn).mean();
            let c = (&mvn).var();
            if m != &mu[..] || c.data.v != cov {
                run.violate("MVN/mean-or-var", || format!("dim {} cov {}: mean {:?} var {:?}", dim, cname, m, c.data.v));
            }
        }
    }
}

pub fn run(run: &Run) {
    match self_test() {
        Ok(n) => run.extra("reference_self_test_rows", serde_json::json!(n)),
        Err(e) => run.machinery_error(e),
    }
    run.rule("13 univariate laws × parameter-regime lattices (shape <1,=1,>1 up to 150; dof 1..8,30,200; rates 1e-3..1e3; binomial n 0..=64 all, 100, 1000; locations 0,±1,±1e3) × evaluation lattices (120 (400) bulk/tail points, support boundaries ±1,2 ulp, 6+ points outside the support; every integer from 3 below to 3 above the support for discrete laws) against the textbook formula in log space via glibc lgamma; total mass and first two moments by exhaustive summation (discrete) or 20000-node Gauss–Legendre (light-tailed continuous); mean()/var() against closed-form moments; Normal::cdf against erfc; MVN of dimension 1..=4 (6) with integer SPD covariances and exact rational inverse/determinant; non-trivial = boundary, outside-support and tail points");
    let cont = continuous_cases(run);
    cont.par_iter().for_each(|c| check_cont(run, c));
    run.sample(|| format!("{}({}): pdf on {} points incl. ±1 ulp around the support boundary, ln_pdf, mean, var, numerical mass", cont[40].law, cont[40].params, cont[40].grid.len()));
    let disc = discrete_cases(run);
    disc.par_iter().for_each(|d| check_disc(run, d));
    run.sample(|| "Poisson(lambda=3): pmf(k) for k=-3..=63 against exp(k ln 3 - 3 - lgamma(k+1)); sum = 1; mean and variance of that same function".to_string());
    // Normal cdf
    for &(mu, sigma) in &[(0.0, 1.0), (10.0, 20.0), (-1e3, 1e-3), (1.0, 0.5), (0.0, 2.0), (3.0, 0.02), (0.0, 1e-3), (-7.0, 300.0)] {
        let d = Normal::new(mu, sigma);
        for i in -800i32..=800 {
            let z = i as f64 / 100.0;
            let x = mu + z * sigma;
            run.case();
            run.tr();
            run.ok();
            let want = norm_cdf((x - mu) / sigma);
            let g = d.cdf(x);
            if !((g - want).abs() <= 1.5e-7) || !(0.0..=1.0 + 1e-9).contains(&g) {
                run.violate("Normal/cdf", || format!("Normal({}, {}).cdf({:e}) = {:e}, true {:e}", mu, sigma, x, g, want));
            } else {
                run.outcome(&("cdf", i.signum()));
            }
        }
        // towards the mean on a geometric lattice (|z| = 7e-1 .. 1e-16)
        for k in 1..=16 {
            for &m in &[1.0, 2.5, 7.0] {
                for &sg in &[1.0, -1.0] {
                    let z = sg * m * 10f64.powi(-k);
                    let x = mu + z * sigma;
                    run.case();
                    run.tr();
                    run.ok();
                    run.nontrivial(1);
                    let want = norm_cdf((x - mu) / sigma);
                    let g = d.cdf(x);
                    if !((g - want).abs() <= 1.5e-7) {
                        run.violate("Normal/cdf", || format!("Normal({}, {}).cdf(mean + {:e} sd) = {:e}, true {:e}", mu, sigma, z, g, want));
                    }
                }
            }
        }
        // cdf is the integral of pdf
        let f = |x: f64| d.pdf(x);
        for &z in &[-3.0, -1.0, 0.0, 0.5, 2.0, 4.0] {
            let x = mu + z * sigma;
            let integral = gauss_legendre(&f, mu - 12.0 * sigma, x, 2000);
            if (integral - d.cdf(x)).abs() > 2e-7 {
                run.violate("Normal/cdf-not-integral-of-pdf", || format!("Normal({}, {}): integral of pdf up to {:e} = {:e}, cdf = {:e}", mu, sigma, x, integral, d.cdf(x)));
            }
        }
    }
    mvn_suite(run);
    for r in ["outside-support-zero", "mass-summed", "integrated", "mvn-ok"] {
        run.require_regime(r);
    }
    run.assume("textbook densities are evaluated in log space through glibc lgamma/log1p/exp (self-tested against a committed scipy table at the start of the run); tolerance 1e-10 relative, 1.5e-7 absolute where the crate's erf is involved");
    run.assume("points where the true density is below 1e-150 or above 1e150 are checked for non-negativity (no NaN) only, since intermediate factors legitimately underflow there; numerical integration only where the density is C1 at the support ends; the cross product of extreme shape (≥20) and extreme rate (outside 0.1..10) is not claimed");
    run.assume("∞/NaN conventions for non-existent moments are accepted as coded; degenerate equal-bounds Uniform is not a density and is not judged");
}
