//! C03 — samplers draw from the distribution they describe, in every parameter regime.
//! Engine E1 (`envx`): the RNG is an environment whose answers are enumerated; the sampler's
//! output law under an ideal generator is *computed* from the weighted leaves and compared with
//! the reference CDF within the property's DKW band.
use crate::common::dd::DD;
use crate::common::envx::{sup_distance, sup_distance_discrete, Decl, Explored, Explorer, Leaf};
use crate::common::refmath::*;
use crate::common::{guard, Run};
use alea::script::{self, Ans};
use compute::distributions::*;
use compute::linalg::{Matrix, Vector};
use rayon::prelude::*;

struct Case {
    law: &'static str,
    params: String,
    regime: &'static str,
    sample: Box<dyn Fn() -> f64 + Sync + Send>,
    /// the same object's bulk draws: `sample_n(n)` or, flattened, `sample_matrix(n, 1)`
    bulk: Option<std::sync::Arc<dyn Fn(usize, bool) -> Vec<f64> + Sync + Send>>,
    decl: Decl,
    cdf: std::sync::Arc<dyn Fn(f64) -> f64 + Sync + Send>,
    support: (f64, f64),
    /// Some(value): the law is a point mass
    degenerate: Option<f64>,
}

fn band(run: &Run) -> f64 {
    // sqrt(ln(2/α)/(2n)), α = 1e-12, n = 2e5 (quick) / 4e6 (thorough)
    let n: f64 = if run.thorough() { 4e6 } else { 2e5 };
    ((2.0f64 / 1e-12).ln() / (2.0 * n)).sqrt()
}

fn decl(run: &Run, words: usize, units: usize, discrete: bool) -> Decl {
    let t = run.thorough();
    Decl { max_words: words, max_units: units, jb: if t { 64 } else { 24 }, jw: if t { 32 } else { 12 }, gu: if t { [1 << 16, 256, 64, 64] } else { [1 << 13, 64, 32, 32] }, gw: if t { 128 } else { 32 }, discrete, max_leaves: if t { 40_000_000 } else { 400_000 }, max_runs: if t { 1_500_000_000 } else { 6_000_000 } }
}

fn cases(run: &Run) -> Vec<Case> {
    let mut v: Vec<Case> = Vec::new();
    let inf = f64::INFINITY;
    // one-draw inverse-CDF samplers
    for &(a, b) in &[(-2.0, 6.0), (0.0, 1.0), (1e3, 1e3 + 0.5)] {
        let d = Uniform::new(a, b);
        v.push(Case { law: "Uniform", params: format!("({}, {})", a, b), regime: "inverse-cdf", sample: Box::new(move || d.sample()), bulk: Some(std::sync::Arc::new(move |n, mat| if mat { d.sample_matrix(n, 1).data.v.clone() } else { d.sample_n(n).to_vec() })), decl: decl(run, 1, 2, false), cdf: std::sync::Arc::new(move |x| ((x - a) / (b - a)).clamp(0.0, 1.0)), support: (a, b), degenerate: None });
    }
    {
        let d = Uniform::new(3.0, 3.0);
        v.push(Case { law: "Uniform", params: "(3, 3)".into(), regime: "degenerate-equal-bounds", sample: Box::new(move || d.sample()), bulk: Some(std::sync::Arc::new(move |n, mat| if mat { d.sample_matrix(n, 1).data.v.clone() } else { d.sample_n(n).to_vec() })), decl: decl(run, 1, 2, false), cdf: std::sync::Arc::new(|x| if x >= 3.0 { 1.0 } else { 0.0 }), support: (3.0, 3.0), degenerate: Some(3.0) });
    }
    for &l in &[1e-3, 1.0, 5.0, 1e3] {
        let d = Exponential::new(l);
        v.push(Case { law: "Exponential", params: format!("({})", l), regime: "inverse-cdf", sample: Box::new(move || d.sample()), bulk: Some(std::sync::Arc::new(move |n, mat| if mat { d.sample_matrix(n, 1).data.v.clone() } else { d.sample_n(n).to_vec() })), decl: decl(run, 1, 2, false), cdf: std::sync::Arc::new(move |x| if x <= 0.0 { 0.0 } else { -c_expm1(-l * x) }), support: (0.0, inf), degenerate: None });
    }
    for &(m, b) in &[(0.0, 1.0), (-1e3, 10.0), (2.0, 0.5)] {
        let d = Gumbel::new(m, b);
        v.push(Case { law: "Gumbel", params: format!("({}, {})", m, b), regime: "inverse-cdf", sample: Box::new(move || d.sample()), bulk: Some(std::sync::Arc::new(move |n, mat| if mat { d.sample_matrix(n, 1).data.v.clone() } else { d.sample_n(n).to_vec() })), decl: decl(run, 1, 2, false), cdf: std::sync::Arc::new(move |x| (-(-(x - m) / b).exp()).exp()), support: (-inf, inf), degenerate: None });
    }
    for &(a, xm) in &[(1.0, 1.0), (4.0, 4.0), (0.5, 2.0), (20.0, 1e-3)] {
        let d = Pareto::new(a, xm);
        v.push(Case { law: "Pareto", params: format!("({}, {})", a, xm), regime: "inverse-cdf", sample: Box::new(move || d.sample()), bulk: Some(std::sync::Arc::new(move |n, mat| if mat { d.sample_matrix(n, 1).data.v.clone() } else { d.sample_n(n).to_vec() })), decl: decl(run, 1, 2, false), cdf: std::sync::Arc::new(move |x| if x < xm { 0.0 } else { 1.0 - (xm / x).powf(a) }), support: (xm, inf), degenerate: None });
    }
    for &p in &[0.0, 0.25, 0.75, 1.0] {
        let d = Bernoulli::new(p);
        v.push(Case { law: "Bernoulli", params: format!("({})", p), regime: if p == 0.0 || p == 1.0 { "p-in-{0,1}" } else { "inverse-cdf" }, sample: Box::new(move || d.sample()), bulk: Some(std::sync::Arc::new(move |n, mat| if mat { d.sample_matrix(n, 1).data.v.clone() } else { d.sample_n(n).to_vec() })), decl: decl(run, 1, 2, true), cdf: std::sync::Arc::new(move |x| if x < 0.0 { 0.0 } else if x < 1.0 { 1.0 - p } else { 1.0 }), support: (0.0, 1.0), degenerate: if p == 0.0 { Some(0.0) } else if p == 1.0 { Some(1.0) } else { None } });
    }
    for &(a, b) in &[(-2i64, 6i64), (0, 1), (3, 3), (-5, -5), (0, 40), (0, 999), (-70_000, 70_000), (0, 399_999_999), (1, 1_000_000_000), (0, 2_999_999_999), (-2_147_483_648, 2_147_483_648), (-5_000_000_000, 3_589_934_591)] {
        let d = DiscreteUniform::new(a, b);
        let n = (b - a + 1) as f64;
        v.push(Case { law: "DiscreteUniform", params: format!("({}, {})", a, b), regime: if a == b { "degenerate-equal-bounds" } else { "bounded-integer" }, sample: Box::new(move || d.sample()), bulk: Some(std::sync::Arc::new(move |n, mat| if mat { d.sample_matrix(n, 1).data.v.clone() } else { d.sample_n(n).to_vec() })), decl: decl(run, 1, 2, true), cdf: std::sync::Arc::new(move |x| (((x.floor() - a as f64 + 1.0) / n).clamp(0.0, 1.0))), support: (a as f64, b as f64), degenerate: if a == b { Some(a as f64) } else { None } });
    }
    // Normal (ziggurat)
    for &(m, s) in &[(0.0, 1.0), (10.0, 20.0), (-1e3, 1e-3)] {
        let d = Normal::new(m, s);
        v.push(Case { law: "Normal", params: format!("({}, {})", m, s), regime: "ziggurat", sample: Box::new(move || d.sample()), bulk: Some(std::sync::Arc::new(move |n, mat| if mat { d.sample_matrix(n, 1).data.v.clone() } else { d.sample_n(n).to_vec() })), decl: decl(run, 1, 2, false), cdf: std::sync::Arc::new(move |x| norm_cdf((x - m) / s)), support: (-inf, inf), degenerate: None });
    }
    {
        let d = Normal::new(2.5, 0.0);
        v.push(Case { law: "Normal", params: "(2.5, 0)".into(), regime: "degenerate-sigma-0", sample: Box::new(move || d.sample()), bulk: Some(std::sync::Arc::new(move |n, mat| if mat { d.sample_matrix(n, 1).data.v.clone() } else { d.sample_n(n).to_vec() })), decl: decl(run, 1, 2, false), cdf: std::sync::Arc::new(|x| if x >= 2.5 { 1.0 } else { 0.0 }), support: (2.5, 2.5), degenerate: Some(2.5) });
    }
    // Gamma and what is built on it
    for &(a, b) in &[(1.0, 1.0), (1.5, 1.0), (2.0, 4.0), (5.0, 1.0), (100.0, 1.0)] {
        let d = Gamma::new(a, b);
        let regime = if a < 1.0 / 3.0 { "shape<1/3" } else if a < 1.0 { "shape<1" } else { "shape>=1" };
        v.push(Case { law: "Gamma", params: format!("({}, {})", a, b), regime, sample: Box::new(move || d.sample()), bulk: Some(std::sync::Arc::new(move |n, mat| if mat { d.sample_matrix(n, 1).data.v.clone() } else { d.sample_n(n).to_vec() })), decl: decl(run, 1, 4, false), cdf: std::sync::Arc::new(move |x| gamma_cdf(a, b, x)), support: (0.0, inf), degenerate: None });
    }
    for &k in &[2usize, 5, 50] {
        let d = ChiSquared::new(k);
        let regime = if k < 2 { "dof=1 (gamma shape<1)" } else { "gamma shape>=1" };
        v.push(Case { law: "ChiSquared", params: format!("({})", k), regime, sample: Box::new(move || d.sample()), bulk: Some(std::sync::Arc::new(move |n, mat| if mat { d.sample_matrix(n, 1).data.v.clone() } else { d.sample_n(n).to_vec() })), decl: decl(run, 1, 4, false), cdf: std::sync::Arc::new(move |x| chi2_cdf(k as f64, x)), support: (0.0, inf), degenerate: None });
    }
    // Poisson PTRS
    for &l in &[10.0, 42.0, 149.0, 150.0, 500.0, 1500.0, 20000.0] {
        let d = Poisson::new(l);
        v.push(Case { law: "Poisson", params: format!("({})", l), regime: if l >= 150.0 { "rate>=150 (PTRS)" } else { "rate>=10 (PTRS)" }, sample: Box::new(move || d.sample()), bulk: Some(std::sync::Arc::new(move |n, mat| if mat { d.sample_matrix(n, 1).data.v.clone() } else { d.sample_n(n).to_vec() })), decl: decl(run, 0, 2, true), cdf: std::sync::Arc::new(move |x| poisson_cdf(l, x)), support: (0.0, inf), degenerate: None });
    }
    // Binomial
    let mut bin_cases: Vec<(u64, f64)> = vec![(63, 0.5), (64, 0.5), (65, 0.5), (16, 0.5)];
    if run.thorough() {
        bin_cases.extend([(8, 0.5), (32, 0.5), (128, 0.5), (256, 0.25), (1024, 0.5)]);
    }
    bin_cases.extend_from_slice(&[(15u64, 0.3), (70, 0.3), (20, 0.5), (15, 0.7), (1, 0.5), (40, 0.01), (70, 0.5), (200, 0.4), (1000, 0.3), (100, 0.8), (1000, 0.97), (10, 0.0), (10, 1.0), (10, 1.0 - 1.1102230246251565e-16), (0, 0.4), (400, 0.375), (400, 0.625), (1000, 0.75), (1000, 0.25)]);
    for &(n, p) in &bin_cases {
        let d = Binomial::new(n, p);
        let q = p.min(1.0 - p);
        let regime = if n == 0 || p == 0.0 || (p - 1.0).abs() <= f64::EPSILON { "degenerate" } else if q * n as f64 <= 30.0 { if p > 0.5 { "inversion,p>0.5" } else { "inversion" } } else if p > 0.5 { "BTPE,p>0.5" } else { "BTPE" };
        let degenerate = if n == 0 || p == 0.0 { Some(0.0) } else if (p - 1.0).abs() <= f64::EPSILON { Some(n as f64) } else { None };
        let mut dc = decl(run, 0, 2, true);
        if regime.starts_with("BTPE") && !run.thorough() {
            dc.gu[0] = 1 << 11; // two value-producing draws: the first one coarser in the quick tier
        }
        v.push(Case { law: "Binomial", params: format!("({}, {})", n, p), regime, sample: Box::new(move || d.sample()), bulk: Some(std::sync::Arc::new(move |n, mat| if mat { d.sample_matrix(n, 1).data.v.clone() } else { d.sample_n(n).to_vec() })), decl: dc, cdf: std::sync::Arc::new(move |x| binom_cdf(n as f64, p, x)), support: (0.0, n as f64), degenerate });
    }
    v
}

/// The property's own criterion on a real seeded stream: n draws, termination under a watchdog,
/// support, and the sup-distance of the empirical distribution function from the reference CDF.
/// Used (a) to confirm a disagreement found by the exact engine before it is reported — the engine
/// models rejection loops as memoryless restarts within a declared draw structure, and a sampler
/// rewritten outside that model must not be accused on the engine's word alone — and (b) to decide
/// a case the engine cannot represent at all. Sampled: false-alarm probability 1e-12 per case.
struct StreamVerdict {
    n: usize,
    seed: u64,
    terminated: bool,
    panic: Option<String>,
    outside: Option<f64>,
    d: f64,
    at: f64,
    eps: f64,
}
impl StreamVerdict {
    fn fails(&self) -> bool {
        !self.terminated || self.panic.is_some() || self.outside.is_some() || !(self.d <= self.eps)
    }
    fn describe(&self) -> String {
        if !self.terminated {
            format!("on the generator seeded with {} the sampler consumed more than 1000 words per draw over {} draws", self.seed, self.n)
        } else if let Some(p) = &self.panic {
            format!("on the generator seeded with {}: panic {}", self.seed, p)
        } else if let Some(v) = self.outside {
            format!("on the generator seeded with {} a draw {:e} left the support", self.seed, v)
        } else {
            format!("the empirical distribution of {} draws from the generator seeded with {} is at sup-distance {:.5} (at x = {:e}) from the true CDF, band {:.5}", self.n, self.seed, self.d, self.at, self.eps)
        }
    }
}
/// draws of the stream criterion: 4e6 (band 1.9e-3); the quick tier uses 1e6 (band 3.8e-3, still less than half
/// the quick band 8.4e-3 of the exact engine, so that a deviation the engine reports is confirmed)
static STREAM_N: std::sync::atomic::AtomicUsize = std::sync::atomic::AtomicUsize::new(4_000_000);
fn stream_check(sample: &(dyn Fn() -> f64 + Sync), cdf: &dyn Fn(f64) -> f64, support: (f64, f64), discrete: bool, seed: u64) -> StreamVerdict {
    let n = STREAM_N.load(std::sync::atomic::Ordering::Relaxed);
    let eps = ((2.0f64 / 1e-12).ln() / (2.0 * n as f64)).sqrt();
    let mut v = StreamVerdict { n, seed, terminated: true, panic: None, outside: None, d: 0.0, at: f64::NAN, eps };
    alea::set_seed(seed);
    script::reset_draws();
    script::set_draw_limit(Some(1000 * n as u64));
    let r = guard(|| (0..n).map(|_| sample()).collect::<Vec<f64>>());
    script::set_draw_limit(None);
    let mut xs = match r {
        Ok(x) => x,
        Err(p) => {
            if p.contains("livelock") {
                v.terminated = false;
            } else {
                v.panic = Some(p);
            }
            return v;
        }
    };
    if let Some(bad) = xs.iter().find(|x| !(**x >= support.0 && **x <= support.1) || (discrete && x.fract() != 0.0)) {
        v.outside = Some(*bad);
        return v;
    }
    xs.sort_by(|a, b| a.partial_cmp(b).unwrap_or(std::cmp::Ordering::Equal));
    let mut i = 0usize;
    while i < n {
        let x = xs[i];
        let mut j = i;
        while j < n && xs[j] == x {
            j += 1;
        }
        let f = cdf(x);
        let fminus = if discrete { cdf(x - 1.0) } else if j - i > 1 { f64::NAN } else { f };
        let mut d = (f - j as f64 / n as f64).abs();
        if fminus.is_finite() {
            d = d.max((fminus - i as f64 / n as f64).abs());
        }
        if d > v.d {
            v.d = d;
            v.at = x;
        }
        i = j;
    }
    v
}

/// a disagreement of the exact engine is reported only if the stream criterion confirms it;
/// returns true when the case may be counted as holding
fn confirm_or_clear(run: &Run, key: &str, what: &str, engine_says: String, sample: &(dyn Fn() -> f64 + Sync), cdf: &dyn Fn(f64) -> f64, support: (f64, f64), discrete: bool) -> bool {
    let seed = 0xC03_5EED ^ crate::common::run::hash_of(&what.to_string()) >> 20;
    let sv = stream_check(sample, cdf, support, discrete, seed);
    run.trs(sv.n as u64);
    if sv.fails() {
        let k = if !sv.terminated { key.rsplit_once('/').map(|(a, _)| format!("{}/does-not-terminate", a)).unwrap_or(key.to_string()) } else { key.to_string() };
        run.violate(&k, || format!("{}: {}; confirmed: {}", what, engine_says, sv.describe()));
        false
    } else {
        run.cap(&format!("{}: the exact engine could not decide or disagreed ({}), the property's criterion on {} seeded draws holds (sup-distance {:.5} ≤ {:.5}); draw structure outside the engine's model — decided by the sampled criterion only", what, crate::common::run::truncate(&engine_says, 160), sv.n, sv.d, sv.eps));
        run.regime("decided by the sampled criterion (engine inconclusive)");
        true
    }
}

/// bulk draws follow the same law: `sample_n(1)` through the exact engine (every scripted answer), and the
/// pooled values of many small bulk calls of odd and even sizes (sample_n and sample_matrix) by the
/// property's criterion on a seeded stream
fn bulk_case(run: &Run, c: &Case, eps: f64) {
    let Some(b) = c.bulk.clone() else { return };
    let law: &'static str = Box::leak(format!("{}.sample_n(1)", c.law).into_boxed_str());
    let b1 = b.clone();
    let one = Case { law, params: c.params.clone(), regime: c.regime, sample: Box::new(move || b1(1, false)[0]), bulk: None, decl: c.decl, cdf: c.cdf.clone(), support: c.support, degenerate: c.degenerate };
    run_case(run, &one, eps);
    if c.degenerate.is_some() {
        return;
    }
    let buf = std::sync::Mutex::new((Vec::<f64>::new(), 0usize));
    let pooled = move || {
        let mut g = buf.lock().unwrap();
        if g.0.is_empty() {
            let k = g.1;
            g.1 += 1;
            // sizes 1, 2, 3, 5, 7, 4, 9 by sample_n; 1, 3, 5 by sample_matrix
            let (n, mat) = [(1, false), (3, false), (2, false), (5, false), (3, true), (7, false), (1, true), (4, false), (9, false), (5, true)][k % 10];
            let mut v = b(n, mat);
            v.reverse();
            g.0 = v;
        }
        g.0.pop().unwrap_or(f64::NAN)
    };
    // many consecutive bulk calls of 32..400 draws (successive calls continue the stream: pooled, they are as good a
    // sample as single draws)
    {
        let b2 = c.bulk.clone().unwrap();
        let buf2 = std::sync::Mutex::new((Vec::<f64>::new(), 0usize));
        let pooled2 = move || {
            let mut g = buf2.lock().unwrap();
            if g.0.is_empty() {
                let k = g.1;
                g.1 += 1;
                let (n, mat) = [(100, false), (64, false), (33, true), (400, false), (32, false), (257, true)][k % 6];
                let mut v = b2(n, mat);
                v.reverse();
                g.0 = v;
            }
            g.0.pop().unwrap_or(f64::NAN)
        };
        let what2 = format!("{}{} consecutive bulk draws (sample_n of 32..400, sample_matrix of 33 and 257 rows), values pooled", c.law, c.params);
        let sv = stream_check(&pooled2, &*c.cdf, c.support, c.decl.discrete, 0xB02C ^ crate::common::run::hash_of(&what2) >> 20);
        run.case();
        run.trs(sv.n as u64);
        run.ok();
        if sv.fails() {
            run.violate(&format!("{}/bulk-consecutive/law", c.law), || format!("{}: {}", what2, sv.describe()));
        } else {
            run.regime("bulk-consecutive:stream-dkw");
        }
    }
    let what = format!("{}{} small bulk draws (sample_n of 1..9, sample_matrix of 1..5 rows), values pooled", c.law, c.params);
    let sv = stream_check(&pooled, &*c.cdf, c.support, c.decl.discrete, 0xB01C ^ crate::common::run::hash_of(&what) >> 20);
    run.case();
    run.trs(sv.n as u64);
    run.ok();
    if sv.fails() {
        run.violate(&format!("{}/bulk-small/law", c.law), || format!("{}: {}", what, sv.describe()));
    } else {
        run.regime("bulk-small:stream-dkw");
    }
}

fn run_case(run: &Run, c: &Case, eps: f64) -> Option<Explored> {
    let f = &*c.sample;
    let ex = Explorer::new(f, c.decl).explore();
    run.cases(ex.leaves.len() as u64);
    run.trs(ex.runs);
    run.oks(ex.leaves.len() as u64);
    run.nontrivial(ex.leaves.iter().filter(|l| l.script.len() > 1).count() as u64);
    let site = format!("{}/{}", c.law, c.regime);
    let desc = || format!("{}{}", c.law, c.params);
    // termination
    let dec = c.decl.discrete;
    let confirm = |key: &str, engine: String| confirm_or_clear(run, key, &desc(), engine, f, &*c.cdf, c.support, dec);
    let settle = |ok: bool| -> Option<Explored> {
        if ok {
            run.regime(&format!("{}:{}", c.law, c.regime));
        }
        None
    };
    if !ex.livelocks.is_empty() {
        run.outcome(&(&site, "livelock"));
        // a scripted stream on which the sampler never stops is a verdict only if a real stream shows it too
        return settle(confirm(&format!("{}/does-not-terminate", site), format!("sample() keeps drawing after the script {:?} (20000 further default answers consumed)", short(&ex.livelocks[0]))));
    }
    if !ex.panics.is_empty() {
        run.outcome(&(&site, "panic"));
        run.violate(&format!("{}/panic", site), || format!("{}: sample() panicked ({}) on the script {:?}", desc(), ex.panics[0].0, short(&ex.panics[0].1)));
    }
    if !ex.structure_errors.is_empty() {
        return settle(confirm(&format!("{}/law", site), format!("engine: {}", ex.structure_errors[0])));
    }
    if ex.leaves.is_empty() || ex.accepted <= 0.0 {
        if ex.panics.is_empty() {
            return settle(confirm(&format!("{}/law", site), format!("engine: no accepted path within the declared draw structure (words {}, units {})", c.decl.max_words, c.decl.max_units)));
        }
        return None;
    }
    let lost = 1.0 - ex.accepted - ex.rejected;
    if ex.panics.is_empty() && lost.abs() > 1e-6 {
        return settle(confirm(&format!("{}/law", site), format!("engine: explored mass does not add up (accepted {} + rejected {})", ex.accepted, ex.rejected)));
    }
    if ex.accepted < 0.2 {
        return settle(confirm(&format!("{}/law", site), format!("engine: accepted mass {} below 0.2, the sampler does not fit the declared draw structure", ex.accepted)));
    }
    // support and integrality on every leaf
    for l in &ex.leaves {
        if !(l.lo >= c.support.0 && l.hi <= c.support.1) || !l.lo.is_finite() || !l.hi.is_finite() {
            run.violate(&format!("{}/outside-support", site), || format!("{}: draw {:e}..{:e} outside [{:e},{:e}] on script {:?}", desc(), l.lo, l.hi, c.support.0, c.support.1, short(&l.script)));
            break;
        }
        if c.decl.discrete && (l.lo.fract() != 0.0 || l.hi.fract() != 0.0) {
            // a value that was actually returned on a concrete script
            run.violate(&format!("{}/not-integer", site), || format!("{}: non-integer draw {:e}..{:e} on script {:?}", desc(), l.lo, l.hi, short(&l.script)));
            break;
        }
    }
    if c.decl.discrete && ex.leaves.iter().any(|l| l.lo != l.hi) {
        return settle(confirm(&format!("{}/law", site), "engine: a cell of generator answers yields several different integers (the partition of raw words does not resolve this sampler)".to_string()));
    }
    if let Some(pt) = c.degenerate {
        if ex.leaves.iter().any(|l| l.lo != pt || l.hi != pt) {
            run.violate(&format!("{}/degenerate-law", site), || format!("{}: a draw differs from the single support point {}", desc(), pt));
        } else {
            run.outcome(&(&site, "point-mass"));
            run.regime(&format!("{}:{}", c.law, c.regime));
        }
        return Some(ex);
    }
    let (d, at) = if c.decl.discrete {
        let (d, at, _) = sup_distance_discrete(&ex.leaves, ex.accepted, &*c.cdf);
        (d, at)
    } else {
        sup_distance(&ex.leaves, ex.accepted, &*c.cdf)
    };
    if std::env::var("VERIF_DEBUG_LAW").map(|v| desc().contains(&v)).unwrap_or(false) {
        let mut ls: Vec<&Leaf> = ex.leaves.iter().collect();
        ls.sort_by(|a, b| a.lo.partial_cmp(&b.lo).unwrap());
        let mut cum = 0.0;
        let mut dump = String::new();
        for (i, l) in ls.iter().enumerate() {
            cum += l.mass / ex.accepted;
            if i < 6 || i + 6 > ls.len() || i % (ls.len() / 12).max(1) == 0 {
                dump += &format!("\n  #{} lo={:e} hi={:e} mass={:e} cum={:.6} ref(hi)={:.6}", i, l.lo, l.hi, l.mass, cum, (c.cdf)(l.hi));
            }
        }
        run.machinery_error(format!("DEBUG {} d={} at={:e}{}", desc(), d, at, dump));
    }
    if !(d <= eps) {
        run.outcome(&(&site, "law-bad"));
        if confirm(&format!("{}/law", site), format!("sup-distance between the sampler's law (ideal generator, {} leaves, accepted mass {:.4}, rejected {:.4}) and the true CDF is {:.5} at x = {:e}, band {:.5}", ex.leaves.len(), ex.accepted, ex.rejected, d, at, eps)) {
            run.regime(&format!("{}:{}", c.law, c.regime));
        }
    } else {
        run.outcome(&(&site, "law-ok", (d * 1e4) as u64));
        run.regime(&format!("{}:{}", c.law, c.regime));
    }
    run.extra(&format!("law_{}{}", c.law, c.params), serde_json::json!({"leaves": ex.leaves.len(), "runs": ex.runs, "accepted": ex.accepted, "rejected": ex.rejected, "sup_distance": d, "at": at}));
    Some(ex)
}

fn short(s: &[Ans]) -> Vec<String> {
    s.iter().take(6).map(|a| format!("{:?}", a)).collect()
}

/// Q representative scripts of equal mass, ordered by value
fn quantile_reps(leaves: &[Leaf], q: usize) -> Vec<Vec<Ans>> {
    let mut idx: Vec<usize> = (0..leaves.len()).collect();
    idx.sort_by(|&a, &b| (leaves[a].lo + leaves[a].hi).partial_cmp(&(leaves[b].lo + leaves[b].hi)).unwrap());
    let total: f64 = leaves.iter().map(|l| l.mass).sum();
    let mut out = Vec::with_capacity(q);
    let mut cum = 0.0;
    let mut k = 0usize;
    for &i in &idx {
        let next = cum + leaves[i].mass / total;
        while k < q && (k as f64 + 0.5) / q as f64 <= next {
            out.push(leaves[i].script.clone());
            k += 1;
        }
        cum = next;
    }
    while out.len() < q {
        out.push(leaves[*idx.last().unwrap()].script.clone());
    }
    out
}

/// equal-mass representative scripts of a directly explorable sampler
fn reps_of(run: &Run, what: &str, f: &(dyn Fn() -> f64 + Sync), d: Decl, q: usize) -> Result<Vec<Vec<Ans>>, String> {
    let e = Explorer::new(f, d).explore();
    run.trs(e.runs);
    if !e.livelocks.is_empty() {
        return Err(format!("does-not-terminate|{}: the component sampler keeps drawing (livelock)", what));
    }
    if let Some(p) = e.panics.first() {
        return Err(format!("panic|{}: the component sampler panicked: {}", what, p.0));
    }
    if e.leaves.is_empty() || e.accepted < 0.2 {
        return Err(format!("machinery|{}: no accepted path within the declared draw structure", what));
    }
    Ok(quantile_reps(&e.leaves, q))
}

/// run the real composite sampler on every combination of stage scripts; returns (value, script)
fn compose(run: &Run, stages: &[Vec<Vec<Ans>>], whole: &(dyn Fn() -> f64 + Sync)) -> Result<Vec<(f64, Vec<Ans>)>, String> {
    let total: usize = stages.iter().map(|s| s.len()).product();
    let mut out = Vec::with_capacity(total);
    let mut bad = 0usize;
    for code in 0..total {
        let mut s: Vec<Ans> = Vec::new();
        let mut c = code;
        for st in stages {
            s.extend_from_slice(&st[c % st.len()]);
            c /= st.len();
        }
        script::install(s.clone(), 4);
        let r = guard(|| whole());
        let rep = script::uninstall();
        run.tr();
        match r {
            Ok(v) if rep.defaults == 0 && rep.consumed == s.len() && !rep.kind_mismatch => out.push((v, s)),
            Ok(_) => bad += 1,
            Err(e) => return Err(format!("panic|sample() panicked on a composed script: {}", e)),
        }
    }
    if bad > 0 {
        return Err(format!("machinery|{} of {} composed scripts were not consumed exactly (stage structure differs from the declaration): inconclusive", bad, total));
    }
    Ok(out)
}

/// equal-mass representatives of (value, script) atoms of equal mass
fn reduce(mut atoms: Vec<(f64, Vec<Ans>)>, q: usize) -> Vec<Vec<Ans>> {
    atoms.sort_by(|a, b| a.0.partial_cmp(&b.0).unwrap());
    let n = atoms.len();
    (0..q).map(|k| atoms[((k as f64 + 0.5) / q as f64 * n as f64) as usize].1.clone()).collect()
}

/// representative scripts for Gamma(a, b): directly for a ≥ 1, through the boost composition
/// Gamma(a+1) × U for a < 1
fn gamma_reps(run: &Run, a: f64, b: f64, q: usize) -> Result<Vec<Vec<Ans>>, String> {
    if a >= 1.0 {
        let g = Gamma::new(a, b);
        reps_of(run, &format!("Gamma({}, {})", a, b), &move || g.sample(), decl(run, 1, 4, false), q)
    } else {
        let q1 = run.tier.pick(192usize, 512usize);
        let (core, u, whole) = (Gamma::new(a + 1.0, b), Uniform::new(0.0, 1.0), Gamma::new(a, b));
        let s1 = reps_of(run, &format!("Gamma({}, {}) [boost core]", a + 1.0, b), &move || core.sample(), decl(run, 1, 4, false), q1)?;
        let s2 = reps_of(run, "Uniform(0, 1) [boost draw]", &move || u.sample(), decl(run, 0, 1, false), 2 * q1)?;
        let atoms = compose(run, &[s1, s2], &move || whole.sample())?;
        Ok(reduce(atoms, q))
    }
}

fn judge_composed(run: &Run, law: &'static str, params: String, regime: &'static str, res: Result<Vec<(f64, Vec<Ans>)>, String>, cdf: &dyn Fn(f64) -> f64, support: (f64, f64), eps: f64, whole: &(dyn Fn() -> f64 + Sync)) {
    let site = format!("{}/{}", law, regime);
    let atoms = match res {
        Ok(a) => a,
        Err(e) => {
            let (kind, msg) = e.split_once('|').unwrap_or(("machinery", &e));
            if kind == "panic" {
                // a panic on a concrete answer script is a witness in itself
                run.outcome(&(&site, kind));
                run.violate(&format!("{}/{}", site, kind), || format!("{}{}: {}", law, params, msg));
            } else {
                // the staged engine could not represent the sampler (or saw it loop on a script): the
                // property's criterion on a real stream decides
                let key = if kind == "does-not-terminate" { format!("{}/does-not-terminate", site) } else { format!("{}/law", site) };
                if confirm_or_clear(run, &key, &format!("{}{}", law, params), format!("engine: {}", msg), whole, cdf, support, false) {
                    run.regime(&format!("{}:{}", law, regime));
                }
            }
            return;
        }
    };
    run.cases(atoms.len() as u64);
    run.oks(atoms.len() as u64);
    run.nontrivial(atoms.len() as u64);
    for (v, s) in &atoms {
        if !(*v >= support.0 && *v <= support.1) {
            run.violate(&format!("{}/outside-support", site), || format!("{}{}: draw {:e} outside the support on script {:?}", law, params, v, short(s)));
            break;
        }
    }
    let leaves: Vec<Leaf> = atoms.iter().map(|(v, _)| Leaf { lo: *v, hi: *v, mass: 1.0, script: Vec::new() }).collect();
    let (d, at) = sup_distance(&leaves, leaves.len() as f64, cdf);
    if !(d <= eps) {
        run.outcome(&(&site, "law-bad"));
        if confirm_or_clear(run, &format!("{}/law", site), &format!("{}{}", law, params), format!("sup-distance between the sampler's law ({} composed stage scripts run on the real sampler) and the true CDF is {:.5} at x = {:e}, band {:.5}", leaves.len(), d, at, eps), whole, cdf, support, false) {
            run.regime(&format!("{}:{}", law, regime));
        }
    } else {
        run.outcome(&(&site, "law-ok"));
        run.regime(&format!("{}:{}", law, regime));
    }
    run.extra(&format!("law_{}{}", law, params), serde_json::json!({"composed_scripts": leaves.len(), "sup_distance": d, "at": at}));
}

/// multiplication-method Poisson: path-wise agreement with the product-of-uniforms model
fn poisson_mult(run: &Run) {
    let letters = [0.999, 0.9, 0.7, 0.5, 0.3, 0.1, 0.01, 1e-5];
    let depth = run.tier.pick(6usize, 7usize);
    for &lam in &[0.5, 3.0, 9.5] {
        let d = Poisson::new(lam);
        let limit = DD::new((-lam).exp());
        let mismatch: std::sync::Mutex<Option<String>> = std::sync::Mutex::new(None);
        let total = 8u64.pow(depth as u32);
        (0..total).into_par_iter().for_each(|idx| {
            let mut s = Vec::with_capacity(depth);
            let mut i = idx;
            for _ in 0..depth {
                s.push(letters[(i % 8) as usize]);
                i /= 8;
            }
            // model: count = number of factors needed before the running product drops to e^-λ or below;
            // after the script the draws are 1e-9 (the shim's default), which ends the product at once
            let mut prod = DD::ONE;
            let mut count = 0u32;
            let mut near_tie = false;
            let mut used = 0usize;
            loop {
                let u = if used < depth { s[used] } else { 1e-9 };
                used += 1;
                prod = prod * DD::new(u);
                if ((prod - limit).abs().f()) < 1e-13 * limit.f() {
                    near_tie = true;
                }
                if prod.f() <= limit.f() {
                    break;
                }
                count += 1;
            }
            if near_tie {
                run.skip("product within rounding of the limit");
                return;
            }
            run.case();
            run.tr();
            run.ok();
            run.nontrivial(1);
            script::install_with_defaults(s.iter().map(|&u| Ans::Unit(u)).collect(), 64, 0x101, 1e-9);
            let r = guard(|| d.sample());
            let rep = script::uninstall();
            match r {
                Ok(v) => {
                    if v != count as f64 || rep.trace.len() != used {
                        // either a wrong count or a sampler that is not the multiplication method at all:
                        // path-wise agreement proves the law, disagreement only sends the case to the
                        // stream criterion below
                        run.outcome(&("pois-mult", "differs"));
                        let mut m = mismatch.lock().unwrap();
                        if m.is_none() {
                            *m = Some(format!("on uniforms {:?}(then 1e-9) it returned {} after {} draws; the product of uniforms falls to e^-lambda after {} draws, count {}", s, v, rep.trace.len(), used, count));
                        }
                    } else {
                        run.outcome(&("pois-mult", count.min(9)));
                        run.regime("Poisson:rate<10 (multiplication)");
                    }
                }
                Err(e) => run.violate("Poisson/rate<10 (multiplication)/panic", || format!("Poisson({}) on uniforms {:?}: {}", lam, s, e)),
            }
        });
        if let Some(m) = mismatch.into_inner().unwrap() {
            if confirm_or_clear(run, "Poisson/rate<10 (multiplication)/count", &format!("Poisson({})", lam), m, &move || d.sample(), &move |x| poisson_cdf(lam, x), (0.0, f64::INFINITY), true) {
                run.regime("Poisson:rate<10 (multiplication)");
            }
        }
    }
}

/// small dense solve (Gaussian elimination with partial pivoting), for d ≤ 4
fn small_solve(a: &[f64], b: &[f64], d: usize) -> Option<Vec<f64>> {
    let mut m: Vec<f64> = a.to_vec();
    let mut x: Vec<f64> = b.to_vec();
    for c in 0..d {
        let piv = (c..d).max_by(|&i, &j| m[i * d + c].abs().partial_cmp(&m[j * d + c].abs()).unwrap())?;
        if m[piv * d + c].abs() < 1e-12 {
            return None;
        }
        for k in 0..d {
            m.swap(c * d + k, piv * d + k);
        }
        x.swap(c, piv);
        for r in c + 1..d {
            let f = m[r * d + c] / m[c * d + c];
            for k in c..d {
                m[r * d + k] -= f * m[c * d + k];
            }
            x[r] -= f * x[c];
        }
    }
    for r in (0..d).rev() {
        for k in r + 1..d {
            x[r] -= m[r * d + k] * x[k];
        }
        x[r] /= m[r * d + r];
    }
    Some(x)
}

/// Multivariate normal: a draw must be μ + A·z for the standard normals z it pulls and *some* factor
/// A with A·Aᵀ = Σ (which factor, and in which order the normals are used, is the implementation's
/// business). A is recovered column by column from scripted normals by changing one at a time.
fn mvn_affine(run: &Run) {
    // integer SPD covariances with exact integer Cholesky factors
    let dims = run.tier.pick(3usize, 4usize);
    let std = Normal::default();
    let z_of = |w: u64| -> Option<f64> {
        script::install(vec![Ans::Word(w)], 0);
        let r = guard(|| std.sample());
        let rep = script::uninstall();
        match r {
            Ok(v) if rep.consumed == 1 && rep.defaults == 0 => Some(v),
            _ => None,
        }
    };
    // a pool of words each of which yields a standard normal directly (one request, no rejection)
    let mut pool: Vec<(u64, f64)> = Vec::new();
    let mut w = 0x2545_f491_4f6c_dd1du64;
    let mut tried = 0usize;
    // (bounded: a normal sampler that never finishes on a single word leaves the pool empty, and the
    // scripted part below is skipped in favour of the stream criterion)
    while pool.len() < 24 && tried < 4000 {
        tried += 1;
        w = w.wrapping_mul(6364136223846793005).wrapping_add(1442695040888963407);
        let cand = w >> 11;
        if let Some(z) = z_of(cand) {
            if pool.iter().all(|(_, q)| (q - z).abs() > 1e-3) {
                pool.push((cand, z));
            }
        }
    }
    let scripted_normals = pool.len() == 24;
    if !scripted_normals {
        run.skip("the standard normal sampler does not produce a draw from a single generator word: MVN is decided by the stream criterion only");
        run.regime("MVN: draw structure undecided by scripts");
    }
    for d in 1..=dims {
        let ls: Vec<(&str, Vec<f64>)> = vec![
            ("ones-lower", (0..d * d).map(|t| if t % d <= t / d { 1.0 } else { 0.0 }).collect()),
            ("graded-lower", (0..d * d).map(|t| if t % d < t / d { ((t / d + t % d) % 3) as f64 - 1.0 } else if t % d == t / d { (t / d + 1) as f64 } else { 0.0 }).collect()),
        ];
        for (lname, l) in ls {
            // Σ = L Lᵀ exactly (small integers)
            let mut sigma = vec![0.0; d * d];
            for i in 0..d {
                for j in 0..d {
                    sigma[i * d + j] = (0..d).map(|k| l[i * d + k] * l[j * d + k]).sum();
                }
            }
            let snorm = sigma.iter().fold(0.0f64, |a, b| a.max(b.abs()));
            let mu: Vec<f64> = (0..d).map(|i| [0.5, -2.0, 10.0, 0.0][i]).collect();
            let mvn = match guard(|| MVN::new(Vector::new(mu.clone()), Matrix::new(sigma.clone(), d as i32, d as i32))) {
                Ok(m) => m,
                Err(e) => {
                    run.violate("MVN/new-panic", || format!("dim {} {}: {}", d, lname, e));
                    continue;
                }
            };
            // the two public ways of drawing one vector
            let single = |ws: &[u64]| -> Option<Vec<f64>> {
                script::install(ws.iter().map(|&w| Ans::Word(w)).collect(), 0);
                let r = guard(|| mvn.sample().v.clone());
                let rep = script::uninstall();
                match r {
                    Ok(x) if rep.defaults == 0 && !rep.kind_mismatch && rep.consumed == ws.len() && x.len() == d => Some(x),
                    _ => None,
                }
            };
            let bulk_n = |ws: &[u64], n: usize| -> Option<Vec<f64>> {
                script::install(ws.iter().map(|&w| Ans::Word(w)).collect(), 0);
                let r = guard(|| {
                    let m = mvn.sample_n(n);
                    (m.shape(), m.data.v.clone())
                });
                let rep = script::uninstall();
                match r {
                    Ok((sh, x)) if rep.defaults == 0 && !rep.kind_mismatch && rep.consumed == ws.len() && sh == [n, d] && x.len() == n * d => Some(x),
                    _ => None,
                }
            };
            for (path, is_bulk) in [("sample", false), ("sample_n", true)] {
                if !scripted_normals {
                    break;
                }
                let draw1 = |ws: &[u64]| if is_bulk { bulk_n(ws, 1) } else { single(ws) };
                run.case();
                run.tr();
                let base: Vec<u64> = pool[..d].iter().map(|p| p.0).collect();
                let z0: Vec<f64> = pool[..d].iter().map(|p| p.1).collect();
                let x0 = match draw1(&base) {
                    Some(x) => x,
                    None => {
                        // not "d standard normals, one generator word each": left to the distributional test below
                        run.skip("MVN draw structure is not one scripted normal per coordinate");
                        run.regime("MVN: draw structure undecided by scripts");
                        continue;
                    }
                };
                run.ok();
                run.nontrivial(1);
                // recover A column by column
                let mut a = vec![0.0; d * d];
                let mut okc = true;
                for k in 0..d {
                    let mut ws = base.clone();
                    ws[k] = pool[d + k].0;
                    match draw1(&ws) {
                        Some(xk) => {
                            for i in 0..d {
                                a[i * d + k] = (xk[i] - x0[i]) / (pool[d + k].1 - z0[k]);
                            }
                        }
                        None => okc = false,
                    }
                }
                if !okc {
                    run.skip("MVN draw structure changes with the answers");
                    continue;
                }
                // A·Aᵀ = Σ
                let mut worst = 0.0f64;
                for i in 0..d {
                    for j in 0..d {
                        let v: f64 = (0..d).map(|k| a[i * d + k] * a[j * d + k]).sum();
                        worst = worst.max((v - sigma[i * d + j]).abs());
                    }
                }
                if !(worst <= 1e-9 * snorm) {
                    run.outcome(&("mvn", path, "bad-factor"));
                    run.violate(&format!("MVN/{}/covariance-of-the-affine-map", path), || format!("dim {} covariance {:?} ({}): {} maps the standard normals through A = {:?}, and A·Aᵀ differs from the covariance by {:e}", d, sigma, lname, path, a, worst));
                    continue;
                }
                // x = μ + A z on every script over 5 words per coordinate
                let total = 5usize.pow(d as u32);
                let mut affine_ok = true;
                for code in 0..total {
                    let sel: Vec<usize> = (0..d).map(|i| 2 * d + (code / 5usize.pow(i as u32)) % 5).collect();
                    let ws: Vec<u64> = sel.iter().map(|&i| pool[i].0).collect();
                    let zs: Vec<f64> = sel.iter().map(|&i| pool[i].1).collect();
                    run.case();
                    run.tr();
                    run.ok();
                    match draw1(&ws) {
                        Some(x) => {
                            let want: Vec<f64> = (0..d).map(|i| mu[i] + (0..d).map(|k| a[i * d + k] * zs[k]).sum::<f64>()).collect();
                            let scale = zs.iter().fold(1.0f64, |m, z| m.max(z.abs())) * snorm.sqrt() * (d as f64) + 10.0;
                            if x.iter().zip(&want).any(|(p, q)| !((p - q).abs() <= 1e-9 * scale)) {
                                affine_ok = false;
                                run.outcome(&("mvn", path, "bad"));
                                run.violate(&format!("MVN/{}/draw-not-mean-plus-A-z", path), || format!("dim {} factor {} z={:?}: draw {:?}, mean + A z = {:?}", d, lname, zs, x, want));
                                break;
                            }
                        }
                        None => {
                            run.skip("MVN draw structure changes with the answers");
                        }
                    }
                }
                if affine_ok {
                    run.outcome(&("mvn", path, "ok", d));
                    run.regime(if is_bulk { "MVN:bulk-affine" } else { "MVN:affine" });
                }
                // several rows at once: each row is μ + A·(its own d normals); whitening the rows with
                // A must give back the scripted normals as a multiset, whatever the order of use
                if is_bulk && affine_ok {
                    for n in [2usize, 3, 5] {
                        if n * d > pool.len() {
                            continue;
                        }
                        run.case();
                        run.tr();
                        let ws: Vec<u64> = pool[..n * d].iter().map(|p| p.0).collect();
                        match bulk_n(&ws, n) {
                            Some(x) => {
                                run.ok();
                                let mut rec: Vec<f64> = Vec::new();
                                let mut solvable = true;
                                for i in 0..n {
                                    let rhs: Vec<f64> = (0..d).map(|c| x[i * d + c] - mu[c]).collect();
                                    match small_solve(&a, &rhs, d) {
                                        Some(z) => rec.extend(z),
                                        None => solvable = false,
                                    }
                                }
                                let mut want: Vec<f64> = pool[..n * d].iter().map(|p| p.1).collect();
                                rec.sort_by(|p, q| p.partial_cmp(q).unwrap_or(std::cmp::Ordering::Equal));
                                want.sort_by(|p, q| p.partial_cmp(q).unwrap());
                                if !solvable || rec.iter().zip(&want).any(|(p, q)| !((p - q).abs() <= 1e-8)) {
                                    run.violate("MVN/sample_n/rows-not-mean-plus-A-z", || format!("dim {} factor {} sample_n({}): rows {:?}; whitened (sorted) {:?}, scripted normals (sorted) {:?}", d, lname, n, x, rec, want));
                                } else {
                                    run.regime("MVN:bulk-rows");
                                }
                            }
                            None => run.skip("MVN bulk draw structure is not one scripted normal per entry"),
                        }
                    }
                }
            }
            // shapes of bulk draws
            for n in [0usize, 1, 3, 7] {
                alea::set_seed(9);
                run.tr();
                match guard(|| mvn.sample_n(n)) {
                    Ok(m) => {
                        if (n > 0 && m.shape() != [n, d]) || m.data.len() != n * d {
                            run.violate("MVN/sample_n-shape", || format!("sample_n({}) of a {}-dimensional MVN has shape {:?}", n, d, m.shape()));
                        }
                    }
                    Err(e) => {
                        if n > 0 {
                            run.violate("MVN/sample_n-panic", || format!("sample_n({}): {}", n, e))
                        }
                    }
                }
            }
            // the property's own criterion on a real stream, whatever the draw structure: every whitened
            // coordinate and a few projections of n draws within the DKW band of the standard normal
            // (sampled; false-alarm probability 1e-12 per statistic under an ideal generator)
            let n = if run.thorough() { 4_000_000usize } else { 200_000 };
            let eps = band(run);
            for (path, is_bulk) in [("sample", false), ("sample_n", true)] {
                alea::set_seed(0xC03 + d as u64 * 17 + is_bulk as u64);
                let rows: Vec<f64> = match guard(|| {
                    if is_bulk {
                        mvn.sample_n(n).data.v.clone()
                    } else {
                        let mut v = Vec::with_capacity(n * d);
                        for _ in 0..n {
                            v.extend(mvn.sample().v.iter());
                        }
                        v
                    }
                }) {
                    Ok(v) if v.len() == n * d => v,
                    Ok(v) => {
                        run.violate("MVN/sample_n-shape", || format!("{} draws of dimension {} gave {} values", n, d, v.len()));
                        continue;
                    }
                    Err(e) => {
                        run.violate("MVN/sample-panic", || format!("dim {} {}: {}", d, path, e));
                        continue;
                    }
                };
                // whiten with the exact lower factor (forward substitution)
                let mut cols: Vec<Vec<f64>> = vec![Vec::with_capacity(n); d + 2];
                for i in 0..n {
                    let mut zr = vec![0.0; d];
                    for c in 0..d {
                        let mut v = rows[i * d + c] - mu[c];
                        for k in 0..c {
                            v -= l[c * d + k] * zr[k];
                        }
                        zr[c] = v / l[c * d + c];
                    }
                    for c in 0..d {
                        cols[c].push(zr[c]);
                    }
                    // two fixed projections of the whitened vector (unit vectors)
                    let s: f64 = zr.iter().sum::<f64>() / (d as f64).sqrt();
                    let nrm = (0..d).map(|c| ((c + 1) * (c + 1)) as f64).sum::<f64>().sqrt();
                    let t: f64 = zr.iter().enumerate().map(|(c, z)| if c % 2 == 0 { (c + 1) as f64 } else { -((c + 1) as f64) } * z).sum::<f64>() / nrm;
                    cols[d].push(s);
                    cols[d + 1].push(t);
                }
                for (ci, col) in cols.iter_mut().enumerate() {
                    run.case();
                    run.tr();
                    run.ok();
                    col.sort_by(|p, q| p.partial_cmp(q).unwrap_or(std::cmp::Ordering::Equal));
                    let mut dmax = 0.0f64;
                    for (i, v) in col.iter().enumerate() {
                        let f = norm_cdf(*v);
                        dmax = dmax.max((f - i as f64 / n as f64).abs()).max((f - (i + 1) as f64 / n as f64).abs());
                    }
                    if !(dmax <= eps) {
                        run.violate(&format!("MVN/{}/whitened-not-standard-normal", path), || format!("dim {} covariance {:?}: {} of {} draws ({}) is at sup-distance {:e} > {:e} from the standard normal", d, sigma, if ci < d { format!("whitened coordinate {}", ci) } else { format!("projection {}", ci - d) }, n, path, dmax, eps));
                    } else {
                        run.regime("MVN:whitened-dkw");
                    }
                }
            }
        }
    }
}

/// "n independent draws from the law" whatever was sampled before on the thread: each case's sampler is used right
/// after one draw from the previous case of the same law (and from the next one), judged by the property's
/// criterion on a seeded stream (sampled)
fn after_another_object(run: &Run, cs: &[Case]) {
    let pairs: Vec<(usize, usize)> = (0..cs.len()).flat_map(|i| [(i, i + 1), (i + 1, i)]).filter(|&(a, b)| a < cs.len() && b < cs.len() && cs[a].law == cs[b].law && cs[b].degenerate.is_none()).collect();
    pairs.par_iter().for_each(|&(a, b)| {
        let (first, second) = (&cs[a], &cs[b]);
        let started = std::sync::atomic::AtomicBool::new(false);
        let f = || {
            if !started.swap(true, std::sync::atomic::Ordering::Relaxed) {
                let _ = (first.sample)();
            }
            (second.sample)()
        };
        let what = format!("{}{} sampled right after one draw from {}{} on the same thread", second.law, second.params, first.law, first.params);
        let sv = stream_check(&f, &*second.cdf, second.support, second.decl.discrete, 0xAF7E ^ crate::common::run::hash_of(&what) >> 20);
        run.case();
        run.trs(sv.n as u64);
        run.ok();
        run.nontrivial(1);
        if sv.fails() {
            run.violate(&format!("{}/after-another-object/law", second.law), || format!("{}: {}", what, sv.describe()));
        } else {
            run.regime("after-another-object:stream-dkw");
        }
    });
}

fn bulk(run: &Run) {
    alea::set_seed(12345);
    let d = Normal::new(0.0, 1.0);
    let p = Poisson::new(3.0);
    for n in 0..=64usize {
        run.case();
        run.trs(2);
        run.ok();
        match guard(|| (d.sample_n(n).len(), p.sample_n(n).len())) {
            Ok((a, b)) if a == n && b == n => run.outcome(&("sample_n", n.min(3))),
            Ok((a, b)) => run.violate("bulk/sample_n-length", || format!("sample_n({}) returned {} / {} draws", n, a, b)),
            Err(e) => run.violate("bulk/sample_n-panic", || format!("sample_n({}): {}", n, e)),
        }
    }
    for r in 1..=6usize {
        for c in 1..=6usize {
            run.case();
            run.tr();
            run.ok();
            match guard(|| d.sample_matrix(r, c)) {
                Ok(m) if m.shape() == [r, c] && m.data.len() == r * c => {}
                Ok(m) => run.violate("bulk/sample_matrix-shape", || format!("sample_matrix({}, {}) has shape {:?} with {} values", r, c, m.shape(), m.data.len())),
                Err(e) => run.violate("bulk/sample_matrix-panic", || format!("sample_matrix({}, {}): {}", r, c, e)),
            }
        }
    }
}

pub fn run(run: &Run) {
    match self_test() {
        Ok(n) => run.extra("reference_self_test_rows", serde_json::json!(n)),
        Err(e) => run.machinery_error(e),
    }
    STREAM_N.store(run.tier.pick(1_000_000, 4_000_000), std::sync::atomic::Ordering::Relaxed);
    // the exact engine gets 4 minutes (3 hours) of wall clock in all; what it has not decided by then goes
    // to the stream criterion (on the present tree it needs 15 s / 90 s)
    crate::common::envx::set_deadline_in(run.tier.pick(240, 3 * 3600));
    let eps = band(run);
    run.rule("every sampler × a parameter lattice hitting each algorithm branch; the RNG answers are enumerated: all 128 ziggurat layers × 2 signs × a refined partition of the 24-bit field, unit floats partitioned by continuation signature (gates located by bisection, value-producing draws subdivided 2^13 (2^16) fold, integer outputs split at every jump), bounded integers exhaustively; rejection bound 0 (a request beyond one loop iteration is a memoryless restart, its mass reported; loop-free samplers are declared generously (1 word, 2 units) so that a rewritten draw structure is still explored); the normalised leaf measure is compared with the reference CDF within the DKW band; two-stage samplers (Beta, T) through Q×Q quantile-reduced stage scripts run on the real composite sampler; multiplication-method Poisson path-wise against the product-of-uniforms model on all scripts of depth 6 (7) over 8 letters; MVN (sample and sample_n): the affine map of the scripted normals is recovered column by column and must satisfy A·Aᵀ = Σ and x = μ + A·z on every script over 5 words per coordinate, rows of bulk draws whitened with A must return the scripted normals, and (sampled, the property's own criterion) every whitened coordinate and two projections of 2e5 (4e6) draws lie in the DKW band; non-trivial = leaf reached through more than one draw");
    run.bound("DKW band", format!("{:.5}", eps));
    let cs = cases(run);
    run.sample(|| "Gamma(5, 1): word partition 128 layers x 2 signs x (24+12) cells, wedge gate located on the following float, acceptance gate on u; leaves are uniform segments with exact masses".to_string());
    // samplers composed of stages: quantile-reduced stage scripts run on the real composite sampler
    let q = run.tier.pick(384usize, 2048usize);
    run.bound("quantile reduction", format!("Q = {}", q));
    // Gamma with shape < 1 (boost) and ChiSquared(1)
    // the sections are independent: run them as concurrent tasks (each case installs and removes its
    // own thread-local answer script)
    rayon::scope(|sc| {
        sc.spawn(|_| {
            cs.par_iter().for_each(|c| {
                run_case(run, c, eps);
                bulk_case(run, c, eps);
            });
            after_another_object(run, &cs);
        });
        sc.spawn(|_| {
            let small: Vec<(f64, f64)> = vec![(0.2, 1.0), (0.5, 1.0), (0.9, 4.0)];
            small.par_iter().for_each(|&(a, b)| {
                let q1 = run.tier.pick(512usize, 1536usize);
                let (core, u, whole) = (Gamma::new(a + 1.0, b), Uniform::new(0.0, 1.0), Gamma::new(a, b));
                let res = (|| {
                    let s1 = reps_of(run, &format!("Gamma({}, {}) [boost core]", a + 1.0, b), &move || core.sample(), decl(run, 1, 4, false), q1)?;
                    let s2 = reps_of(run, "Uniform(0, 1) [boost draw]", &move || u.sample(), decl(run, 0, 1, false), 2 * q1)?;
                    compose(run, &[s1, s2], &move || whole.sample())
                })();
                judge_composed(run, "Gamma", format!("({}, {})", a, b), if a < 1.0 / 3.0 { "shape<1/3" } else { "shape<1" }, res, &move |x| gamma_cdf(a, b, x), (0.0, f64::INFINITY), eps, &move || whole.sample());
            });
        });
        sc.spawn(|_| {
            {
                let q1 = run.tier.pick(512usize, 1536usize);
                let (core, u, whole) = (Gamma::new(1.5, 0.5), Uniform::new(0.0, 1.0), ChiSquared::new(1));
                let res = (|| {
                    let s1 = reps_of(run, "Gamma(1.5, 0.5) [boost core]", &move || core.sample(), decl(run, 1, 4, false), q1)?;
                    let s2 = reps_of(run, "Uniform(0, 1) [boost draw]", &move || u.sample(), decl(run, 0, 1, false), 2 * q1)?;
                    compose(run, &[s1, s2], &move || whole.sample())
                })();
                judge_composed(run, "ChiSquared", "(1)".into(), "dof=1 (gamma shape<1)", res, &|x| chi2_cdf(1.0, x), (0.0, f64::INFINITY), eps, &move || whole.sample());
            }
        });
        sc.spawn(|_| {
            // (the last two pairs are reached through the setters from another parameter pair: the cached
            // generators must follow)
            let comps: Vec<(f64, f64, bool)> = vec![(2.0, 4.0, false), (1.0, 1.0, false), (5.0, 1.5, false), (0.5, 0.5, false), (0.2, 3.0, false), (2.0, 4.0, true), (0.5, 3.0, true)];
            comps.par_iter().for_each(|&(a, b, via)| {
                let bt = if via {
                    let mut t = Beta::new(b + 0.75, a + 2.0);
                    t.set_alpha(a);
                    t.set_beta(b);
                    t
                } else {
                    Beta::new(a, b)
                };
                let regime = if a < 1.0 || b < 1.0 { "gamma shape<1" } else { "gamma shape>=1" };
                let res = (|| {
                    let s1 = gamma_reps(run, a, 1.0, q)?;
                    let s2 = gamma_reps(run, b, 1.0, q)?;
                    compose(run, &[s1, s2], &move || bt.sample())
                })();
                judge_composed(run, "Beta", format!("({}, {}){}", a, b, if via { " reached through set_alpha, set_beta" } else { "" }), regime, res, &move |x| beta_cdf(a, b, x), (0.0, 1.0), eps, &move || bt.sample());
            });
        });
        sc.spawn(|_| {
            let nus = [(1.0, false), (2.0, false), (5.0, false), (30.0, false), (5.0, true)];
            nus.par_iter().for_each(|&(nu, via)| {
                let t = if via {
                    let mut t = T::new(nu + 1.5);
                    t.set_dof(nu);
                    t
                } else {
                    T::new(nu)
                };
                let n = Normal::default();
                let regime = if nu < 2.0 { "gamma shape<1" } else { "gamma shape>=1" };
                let res = (|| {
                    let s1 = reps_of(run, "Normal(0, 1)", &move || n.sample(), decl(run, 1, 2, false), q)?;
                    let s2 = gamma_reps(run, nu / 2.0, 1.0, q)?;
                    compose(run, &[s1, s2], &move || t.sample())
                })();
                judge_composed(run, "T", format!("({}){}", nu, if via { " reached through set_dof" } else { "" }), regime, res, &move |x| t_cdf(nu, x), (f64::NEG_INFINITY, f64::INFINITY), eps, &move || t.sample());
            });
        });
        sc.spawn(|_| poisson_mult(run));
        sc.spawn(|_| mvn_affine(run));
        sc.spawn(|_| bulk(run));
    });
    for r in ["Normal:ziggurat", "Gamma:shape>=1", "Poisson:rate>=10 (PTRS)", "Binomial:BTPE", "Binomial:inversion", "Poisson:rate<10 (multiplication)", "MVN:whitened-dkw", "Beta:gamma shape>=1", "T:gamma shape>=1", "Uniform:inverse-cdf"] {
        run.require_regime(r);
    }
    run.assume("what is decided is the sampler's law under an ideal generator on the stated partitions (the stronger statement); the statistical quality of alea's stream is not examined");
    run.assume("rejection loops are memoryless restarts (fresh draws, no state carried round), so the law is the rejection-free leaf measure normalised; rejected mass is reported per case");
    run.assume("multiplication-method Poisson: the count produced on every script equals the product-of-uniforms stopping count; that this stopping count is Poisson distributed is the classical theorem");
}
