//! C04 — element-wise arithmetic and maps are exact at every length and operand form.
//! Engine E3: every length × operator × operand form × value pattern (position-coded and
//! single-position special-value injections); bitwise scalar oracle; reductions against
//! double-double with the worst-case rounding bound.
use crate::common::dd::{self, DD};
use crate::common::guard::is_poison;
use crate::common::refmath::U;
use crate::common::{guard, Run};
use compute::linalg::{self, Matrix, Vector};
use rayon::prelude::*;

const OPS: [char; 4] = ['+', '-', '*', '/'];
fn scalar(op: usize, x: f64, y: f64) -> f64 {
    match op {
        0 => x + y,
        1 => x - y,
        2 => x * y,
        _ => x / y,
    }
}

macro_rules! own_forms {
    ($op:expr, $form:expr, $a:expr, $b:expr) => {
        match ($op, $form) {
            (0, 0) => $a.clone() + $b.clone(),
            (0, 1) => $a.clone() + &$b,
            (0, 2) => &$a + $b.clone(),
            (0, _) => &$a + &$b,
            (1, 0) => $a.clone() - $b.clone(),
            (1, 1) => $a.clone() - &$b,
            (1, 2) => &$a - $b.clone(),
            (1, _) => &$a - &$b,
            (2, 0) => $a.clone() * $b.clone(),
            (2, 1) => $a.clone() * &$b,
            (2, 2) => &$a * $b.clone(),
            (2, _) => &$a * &$b,
            (_, 0) => $a.clone() / $b.clone(),
            (_, 1) => $a.clone() / &$b,
            (_, 2) => &$a / $b.clone(),
            (_, _) => &$a / &$b,
        }
    };
}
macro_rules! assign_forms {
    ($op:expr, $form:expr, $x:expr, $b:expr) => {
        match ($op, $form) {
            (0, 0) => $x += $b.clone(),
            (0, _) => $x += &$b,
            (1, 0) => $x -= $b.clone(),
            (1, _) => $x -= &$b,
            (2, 0) => $x *= $b.clone(),
            (2, _) => $x *= &$b,
            (_, 0) => $x /= $b.clone(),
            (_, _) => $x /= &$b,
        }
    };
}
macro_rules! scalar_forms {
    // form 0: owned ∘ s, 1: &v ∘ s, 2: s ∘ owned, 3: s ∘ &v
    ($op:expr, $form:expr, $a:expr, $s:expr) => {
        match ($op, $form) {
            (0, 0) => $a.clone() + $s,
            (0, 1) => &$a + $s,
            (0, 2) => $s + $a.clone(),
            (0, _) => $s + &$a,
            (1, 0) => $a.clone() - $s,
            (1, 1) => &$a - $s,
            (1, 2) => $s - $a.clone(),
            (1, _) => $s - &$a,
            (2, 0) => $a.clone() * $s,
            (2, 1) => &$a * $s,
            (2, 2) => $s * $a.clone(),
            (2, _) => $s * &$a,
            (_, 0) => $a.clone() / $s,
            (_, 1) => &$a / $s,
            (_, 2) => $s / $a.clone(),
            (_, _) => $s / &$a,
        }
    };
}
macro_rules! scalar_assign {
    ($op:expr, $x:expr, $s:expr) => {
        match $op {
            0 => $x += $s,
            1 => $x -= $s,
            2 => $x *= $s,
            _ => $x /= $s,
        }
    };
}

type VMap = fn(&Vector) -> Vector;
type MMap = fn(&Matrix) -> Matrix;
type SMap = fn(f64) -> f64;
macro_rules! maps {
    ($($m:ident),+) => {
        vec![$( (stringify!($m), (|v: &Vector| v.$m()) as VMap, (|m: &Matrix| m.$m()) as MMap, (|x: f64| x.$m()) as SMap) ),+]
    };
}
fn unary_maps() -> Vec<(&'static str, VMap, MMap, SMap)> {
    maps!(
        ln, ln_1p, log10, log2, exp, exp2, exp_m1, sin, cos, tan, sinh, cosh, tanh, asin, acos, atan, asinh, acosh, atanh, sqrt, cbrt, abs,
        floor, ceil, to_radians, to_degrees, recip, round, signum
    )
}

/// position-coded values: distinct, non-integer, mixed magnitude, mixed sign
fn xs(n: usize) -> Vec<f64> {
    (0..n).map(|i| (i as f64 + 1.0) * 1.25 + 1.0 / (i as f64 + 3.0)).collect()
}
fn ys(n: usize) -> Vec<f64> {
    (0..n).map(|i| if i % 3 == 0 { -1.0 } else { 1.0 } * ((i as f64 + 2.0) * 0.75 + 1.0 / (i as f64 + 7.0))).collect()
}
const SPECIALS: [f64; 8] = [0.0, -0.0, f64::INFINITY, f64::NEG_INFINITY, f64::NAN, 5e-324, f64::MAX, -1.5];

fn same(g: f64, w: f64) -> bool {
    (g.is_nan() && w.is_nan() && !is_poison(g)) || g.to_bits() == w.to_bits()
}
/// compare a whole output; returns Some(description) on the first difference
fn diff(got: &[f64], want: &[f64]) -> Option<String> {
    if got.len() != want.len() {
        return Some(format!("length {} instead of {}", got.len(), want.len()));
    }
    for i in 0..got.len() {
        if is_poison(got[i]) {
            return Some(format!("uninitialised output element {} of {}", i, got.len()));
        }
        if !same(got[i], want[i]) {
            return Some(format!("element {} of {}: got {:e} (bits {:016x}), want {:e} (bits {:016x})", i, got.len(), got[i], got[i].to_bits(), want[i], want[i].to_bits()));
        }
    }
    None
}

fn check_vec(run: &Run, key: &str, desc: &dyn Fn() -> String, res: Result<Vector, String>, want: &[f64]) {
    run.tr();
    run.ok();
    match res {
        Ok(g) => match diff(&g, want) {
            None => run.outcome(&(key, "ok", want.len() % 8 == 0, want.len() < 8)),
            Some(d) => {
                run.outcome(&(key, "diff"));
                run.violate(key, || format!("{}: {}", desc(), d))
            }
        },
        Err(p) => {
            run.outcome(&(key, "panic"));
            run.violate(&format!("{}/panic", key), || format!("{}: panicked: {}", desc(), p))
        }
    }
}
fn check_mat(run: &Run, key: &str, desc: &dyn Fn() -> String, res: Result<Matrix, String>, want: &[f64], r: usize, c: usize) {
    run.tr();
    run.ok();
    match res {
        Ok(g) => {
            if g.nrows != r || g.ncols != c {
                run.violate(&format!("{}/shape", key), || format!("{}: shape {}x{} instead of {}x{}", desc(), g.nrows, g.ncols, r, c));
            } else {
                match diff(&g.data, want) {
                    None => run.outcome(&(key, "ok", want.len() % 8 == 0, want.len() < 8)),
                    Some(d) => run.violate(key, || format!("{}: {}", desc(), d)),
                }
            }
        }
        Err(p) => run.violate(&format!("{}/panic", key), || format!("{}: panicked: {}", desc(), p)),
    }
}

fn factorizations(n: usize) -> Vec<(usize, usize)> {
    (1..=n).filter(|r| n % r == 0).map(|r| (r, n / r)).collect()
}

/// all element-wise forms on one (x, y, s) instance
fn elementwise(run: &Run, x: &[f64], y: &[f64], s: f64, tag: &str, with_matrix: bool) {
    let n = x.len();
    let (vx, vy) = (Vector::new(x.to_vec()), Vector::new(y.to_vec()));
    for op in 0..4 {
        let want: Vec<f64> = (0..n).map(|i| scalar(op, x[i], y[i])).collect();
        let want_vs: Vec<f64> = (0..n).map(|i| scalar(op, x[i], s)).collect();
        let want_sv: Vec<f64> = (0..n).map(|i| scalar(op, s, x[i])).collect();
        for form in 0..4 {
            run.case();
            let res = guard(|| own_forms!(op, form, vx, vy));
            check_vec(run, &format!("Vector{}Vector/form{}", OPS[op], form), &|| format!("{} n={} op {} form {} x={:?} y={:?}", tag, n, OPS[op], form, x, y), res, &want);
            run.case();
            let res = guard(|| scalar_forms!(op, form, vx, s));
            let w = if form < 2 { &want_vs } else { &want_sv };
            check_vec(run, &format!("Vector{}scalar/form{}", OPS[op], form), &|| format!("{} n={} op {} scalar form {} x={:?} s={:e}", tag, n, OPS[op], form, x, s), res, w);
        }
        for form in 0..2 {
            run.case();
            let res = guard(|| {
                let mut t = vx.clone();
                assign_forms!(op, form, t, vy);
                t
            });
            check_vec(run, &format!("Vector{}=Vector/form{}", OPS[op], form), &|| format!("{} n={} op {}= form {} x={:?} y={:?}", tag, n, OPS[op], form, x, y), res, &want);
        }
        run.case();
        let res = guard(|| {
            let mut t = vx.clone();
            scalar_assign!(op, t, s);
            t
        });
        check_vec(run, &format!("Vector{}=scalar", OPS[op]), &|| format!("{} n={} op {}= scalar x={:?} s={:e}", tag, n, OPS[op], x, s), res, &want_vs);
        // borrowed operands unchanged
        if diff(&vx, x).is_some() || diff(&vy, y).is_some() {
            run.violate("Vector/operand-modified", || format!("{} n={} op {}", tag, n, OPS[op]));
        }
        if with_matrix && n > 0 {
            for (r, c) in factorizations(n) {
                let mx = Matrix::new(x.to_vec(), r as i32, c as i32);
                let my = Matrix::new(y.to_vec(), r as i32, c as i32);
                for form in 0..4 {
                    run.case();
                    let res = guard(|| own_forms!(op, form, mx, my));
                    check_mat(run, &format!("Matrix{}Matrix/form{}", OPS[op], form), &|| format!("{} {}x{} op {} form {} x={:?} y={:?}", tag, r, c, OPS[op], form, x, y), res, &want, r, c);
                    run.case();
                    let res = guard(|| scalar_forms!(op, form, mx, s));
                    let w = if form < 2 { &want_vs } else { &want_sv };
                    check_mat(run, &format!("Matrix{}scalar/form{}", OPS[op], form), &|| format!("{} {}x{} op {} scalar form {} x={:?} s={:e}", tag, r, c, OPS[op], form, x, s), res, w, r, c);
                }
                for form in 0..2 {
                    run.case();
                    let res = guard(|| {
                        let mut t = mx.clone();
                        assign_forms!(op, form, t, my);
                        t
                    });
                    check_mat(run, &format!("Matrix{}=Matrix/form{}", OPS[op], form), &|| format!("{} {}x{} op {}= form {}", tag, r, c, OPS[op], form), res, &want, r, c);
                }
                run.case();
                let res = guard(|| {
                    let mut t = mx.clone();
                    scalar_assign!(op, t, s);
                    t
                });
                check_mat(run, &format!("Matrix{}=scalar", OPS[op]), &|| format!("{} {}x{} op {}= scalar s={:e}", tag, r, c, OPS[op], s), res, &want_vs, r, c);
                if diff(&mx.data, x).is_some() || diff(&my.data, y).is_some() || mx.shape() != [r, c] {
                    run.violate("Matrix/operand-modified", || format!("{} {}x{} op {}", tag, r, c, OPS[op]));
                }
            }
        }
    }
    // negation
    run.case();
    let want: Vec<f64> = x.iter().map(|v| -v).collect();
    check_vec(run, "Vector/neg", &|| format!("{} n={} neg x={:?}", tag, n, x), guard(|| -vx.clone()), &want);
    if with_matrix && n > 0 {
        let (r, c) = *factorizations(n).last().unwrap();
        let (r, c) = if n > 3 { factorizations(n)[1] } else { (r, c) };
        run.case();
        let mx = Matrix::new(x.to_vec(), r as i32, c as i32);
        check_mat(run, "Matrix/neg", &|| format!("{} {}x{} neg", tag, r, c), guard(|| -mx.clone()), &want, r, c);
    }
}

fn unary(run: &Run, maps: &[(&'static str, VMap, MMap, SMap)], x: &[f64], tag: &str, with_matrix: bool) {
    let n = x.len();
    let vx = Vector::new(x.to_vec());
    let shape = if n > 0 { Some(factorizations(n)[factorizations(n).len() / 2]) } else { None };
    let mx = shape.map(|(r, c)| Matrix::new(x.to_vec(), r as i32, c as i32));
    for (name, vf, mf, sf) in maps {
        let want: Vec<f64> = x.iter().map(|&v| sf(v)).collect();
        run.case();
        check_vec(run, &format!("Vector.{}", name), &|| format!("{} n={} {} x={:?}", tag, n, name, x), guard(|| vf(&vx)), &want);
        if with_matrix {
            if let (Some(m), Some((r, c))) = (&mx, shape) {
                run.case();
                check_mat(run, &format!("Matrix.{}", name), &|| format!("{} {}x{} {} x={:?}", tag, r, c, name, x), guard(|| mf(m)), &want, r, c);
            }
        }
    }
    for e in -2..=5i32 {
        let want: Vec<f64> = x.iter().map(|&v| v.powi(e)).collect();
        // the kernel special-cases exponents 2 and 3 as x*x and x*x*x in its unrolled part; the
        // property asks for the IEEE result of the corresponding scalar operation, which for
        // powi(2) is x*x exactly; for powi(3) the scalar powi is compared
        run.case();
        check_vec(run, &format!("Vector.powi({})", e), &|| format!("{} n={} powi({}) x={:?}", tag, n, e, x), guard(|| vx.powi(e)), &want);
        if with_matrix {
            if let (Some(m), Some((r, c))) = (&mx, shape) {
                run.case();
                check_mat(run, &format!("Matrix.powi({})", e), &|| format!("{} {}x{} powi({})", tag, r, c, e), guard(|| m.powi(e)), &want, r, c);
            }
        }
    }
    for &p in &[0.5f64, 2.0, 3.0, -1.5, 0.0] {
        let want: Vec<f64> = x.iter().map(|&v| v.powf(p)).collect();
        run.case();
        check_vec(run, "Vector.powf", &|| format!("{} n={} powf({}) x={:?}", tag, n, p, x), guard(|| vx.powf(p)), &want);
        if with_matrix {
            if let (Some(m), Some((r, c))) = (&mx, shape) {
                run.case();
                check_mat(run, "Matrix.powf", &|| format!("{} {}x{} powf({})", tag, r, c, p), guard(|| m.powf(p)), &want, r, c);
            }
        }
    }
    if diff(&vx, x).is_some() {
        run.violate("Vector/operand-modified", || format!("{} n={} unary maps", tag, n));
    }
}

fn gamma_n(n: usize) -> f64 {
    let k = (n as f64 + 2.0) * U;
    k / (1.0 - k)
}

fn reductions(run: &Run, x: &[f64], y: &[f64], tag: &str) {
    let n = x.len();
    let vx = Vector::new(x.to_vec());
    let abs_sum: f64 = x.iter().map(|v| v.abs()).sum();
    let finite = x.iter().all(|v| v.is_finite());
    if !finite {
        return;
    }
    let close = |run: &Run, key: &str, got: Result<f64, String>, want: DD, tol: f64, what: &str| {
        run.case();
        run.tr();
        run.ok();
        match got {
            Ok(g) => {
                let err = (DD::new(g) - want).abs().f();
                if !(err <= tol) {
                    run.outcome(&(key, "bad"));
                    run.violate(key, || format!("{} n={} {}: got {:e}, want {:e} (|err| {:e} > bound {:e}) x={:?}", tag, n, what, g, want.f(), err, tol, x));
                } else {
                    run.outcome(&(key, "ok", n % 8, n / 8));
                }
            }
            Err(p) => run.violate(&format!("{}/panic", key), || format!("{} n={} {}: panicked: {} x={:?}", tag, n, what, p, x)),
        }
    };
    let tiny = 1e-300;
    // sum
    let s = dd::sum(x);
    let tol = gamma_n(n) * abs_sum + tiny;
    close(run, "sum(slice)", guard(|| linalg::sum(x)), s, tol, "sum");
    close(run, "Vector.sum", guard(|| vx.sum()), s, tol, "Vector.sum");
    // prod
    let mut p = DD::ONE;
    for &v in x {
        p = p * DD::new(v);
    }
    if p.is_finite() && (p.f() == 0.0 || p.f().abs() > 1e-290) {
        let tol = gamma_n(n) * p.f().abs() + tiny;
        close(run, "prod(slice)", guard(|| linalg::prod(x)), p, tol, "prod");
        close(run, "Vector.prod", guard(|| vx.prod()), p, tol, "Vector.prod");
    }
    // dot
    let d = dd::dot(x, y);
    let absdot: f64 = x.iter().zip(y).map(|(a, b)| (a * b).abs()).sum();
    if absdot.is_finite() {
        let tol = gamma_n(n) * absdot + tiny;
        close(run, "dot(slice)", guard(|| linalg::dot(x, y)), d, tol, "dot");
    }
    // norm
    let nn = dd::dot(x, x);
    if nn.is_finite() && (nn.f() == 0.0 || nn.f() > 1e-280) {
        let nrm = nn.sqrt();
        let tol = (gamma_n(n) + 2.0 * U) * nrm.f() + tiny;
        close(run, "norm(slice)", guard(|| linalg::norm(x)), nrm, tol, "norm");
        close(run, "Vector.norm", guard(|| vx.norm()), nrm, tol, "Vector.norm");
    }
    // inf_norm over every factorisation
    if n > 0 {
        for (r, c) in factorizations(n) {
            let mut best = DD::ZERO;
            for i in 0..r {
                let mut rs = DD::ZERO;
                for j in 0..c {
                    rs = rs + DD::new(x[i * c + j].abs());
                }
                if rs.f() > best.f() {
                    best = rs;
                }
            }
            let tol = gamma_n(c) * best.f() + tiny;
            close(run, "inf_norm(slice)", guard(|| linalg::inf_norm(x, r)), best, tol, &format!("inf_norm rows={}", r));
            let m = Matrix::new(x.to_vec(), r as i32, c as i32);
            close(run, "Matrix.inf_norm", guard(|| m.inf_norm()), best, tol, &format!("Matrix.inf_norm {}x{}", r, c));
            if r == 1 || (r > 1 && c > 1) {
                close(run, "Matrix.sum", guard(|| m.sum()), s, gamma_n(n) * abs_sum + tiny, "Matrix.sum");
            }
        }
    }
}

fn logdomain(run: &Run, x: &[f64], tag: &str) {
    let n = x.len();
    if n == 0 {
        // empty-input convention is recorded, not judged
        let r = guard(|| linalg::logsumexp(x));
        run.extra("logsumexp_empty_observation", serde_json::json!(format!("{:?}", r)));
        return;
    }
    let m = x.iter().cloned().fold(f64::NEG_INFINITY, f64::max);
    let mut s = DD::ZERO;
    for &v in x {
        s = s + DD::new((v - m).exp());
    }
    let lse = s.f().ln() + m;
    let lme = (s.f() / n as f64).ln() + m;
    let tol = |r: f64| 4.0 * (n as f64 + 16.0) * U * r.abs().max(1.0);
    let vx = Vector::new(x.to_vec());
    for (key, got, want) in [
        ("logsumexp(slice)", guard(|| linalg::logsumexp(x)), lse),
        ("Vector.logsumexp", guard(|| vx.logsumexp()), lse),
        ("logmeanexp(slice)", guard(|| linalg::logmeanexp(x)), lme),
        ("Vector.logmeanexp", guard(|| vx.logmeanexp()), lme),
    ] {
        run.case();
        run.tr();
        run.ok();
        match got {
            Ok(g) => {
                if !g.is_finite() {
                    run.violate(&format!("{}/overflow", key), || format!("{} n={}: non-finite result {:e} for finite log-domain input x={:?}", tag, n, g, x));
                } else if !((g - want).abs() <= tol(want)) {
                    run.violate(key, || format!("{} n={}: got {:e}, want {:e} x={:?}", tag, n, g, want, x));
                } else {
                    run.outcome(&(key, "ok", n % 8));
                }
            }
            Err(p) => run.violate(&format!("{}/panic", key), || format!("{} n={}: panicked: {} x={:?}", tag, n, p, x)),
        }
    }
}

pub fn run(run: &Run) {
    run.rule("every length 0..=40 × {+,-,*,/} × every operand form (Vector/Matrix; owned/borrowed; scalar left/right; compound assignment; negation) × 29 unary maps + powi(-2..=5) + powf; values position-coded, plus every single-position injection of {±0, ±inf, NaN, min subnormal, MAX}; mismatched lengths/shapes must panic; reductions against double-double with the γ_n bound; non-trivial = length not a multiple of 8, or special value present, or mismatch");
    let mut lens: Vec<usize> = (0..=72).collect();
    lens.extend([127, 128, 129, 255, 256, 257, 1000, 1023, 1024, 1025, 4096, 4097, 10_000]);
    if run.thorough() {
        lens.extend(73..=300);
        lens.extend([2047, 2048, 2049, 8191, 8192, 8193, 65_537]);
    }
    run.bound("lengths", if run.thorough() { "0..=300 plus powers of two ±1 up to 8193, 10000, 65537" } else { "0..=72 plus 127..129, 255..257, 1000, 1023..1025, 4096, 4097, 10000" });
    let maps = unary_maps();
    // 1. position-coded values, all lengths
    lens.par_iter().for_each(|&n| {
        let (x, y) = (xs(n), ys(n));
        let with_m = n <= 129 || n == 1024;
        elementwise(run, &x, &y, 2.75, "coded", with_m);
        elementwise(run, &y, &x, -0.3, "coded-swapped", with_m);
        unary(run, &maps, &x, "coded", with_m);
        unary(run, &maps, &y.iter().map(|v| v / 50.0).collect::<Vec<_>>(), "frac", with_m);
        if n % 8 != 0 {
            run.nontrivial(1);
        }
        run.regime(if n == 0 { "empty" } else if n < 8 { "below-unroll" } else if n % 8 == 0 { "multiple-of-8" } else { "unroll+remainder" });
        if n == 11 {
            run.sample(|| format!("n=11 coded x={:?} y={:?} s=2.75: all operator forms, 29 maps, powi(-2..=5), powf", xs(11), ys(11)));
        }
    });
    // 2. single-position injection of every special value at every index of every length ≤ 40
    let mut inj = Vec::new();
    for n in 1..=40usize {
        for i in 0..n {
            for (k, _) in SPECIALS.iter().enumerate() {
                inj.push((n, i, k));
            }
        }
    }
    run.bound("special-value injections", "every index of every length 1..=40 × 8 special values, injected left and right");
    inj.par_iter().for_each(|&(n, i, k)| {
        let sp = SPECIALS[k];
        let (mut x, y) = (xs(n), ys(n));
        x[i] = sp;
        // Matrix forms only for a subset of lengths (the kernels are shared with Vector)
        let with_m = n % 5 == 0 || n == 9 || n == 17;
        elementwise(run, &x, &y, 2.75, "inject-left", with_m);
        elementwise(run, &y, &x, sp, "inject-right", with_m);
        if n % 4 == 1 || i == n - 1 || i == 0 {
            unary(run, &maps, &x, "inject", false);
        }
        run.nontrivial(1);
    });
    // 2b. arguments on which a re-implemented map typically slips: ties and near-ties of the rounding
    // maps, odd integers next to 2^52 / 2^53, overflow / underflow thresholds of exp, domain ends,
    // subnormals — at every position of every length 1..=17 (block and remainder positions)
    let edge: Vec<f64> = vec![
        0.5, -0.5, 0.49999999999999994, -0.49999999999999994, 0.5000000000000001, 1.5, -1.5, 2.5, -2.5, 3.5,
        4503599627370495.5, 4503599627370496.0, 4503599627370497.0, -4503599627370497.0, 9007199254740991.0, -9007199254740991.0, 9007199254740992.0, 9007199254740993.0,
        709.782712893384, 709.7827128933841, 710.0, -745.1332191019411, -745.1332191019412, -708.3964185322641, 1024.0, 1023.9999999999999, -1074.0, -1075.0,
        1.0, -1.0, 0.9999999999999999, 1.0000000000000002, -0.9999999999999999, 2.2250738585072014e-308, 1e-310, -1e-310, 1e-320,
        std::f64::consts::FRAC_PI_2, std::f64::consts::PI, 1e22, -1e22, 1e300, 1e-300, 3.0e-9, -3.0e-9, 0.1, 1e15 + 0.5, 2.0f64.powi(31) + 0.5,
    ];
    run.bound("edge arguments", format!("{} rounding / threshold arguments at every position of lengths 1..=17, all maps", edge.len()));
    (1..=17usize).into_par_iter().for_each(|n| {
        for start in 0..edge.len() {
            let x: Vec<f64> = (0..n).map(|i| edge[(start + i * 7) % edge.len()]).collect();
            unary(run, &maps, &x, "edge", n == 8 || n == 9 || n == 17);
            run.nontrivial(1);
        }
    });
    run.sample(|| format!("inject-left n=9 i=8 special=NaN: x={:?}", {
        let mut x = xs(9);
        x[8] = f64::NAN;
        x
    }));
    // 3. mismatched lengths must panic (Vector forms), unequal shapes must panic (Matrix assign)
    let mm = run.tier.pick(17usize, 33usize);
    run.bound("length mismatch pairs", format!("all n1 != n2 in 0..={}", mm));
    for n1 in 0..=mm {
        for n2 in 0..=mm {
            if n1 == n2 {
                continue;
            }
            let (vx, vy) = (Vector::new(xs(n1)), Vector::new(ys(n2)));
            // the two-operand reduction rejects operands of different lengths as well
            for (key, r) in [("dot(slice)", guard(|| linalg::dot(&xs(n1), &ys(n2)))), ("Vector.dot", guard(|| compute::linalg::Dot::dot(&vx, &vy)))] {
                run.case();
                run.tr();
                run.ok();
                run.nontrivial(1);
                match r {
                    Ok(g) => run.violate(&format!("{}/mismatch-accepted", key), || format!("lengths {} and {}: returned {:e}", n1, n2, g)),
                    Err(_) => run.regime("mismatch-rejected"),
                }
            }
            for op in 0..4 {
                for form in 0..6 {
                    run.case();
                    run.tr();
                    run.ok();
                    run.nontrivial(1);
                    let res = if form < 4 {
                        guard(|| own_forms!(op, form, vx, vy)).map(|v| v.len())
                    } else {
                        guard(|| {
                            let mut t = vx.clone();
                            assign_forms!(op, form - 4, t, vy);
                            t
                        })
                        .map(|v| v.len())
                    };
                    match res {
                        Ok(l) => {
                            run.outcome(&("mismatch", "accepted"));
                            run.violate(&format!("Vector{}Vector/mismatch-accepted", OPS[op]), || format!("lengths {} and {} op {} form {}: returned a vector of length {}", n1, n2, OPS[op], form, l))
                        }
                        Err(_) => {
                            run.outcome(&("mismatch", "rejected"));
                            run.regime("mismatch-rejected")
                        }
                    }
                }
            }
        }
    }
    let shapes: Vec<(usize, usize)> = (1..=4).flat_map(|r| (1..=4).map(move |c| (r, c))).collect();
    for &(r1, c1) in &shapes {
        for &(r2, c2) in &shapes {
            if (r1, c1) == (r2, c2) {
                continue;
            }
            let a = Matrix::new(xs(r1 * c1), r1 as i32, c1 as i32);
            let b = Matrix::new(ys(r2 * c2), r2 as i32, c2 as i32);
            for op in 0..4 {
                for form in 0..2 {
                    run.case();
                    run.tr();
                    run.ok();
                    run.nontrivial(1);
                    let res = guard(|| {
                        let mut t = a.clone();
                        assign_forms!(op, form, t, b);
                        t
                    });
                    match res {
                        Ok(g) => run.violate(&format!("Matrix{}=Matrix/mismatch-accepted", OPS[op]), || format!("{}x{} {}= {}x{} form {}: returned {}x{}", r1, c1, OPS[op], r2, c2, form, g.nrows, g.ncols)),
                        Err(_) => run.regime("mismatch-rejected"),
                    }
                }
            }
        }
    }
    // 4. reductions
    lens.par_iter().for_each(|&n| {
        let (x, y) = (xs(n), ys(n));
        reductions(run, &x, &y, "coded");
        reductions(run, &y, &x, "coded-swapped");
        // integers (exact), alternating with cancellation, large/small mix
        let ints: Vec<f64> = (0..n).map(|i| ((i * 7) % 11) as f64 - 5.0).collect();
        reductions(run, &ints, &x, "ints");
        let alt: Vec<f64> = (0..n).map(|i| if i % 2 == 0 { 1e8 + i as f64 } else { -1e8 + 0.5 * i as f64 }).collect();
        reductions(run, &alt, &y, "alternating-1e8");
        let mix: Vec<f64> = (0..n).map(|i| if i % 5 == 4 { 1e15 } else { 0.1 * (i as f64 + 1.0) }).collect();
        reductions(run, &mix, &x, "mixed-magnitude");
        // degenerate and extreme data: all zero (either sign), a single non-zero entry, magnitudes whose
        // squares underflow or overflow (the sums themselves stay finite)
        let zeros = vec![0.0; n];
        reductions(run, &zeros, &x, "all-zero");
        let nz: Vec<f64> = (0..n).map(|i| if i % 2 == 0 { -0.0 } else { 0.0 }).collect();
        reductions(run, &nz, &nz, "signed-zeros");
        if n > 0 {
            let mut one = vec![0.0; n];
            one[n - 1] = -3.0;
            reductions(run, &one, &one, "single-non-zero");
        }
        // windows of a longer buffer at every offset modulo 4 (every alignment a kernel could assume)
        {
            let lx: Vec<f64> = xs(n + 5);
            let ly: Vec<f64> = ys(n + 5);
            for k in 0..4 {
                reductions(run, &lx[k..k + n], &ly[(k + 2) % 4..(k + 2) % 4 + n], "window");
            }
        }
        let small: Vec<f64> = (0..n).map(|i| (1.0 + (i % 4) as f64) * 1e-120).collect();
        reductions(run, &small, &small, "tiny-magnitude");
        let big: Vec<f64> = (0..n).map(|i| (1.0 + (i % 4) as f64) * 1e120 * if i % 3 == 0 { -1.0 } else { 1.0 }).collect();
        reductions(run, &big, &small, "huge-magnitude");
        // each single position distinguished (a dropped or double-counted index changes the sum)
        for i in 0..n.min(41) {
            let mut e = vec![1.0; n];
            e[i] = 1000.0 + i as f64;
            reductions(run, &e, &e, "unit-spike");
        }
        // log-domain
        logdomain(run, &x, "coded");
        for &big in &[700.0, -700.0, 1e4, -1e4, 709.9, 745.0] {
            let v: Vec<f64> = (0..n).map(|i| big + (i % 3) as f64).collect();
            logdomain(run, &v, "large-magnitude");
            let mut w = v.clone();
            if n > 1 {
                w[n / 2] = -big;
            }
            logdomain(run, &w, "large-magnitude-mixed");
        }
    });
    // empty Matrix (0x0) arithmetic: recorded, not judged (no constructor other than empty()/default() builds one)
    let e = guard(|| Matrix::empty() + Matrix::empty()).map(|m| m.shape());
    run.extra("empty_matrix_add_observation", serde_json::json!(format!("{:?}", e)));
    for r in ["empty", "below-unroll", "multiple-of-8", "unroll+remainder", "mismatch-rejected"] {
        run.require_regime(r);
    }
    run.assume("NaN results are compared by position (any non-poison NaN payload accepted); every other value bit for bit");
    run.assume("the harness computes the scalar reference with the same libm and hardware in the same build");
    // products of runs of tiny and huge factors (exact powers of two): the product and every running product of the
    // definition stay in range; a regrouped evaluation must not overflow or underflow on the way
    for n in 2..=48usize {
        for run_len in [1usize, 2, 4, 7, 8, 9, 16] {
            for (lo, hi) in [(-120i32, 120i32), (-127, 130), (120, -120)] {
                let mut x: Vec<f64> = (0..n).map(|i| if (i / run_len) % 2 == 0 { 2f64.powi(lo) } else { 2f64.powi(hi) }).collect();
                // keep the running product within 2^+-1020: truncate at the first index where it would leave
                let mut e = 0i32;
                let mut keep = n;
                for (i, v) in x.iter().enumerate() {
                    e += v.log2() as i32;
                    if e.abs() > 1020 {
                        keep = i;
                        break;
                    }
                }
                x.truncate(keep);
                if x.len() < 2 {
                    continue;
                }
                let want = 2f64.powi(x.iter().map(|v| v.log2() as i32).sum::<i32>());
                let vx = Vector::new(x.clone());
                for (key, got) in [("prod(slice)", guard(|| linalg::prod(&x))), ("Vector.prod", guard(|| vx.prod()))] {
                    run.case();
                    run.tr();
                    run.ok();
                    run.nontrivial(1);
                    match got {
                        Ok(g) if g == want => run.regime("products-of-scaled-runs"),
                        Ok(g) => run.violate(&format!("{}/runs-of-tiny-and-huge-factors", key), || format!("n={} runs of {} factors 2^{} / 2^{}: got {:e}, the product is {:e} (every running product is within 2^±1020)", x.len(), run_len, lo, hi, g, want)),
                        Err(p) => run.violate(&format!("{}/panic", key), || format!("n={}: {}", x.len(), p)),
                    }
                }
            }
        }
    }
    // sums and means with infinite entries: +inf (or -inf) anywhere among finite entries gives that infinity, both
    // signs give NaN (IEEE addition; the definition of the sum does not change because an entry is infinite)
    for n in 1..=20usize {
        for pos in 0..n {
            for (val, second) in [(f64::INFINITY, None), (f64::NEG_INFINITY, None), (f64::INFINITY, Some(f64::INFINITY)), (f64::INFINITY, Some(f64::NEG_INFINITY))] {
                let mut x: Vec<f64> = (0..n).map(|i| 1.5 * i as f64 - 3.0).collect();
                x[pos] = val;
                if let Some(v2) = second {
                    if n < 2 {
                        continue;
                    }
                    x[(pos + n / 2 + 1) % n] = v2;
                    if (pos + n / 2 + 1) % n == pos {
                        continue;
                    }
                }
                let want: f64 = x.iter().sum();
                let vx = Vector::new(x.clone());
                let mx = Matrix::new(x.clone(), 1, n as i32);
                for (key, got) in [("sum(slice)", guard(|| linalg::sum(&x))), ("Vector.sum", guard(|| vx.sum())), ("Matrix.sum", guard(|| mx.sum())), ("Vector.mean", guard(|| vx.mean() * n as f64))] {
                    run.case();
                    run.tr();
                    run.ok();
                    run.nontrivial(1);
                    match got {
                        Ok(g) if g == want || (g.is_nan() && want.is_nan()) => run.regime("reductions-with-infinite-entries"),
                        Ok(g) => run.violate(&format!("{}/infinite-entries", key), || format!("n={} x={:?}: got {:e}, the sum is {:e}", n, x, g, want)),
                        Err(p) => run.violate(&format!("{}/panic", key), || format!("n={} x={:?}: {}", n, x, p)),
                    }
                }
            }
        }
    }
    // log of zero probabilities: every placement of -inf entries among finite ones (lengths 2..=10; the -inf
    // entries contribute nothing; all -inf is recorded, not judged)
    for n in 2..=10usize {
        for mask in 1u32..(1 << n) {
            let x: Vec<f64> = (0..n).map(|i| if mask >> i & 1 == 1 { [-1.25, 0.5, 3.0, -700.0, 2.0][(i * 3 + n) % 5] } else { f64::NEG_INFINITY }).collect();
            logdomain(run, &x, "with -inf entries");
            run.nontrivial(1);
        }
    }
    for &n in &[17usize, 64, 100, 1025] {
        for lead in [1usize, 2, 3, n / 2, n - 1] {
            let x: Vec<f64> = (0..n).map(|i| if i < lead { f64::NEG_INFINITY } else { -0.5 * (i % 7) as f64 }).collect();
            logdomain(run, &x, "leading -inf entries");
            let y: Vec<f64> = x.iter().rev().cloned().collect();
            logdomain(run, &y, "trailing -inf entries");
        }
    }
    run.assume("0x0 Matrix arithmetic and logsumexp of an empty slice are recorded, not judged");
}
