//! C05 — matrix products follow the definition for every shape and transpose flag.
//! Engine E3: all shapes × flags × block sizes × trait impl forms, exact integer oracle.
use crate::common::{guard, Run};
use compute::linalg::{matmul, matmul_blocked, xtx, Dot, Matrix, Vector};
use rayon::prelude::*;

fn fill(r: usize, c: usize, base: i64) -> Vec<f64> {
    // injective, asymmetric small integers; exact in f64
    // quarter-integers: still exact in f64 (products are multiples of 1/16 far below 2^53)
    (0..r * c).map(|k| (base + 1 + ((k as i64 * 7) % 23) + 2 * (k as i64 % 97)) as f64 + if k % 3 == 1 { 0.25 } else { 0.0 }).collect()
}

fn at(a: &[f64], _r: usize, c: usize, t: bool, i: usize, j: usize) -> i64 {
    // element (i,j) of op(A)
    // in quarter units
    if t {
        (a[j * c + i] * 4.0) as i64
    } else {
        (a[i * c + j] * 4.0) as i64
    }
}

/// reference product of op(A)·op(B); None when not conformable
fn ref_mm(a: &[f64], ar: usize, ac: usize, ta: bool, b: &[f64], br: usize, bc: usize, tb: bool) -> Option<(Vec<i64>, usize, usize)> {
    let (m, l) = if ta { (ac, ar) } else { (ar, ac) };
    let (l2, n) = if tb { (bc, br) } else { (br, bc) };
    if l != l2 {
        return None;
    }
    let mut c = vec![0i64; m * n];
    for i in 0..m {
        for j in 0..n {
            let mut s = 0i64;
            for k in 0..l {
                s += at(a, ar, ac, ta, i, k) * at(b, br, bc, tb, k, j);
            }
            c[i * n + j] = s;
        }
    }
    Some((c, m, n))
}

fn same(got: &[f64], want: &[i64]) -> bool {
    // `want` is in sixteenths (product of two quarter-unit values)
    got.len() == want.len() && got.iter().zip(want).all(|(g, w)| *g * 16.0 == *w as f64)
}

fn fl(t: bool) -> char {
    if t {
        'T'
    } else {
        'N'
    }
}

pub fn run(run: &Run) {
    run.rule("every (m,l,n) × 4 transpose flags × block sizes for the slice kernels; every shape pair (conformable or not) × 4 methods × 4 ownership forms for the Dot trait; entries injective small integers, oracle = i64 triple loop on explicitly transposed operands; non-trivial = non-square or transposed or non-conformable");
    let maxd = run.tier.pick(9usize, 40usize);
    run.bound("matmul shapes m,l,n", format!("1..={} plus {:?}^3", maxd, if run.thorough() { vec![15, 16, 17, 31, 32, 33, 63, 64, 65] } else { vec![16, 17, 33, 64] }));
    let mut dims: Vec<(usize, usize, usize)> = Vec::new();
    for m in 1..=maxd {
        for l in 1..=maxd {
            for n in 1..=maxd {
                dims.push((m, l, n));
            }
        }
    }
    let big: &[usize] = if run.thorough() { &[15, 16, 17, 31, 32, 33, 63, 64, 65] } else { &[16, 17, 33, 64] };
    for &m in big {
        for &l in big {
            for &n in big {
                dims.push((m, l, n));
            }
        }
    }
    // ---- slice kernels -------------------------------------------------------------------
    dims.par_iter().for_each(|&(m, l, n)| {
        for &ta in &[false, true] {
            for &tb in &[false, true] {
                let (ar, ac) = if ta { (l, m) } else { (m, l) };
                let (br, bc) = if tb { (n, l) } else { (l, n) };
                let a = fill(ar, ac, 0);
                let b = fill(br, bc, 50);
                let (want, _, _) = ref_mm(&a, ar, ac, ta, &b, br, bc, tb).unwrap();
                let site = format!("matmul/{}{}", fl(ta), fl(tb));
                run.case();
                run.tr();
                if m != n || m != l || ta || tb {
                    run.nontrivial(1);
                }
                let desc = || format!("matmul(A {}x{}, B {}x{}, ta={}, tb={}) with A=fill(0), B=fill(50)", ar, ac, br, bc, ta, tb);
                match guard(|| matmul(&a, &b, ar, br, ta, tb)) {
                    Ok(got) => {
                        run.ok();
                        if got.len() != want.len() {
                            run.outcome(&(&site, "len"));
                            run.violate(&format!("{}/wrong-length", site), || format!("{}: got {} elements, want {}", desc(), got.len(), want.len()));
                        } else if !same(&got, &want) {
                            run.outcome(&(&site, "val"));
                            run.violate(&format!("{}/wrong-values", site), || format!("{}: got {:?}, want {:?}", desc(), got, want));
                        } else {
                            run.outcome(&(&site, "ok"));
                        }
                    }
                    Err(p) => {
                        run.ok();
                        run.outcome(&(&site, "panic"));
                        run.violate(&format!("{}/panic-on-conformable", site), || format!("{}: panicked: {}", desc(), p));
                    }
                }
                run.sample(|| format!("{} -> first row {:?}", desc(), &want[..n.min(want.len())]));
                // blocked variant, every block size
                let maxb = 2 * m.max(l).max(n);
                for bs in (1..=maxb).filter(|b| maxb <= 24 || *b <= 9 || *b % 7 == 0 || (*b as i64 - m as i64).abs() <= 1 || (*b as i64 - l as i64).abs() <= 1 || (*b as i64 - n as i64).abs() <= 1 || *b == maxb) {
                    run.case();
                    run.tr();
                    run.nontrivial(1);
                    let site = format!("matmul_blocked/{}{}", fl(ta), fl(tb));
                    match guard(|| matmul_blocked(&a, &b, ar, br, ta, tb, bs)) {
                        Ok(got) => {
                            run.ok();
                            if !same(&got, &want) {
                                run.violate(&format!("{}/wrong-values", site), || format!("{} bsize={}: got {:?}, want {:?}", desc(), bs, got, want));
                            }
                        }
                        Err(p) => {
                            run.ok();
                            run.violate(&format!("{}/panic-on-conformable", site), || format!("{} bsize={}: panicked: {}", desc(), bs, p));
                        }
                    }
                }
            }
        }
        // operands of very different magnitude (exact power-of-two scalings: the product is unchanged or
        // scaled by an exact power of two) and the same buffer passed as both operands
        if m.max(l).max(n) <= 6 || (m, l, n) == (16, 17, 33) || (m, l, n) == (33, 64, 17) {
            for &ta in &[false, true] {
                for &tb in &[false, true] {
                    let (ar, ac) = if ta { (l, m) } else { (m, l) };
                    let (br, bc) = if tb { (n, l) } else { (l, n) };
                    let a = fill(ar, ac, 0);
                    let b = fill(br, bc, 50);
                    let (want, _, _) = ref_mm(&a, ar, ac, ta, &b, br, bc, tb).unwrap();
                    for (ea, eb) in [(-60i32, 60i32), (60, -60), (-40, -40), (-600, 600), (300, 300)] {
                        let a2: Vec<f64> = a.iter().map(|v| v * 2f64.powi(ea)).collect();
                        let b2: Vec<f64> = b.iter().map(|v| v * 2f64.powi(eb)).collect();
                        let back = 2f64.powi(-(ea + eb));
                        for blocked in [false, true] {
                            run.case();
                            run.tr();
                            run.ok();
                            run.nontrivial(1);
                            let site = format!("{}/{}{}", if blocked { "matmul_blocked" } else { "matmul" }, fl(ta), fl(tb));
                            let r = guard(|| if blocked { matmul_blocked(&a2, &b2, ar, br, ta, tb, 2) } else { matmul(&a2, &b2, ar, br, ta, tb) });
                            match r {
                                Ok(got) => {
                                    let g: Vec<f64> = got.iter().map(|v| v * back).collect();
                                    if !same(&g, &want) {
                                        run.violate(&format!("{}/wrong-values/scaled-operands", site), || format!("A {}x{} * 2^{}, B {}x{} * 2^{}, ta={}, tb={}: got {:?} (rescaled {:?}), want sixteenths {:?}", ar, ac, ea, br, bc, eb, ta, tb, got, g, want));
                                    } else {
                                        run.regime("scaled-operands");
                                    }
                                }
                                Err(p) => run.violate(&format!("{}/panic-on-conformable", site), || format!("scaled operands {}x{} {}x{}: {}", ar, ac, br, bc, p)),
                            }
                        }
                    }
                }
            }
        }
        if n == 1 {
            // the same buffer as both operands: AᵀA and AAᵀ
            let a = fill(m, l, 0);
            for (ta, tb) in [(true, false), (false, true)] {
                let (want, _, _) = ref_mm(&a, m, l, ta, &a, m, l, tb).unwrap();
                for blocked in [false, true] {
                    run.case();
                    run.tr();
                    run.ok();
                    run.nontrivial(1);
                    let site = format!("{}/{}{}", if blocked { "matmul_blocked" } else { "matmul" }, fl(ta), fl(tb));
                    match guard(|| if blocked { matmul_blocked(&a, &a, m, m, ta, tb, 3) } else { matmul(&a, &a, m, m, ta, tb) }) {
                        Ok(got) => {
                            if !same(&got, &want) {
                                run.violate(&format!("{}/wrong-values/aliased-operands", site), || format!("A {}x{} passed as both operands, ta={}, tb={}: got {:?}, want sixteenths {:?}", m, l, ta, tb, got, want));
                            } else {
                                run.regime("aliased-operands");
                            }
                        }
                        Err(p) => run.violate(&format!("{}/panic-on-conformable", site), || format!("aliased operands {}x{}: {}", m, l, p)),
                    }
                }
            }
            // the trait forms with the same object on both sides
            let am = Matrix::new(a.clone(), m as i32, l as i32);
            for which in 0..2 {
                run.case();
                run.tr();
                run.ok();
                let (ta, tb) = if which == 0 { (true, false) } else { (false, true) };
                let (want, wr, wc) = ref_mm(&a, m, l, ta, &a, m, l, tb).unwrap();
                match guard(|| if which == 0 { (&am).t_dot(&am) } else { (&am).dot_t(&am) }) {
                    Ok(g) => {
                        if g.shape() != [wr, wc] || !same(&g.data.v, &want) {
                            run.violate(&format!("Dot/MatMat/{}/aliased-operands", if which == 0 { "t_dot" } else { "dot_t" }), || format!("x = {}x{}: x.{}(&x) = {:?} {:?}, want sixteenths {:?}", m, l, if which == 0 { "t_dot" } else { "dot_t" }, g.shape(), g.data.v, want));
                        }
                    }
                    Err(p) => run.violate("Dot/MatMat/aliased-operands/panic", || format!("x = {}x{}: {}", m, l, p)),
                }
            }
        }
        // xtx on an m×l matrix
        if n == 1 {
            let x = fill(m, l, 3);
            let (want, _, _) = ref_mm(&x, m, l, true, &x, m, l, false).unwrap();
            run.case();
            run.tr();
            run.nontrivial(1);
            match guard(|| xtx(&x, m)) {
                Ok(got) => {
                    run.ok();
                    if !same(&got, &want) {
                        run.violate("xtx/wrong-values", || format!("xtx(X {}x{}): got {:?}, want {:?}", m, l, got, want));
                    }
                }
                Err(p) => run.violate("xtx/panic", || format!("xtx(X {}x{}) panicked: {}", m, l, p)),
            }
        }
    });

    // ---- value patterns: sparse, banded, indicator operands, zero rows and columns, all zeros ------------
    // (the definition does not depend on the values: a shortcut taken for special data must give the same product)
    let pat = |kind: usize, r: usize, c: usize, base: i64| -> Vec<f64> {
        let d = fill(r, c, base);
        (0..r * c)
            .map(|k| {
                let (i, j) = (k / c, k % c);
                match kind {
                    0 => d[k],
                    1 => if k % 9 == 0 { d[k] } else { 0.0 },
                    2 => if (i as i64 - j as i64).abs() <= 1 { d[k] } else { 0.0 },
                    3 => if i % 3 == 1 || i + 1 == r { 0.0 } else { d[k] },
                    4 => if j % 4 == 2 || j + 1 == c { 0.0 } else { d[k] },
                    5 => if j == (i * 5) % c { 1.0 } else { 0.0 },
                    6 => if k % 16 == 3 { -d[k] } else { 0.0 },
                    8 => {
                        // the flat data, read as s x s with s^2 = r*c, is a symmetric matrix
                        let s = ((r * c) as f64).sqrt().round() as usize;
                        if s * s == r * c { let (a, b) = (k / s, k % s); (1 + a.min(b) * 3 + a.max(b) % 7) as f64 } else { d[k] }
                    }
                    _ => 0.0,
                }
            })
            .collect()
    };
    const PATS: [&str; 9] = ["dense", "every-9th", "banded", "zero-rows", "zero-columns", "indicator", "negative-every-16th", "all-zero", "flat-symmetric"];
    let mids = [3usize, 8, 16, 17, 24, 33, 40];
    let mut pjobs: Vec<(usize, usize, usize, bool)> = Vec::new();
    for &m in &mids {
        for &l in &mids {
            for &n in &mids {
                pjobs.push((m, l, n, false));
            }
        }
    }
    // stored shapes whose element count is a perfect square although they are not square (8x32, 4x64, 9x36, 16x25, 2x128)
    for &(m, l, n) in &[(32usize, 8usize, 32usize), (8, 32, 8), (4, 64, 16), (64, 4, 9), (36, 9, 36), (9, 36, 4), (25, 16, 25), (16, 25, 16), (2, 128, 2), (128, 2, 128)] {
        pjobs.push((m, l, n, false));
    }
    // products of at least 2^22 multiply-adds
    let large: Vec<(usize, usize, usize)> = if run.thorough() { vec![(168, 150, 170), (170, 150, 168), (256, 128, 129), (130, 260, 131), (4100, 33, 32), (33, 4100, 40), (320, 320, 320)] } else { vec![(168, 150, 170), (170, 150, 168), (256, 128, 129), (130, 260, 131)] };
    for &(m, l, n) in &large {
        pjobs.push((m, l, n, true));
    }
    run.bound("value patterns", format!("{} operand patterns for A × 4 (2 for the large shapes) for B × 4 flags on {}^3 mid-size shapes and {:?}", PATS.len(), mids.len(), large));
    let mut pcases: Vec<(usize, usize, usize, usize, usize)> = Vec::new();
    for &(m, l, n, big) in &pjobs {
        for pa in 0..9usize {
            for &pb in if big { &[0usize, 1][..] } else { &[0usize, 1, 3, 4, 8][..] } {
                pcases.push((m, l, n, pa, pb));
            }
        }
    }
    pcases.par_iter().for_each(|&(m, l, n, pa, pb)| {
        for &ta in &[false, true] {
            for &tb in &[false, true] {
                let (ar, ac) = if ta { (l, m) } else { (m, l) };
                let (br, bc) = if tb { (n, l) } else { (l, n) };
                let a = pat(pa, ar, ac, 0);
                let b = pat(pb, br, bc, 50);
                let (want, _, _) = ref_mm(&a, ar, ac, ta, &b, br, bc, tb).unwrap();
                run.case();
                run.tr();
                run.ok();
                run.nontrivial(1);
                let site = format!("matmul/{}{}", fl(ta), fl(tb));
                match guard(|| matmul(&a, &b, ar, br, ta, tb)) {
                    Ok(got) => {
                        if !same(&got, &want) {
                            let bad = (0..want.len().min(got.len())).find(|&k| got[k] * 16.0 != want[k] as f64).unwrap_or(0);
                            run.violate(&format!("{}/wrong-values/value-pattern", site), || format!("A {}x{} ({}), B {}x{} ({}), ta={}, tb={}: entry #{} is {}, want {}/16 ({} outputs, want {})", ar, ac, PATS[pa], br, bc, PATS[pb], ta, tb, bad, got.get(bad).copied().unwrap_or(f64::NAN), want.get(bad).copied().unwrap_or(0), got.len(), want.len()));
                        } else {
                            run.regime(&format!("value-pattern:{}", PATS[pa]));
                        }
                    }
                    Err(p) => run.violate(&format!("{}/panic-on-conformable", site), || format!("A {}x{} ({}), B {}x{} ({}), ta={}, tb={}: {}", ar, ac, PATS[pa], br, bc, PATS[pb], ta, tb, p)),
                }
                if m * l * n <= 40 * 40 * 40 {
                    match guard(|| matmul_blocked(&a, &b, ar, br, ta, tb, 8)) {
                        Ok(got) => {
                            if !same(&got, &want) {
                                run.violate(&format!("matmul_blocked/{}{}/wrong-values/value-pattern", fl(ta), fl(tb)), || format!("A {}x{} ({}), B {}x{} ({}), ta={}, tb={}", ar, ac, PATS[pa], br, bc, PATS[pb], ta, tb));
                            }
                        }
                        Err(p) => run.violate(&format!("matmul_blocked/{}{}/panic-on-conformable", fl(ta), fl(tb)), || format!("A {}x{} ({}), B {}x{} ({}): {}", ar, ac, PATS[pa], br, bc, PATS[pb], p)),
                    }
                    // the trait form on Matrix objects
                    let (am, bm) = (Matrix::new(a.clone(), ar as i32, ac as i32), Matrix::new(b.clone(), br as i32, bc as i32));
                    let r = guard(|| match (ta, tb) {
                        (false, false) => am.dot(&bm),
                        (true, false) => am.t_dot(&bm),
                        (false, true) => am.dot_t(&bm),
                        (true, true) => am.t_dot_t(&bm),
                    });
                    match r {
                        Ok(g) => {
                            if g.shape() != [m, n] || !same(&g.data.v, &want) {
                                run.violate("Dot/MatMat/wrong-values/value-pattern", || format!("A {}x{} ({}), B {}x{} ({}), ta={}, tb={}", ar, ac, PATS[pa], br, bc, PATS[pb], ta, tb));
                            }
                        }
                        Err(p) => run.violate("Dot/MatMat/panic-on-conformable", || format!("A {}x{} ({}), B {}x{} ({}): {}", ar, ac, PATS[pa], br, bc, PATS[pb], p)),
                    }
                }
            }
        }
    });

    // ---- entries on different scales: the leading quadrant of both operands multiplied by 2^26. Every entry of the
    // product outside its leading quadrant is a sum of exactly representable terms below 2^53 and must be exact
    {
        let shapes: Vec<(usize, usize, usize)> = if run.thorough() { vec![(8, 8, 8), (32, 32, 32), (36, 40, 34), (33, 40, 34), (48, 34, 50), (64, 64, 64), (70, 66, 68), (128, 64, 96)] } else { vec![(8, 8, 8), (32, 32, 32), (36, 40, 34), (33, 40, 34), (48, 34, 50), (64, 64, 64)] };
        run.bound("mixed-scale operands", format!("{:?} × 4 flag pairs, leading quadrant × 2^26", shapes));
        shapes.par_iter().for_each(|&(m, l, n)| {
            for &ta in &[false, true] {
                for &tb in &[false, true] {
                    let (ar, ac) = if ta { (l, m) } else { (m, l) };
                    let (br, bc) = if tb { (n, l) } else { (l, n) };
                    let big = 2f64.powi(26);
                    let a: Vec<f64> = fill(ar, ac, 0).iter().enumerate().map(|(k, v)| if k / ac < ar / 2 && k % ac < ac / 2 { v * big } else { *v }).collect();
                    let b: Vec<f64> = fill(br, bc, 50).iter().enumerate().map(|(k, v)| if k / bc < br / 2 && k % bc < bc / 2 { v * big } else { *v }).collect();
                    let ea = |i: usize, k: usize| if ta { a[k * ac + i] } else { a[i * ac + k] };
                    let eb = |k: usize, j: usize| if tb { b[j * bc + k] } else { b[k * bc + j] };
                    run.case();
                    run.tr();
                    run.ok();
                    run.nontrivial(1);
                    for blocked in [false, true] {
                        let site = format!("{}/{}{}", if blocked { "matmul_blocked" } else { "matmul" }, fl(ta), fl(tb));
                        match guard(|| if blocked { matmul_blocked(&a, &b, ar, br, ta, tb, 8) } else { matmul(&a, &b, ar, br, ta, tb) }) {
                            Ok(got) => {
                                let mut bad = None;
                                'outer: for i in 0..m {
                                    for j in 0..n {
                                        if i < m / 2 && j < n / 2 {
                                            continue;
                                        }
                                        // exact whatever the order of summation: every term is a multiple of 1/16 and the
                                        // entry stays below 2^49 (in sixteenths: below 2^53)
                                        let want16: i128 = (0..l).map(|k| (ea(i, k) * 4.0) as i128 * (eb(k, j) * 4.0) as i128).sum();
                                        assert!(want16 < (1i128 << 53));
                                        let want = want16 as f64 / 16.0;
                                        if got.len() != m * n || got[i * n + j] != want {
                                            bad = Some((i, j, got.get(i * n + j).copied().unwrap_or(f64::NAN), want));
                                            break 'outer;
                                        }
                                    }
                                }
                                match bad {
                                    Some((i, j, g, w)) => run.violate(&format!("{}/wrong-values/mixed-scale", site), || format!("A {}x{}, B {}x{} with the leading quadrants × 2^26, ta={}, tb={}: entry ({},{}) = {:e}, exact value {:e}", ar, ac, br, bc, ta, tb, i, j, g, w)),
                                    None => run.regime("mixed-scale-operands"),
                                }
                            }
                            Err(p) => run.violate(&format!("{}/panic-on-conformable", site), || format!("mixed-scale A {}x{}, B {}x{}: {}", ar, ac, br, bc, p)),
                        }
                    }
                }
            }
        });
    }

    // ---- trait forms on operands of magnitude 2^-60 (distinct matrices that an absolute comparison at machine epsilon
    // cannot tell apart), on A and -A, and on A and the zero matrix --------------------------------------------------
    {
        let shapes = [(3usize, 4usize, 5usize), (4, 4, 4), (2, 6, 2), (8, 8, 8), (5, 3, 5), (1, 7, 1)];
        let sc = 2f64.powi(-60);
        for &(m, l, n) in &shapes {
            for which in 0..4usize {
                let (ta, tb) = [(false, false), (true, false), (false, true), (true, true)][which];
                let (ar, ac) = if ta { (l, m) } else { (m, l) };
                let (br, bc) = if tb { (n, l) } else { (l, n) };
                let a0 = fill(ar, ac, 0);
                let mut partners: Vec<(&str, Vec<f64>)> = vec![("another tiny matrix", fill(br, bc, 50)), ("the zero matrix", vec![0.0; br * bc])];
                if (ar, ac) == (br, bc) {
                    partners.push(("its own negative", a0.iter().map(|v| -v).collect()));
                    partners.push(("itself shifted by one unit", a0.iter().map(|v| v + 1.0).collect()));
                }
                for (pname, b0) in partners {
                    run.case();
                    run.tr();
                    run.ok();
                    run.nontrivial(1);
                    let (want, wr, wc) = ref_mm(&a0, ar, ac, ta, &b0, br, bc, tb).unwrap();
                    let am = Matrix::new(a0.iter().map(|v| v * sc).collect::<Vec<f64>>(), ar as i32, ac as i32);
                    let bm = Matrix::new(b0.iter().map(|v| v * sc).collect::<Vec<f64>>(), br as i32, bc as i32);
                    let name = ["dot", "t_dot", "dot_t", "t_dot_t"][which];
                    let r = guard(|| match which {
                        0 => am.dot(&bm),
                        1 => am.t_dot(&bm),
                        2 => am.dot_t(&bm),
                        _ => am.t_dot_t(&bm),
                    });
                    match r {
                        Ok(g) => {
                            let back: Vec<f64> = g.data.v.iter().map(|v| v / sc / sc).collect();
                            if g.shape() != [wr, wc] || !same(&back, &want) {
                                run.violate(&format!("Dot/MatMat/{}/tiny-operands", name), || format!("A {}x{} * 2^-60 .{}( {} ): got (rescaled) {:?}, want sixteenths {:?}", ar, ac, name, pname, back, want));
                            } else {
                                run.regime("tiny-operands-trait-forms");
                            }
                        }
                        Err(p) => run.violate("Dot/MatMat/panic-on-conformable", || format!("tiny operands {}x{} {} {}x{}: {}", ar, ac, name, br, bc, p)),
                    }
                }
            }
        }
    }

    // ---- Dot trait: Matrix · Matrix ------------------------------------------------------
    let sd = run.tier.pick(5usize, 9usize);
    run.bound("Dot shape pairs", format!("(r1,c1,r2,c2) in 1..={}^4, all 16 method×form combinations", sd));
    let mut pairs = Vec::new();
    for r1 in 1..=sd {
        for c1 in 1..=sd {
            for r2 in 1..=sd {
                for c2 in 1..=sd {
                    pairs.push((r1, c1, r2, c2));
                }
            }
        }
    }
    pairs.par_iter().for_each(|&(r1, c1, r2, c2)| {
        let av = fill(r1, c1, 0);
        let bv = fill(r2, c2, 50);
        let a = Matrix::new(av.clone(), r1 as i32, c1 as i32);
        let b = Matrix::new(bv.clone(), r2 as i32, c2 as i32);
        let methods: [(&str, bool, bool); 4] = [("dot", false, false), ("t_dot", true, false), ("dot_t", false, true), ("t_dot_t", true, true)];
        for (mi, &(mname, ta, tb)) in methods.iter().enumerate() {
            let want = ref_mm(&av, r1, c1, ta, &bv, r2, c2, tb);
            for form in 0..4 {
                run.case();
                run.tr();
                run.nontrivial(1);
                let a2 = a.clone();
                let b2 = b.clone();
                let res = guard(|| match (form, mi) {
                    (0, 0) => <Matrix as Dot<Matrix, Matrix>>::dot(&a2, b2),
                    (0, 1) => <Matrix as Dot<Matrix, Matrix>>::t_dot(&a2, b2),
                    (0, 2) => <Matrix as Dot<Matrix, Matrix>>::dot_t(&a2, b2),
                    (0, 3) => <Matrix as Dot<Matrix, Matrix>>::t_dot_t(&a2, b2),
                    (1, 0) => <Matrix as Dot<&Matrix, Matrix>>::dot(&a2, &b2),
                    (1, 1) => <Matrix as Dot<&Matrix, Matrix>>::t_dot(&a2, &b2),
                    (1, 2) => <Matrix as Dot<&Matrix, Matrix>>::dot_t(&a2, &b2),
                    (1, 3) => <Matrix as Dot<&Matrix, Matrix>>::t_dot_t(&a2, &b2),
                    (2, 0) => <&Matrix as Dot<Matrix, Matrix>>::dot(&&a2, b2),
                    (2, 1) => <&Matrix as Dot<Matrix, Matrix>>::t_dot(&&a2, b2),
                    (2, 2) => <&Matrix as Dot<Matrix, Matrix>>::dot_t(&&a2, b2),
                    (2, 3) => <&Matrix as Dot<Matrix, Matrix>>::t_dot_t(&&a2, b2),
                    (3, 0) => <&Matrix as Dot<&Matrix, Matrix>>::dot(&&a2, &b2),
                    (3, 1) => <&Matrix as Dot<&Matrix, Matrix>>::t_dot(&&a2, &b2),
                    (3, 2) => <&Matrix as Dot<&Matrix, Matrix>>::dot_t(&&a2, &b2),
                    _ => <&Matrix as Dot<&Matrix, Matrix>>::t_dot_t(&&a2, &b2),
                });
                let site = format!("Dot/MatMat/{}", mname);
                let desc = || format!("A {}x{} . B {}x{} via {} (ownership form {})", r1, c1, r2, c2, mname, form);
                judge_mat(run, &site, &desc, res, &want);
            }
        }
        run.sample(|| format!("Dot Matrix {}x{} with Matrix {}x{}: 4 methods x 4 forms", r1, c1, r2, c2));
    });

    // ---- Dot trait: Matrix · Vector, Vector · Matrix, Vector · Vector ---------------------
    let vl = run.tier.pick(6usize, 12usize);
    run.bound("Dot vector lengths", format!("1..={} against all matrix shapes 1..={}^2", vl, sd));
    let mut mv = Vec::new();
    for r in 1..=sd {
        for c in 1..=sd {
            for n in 1..=vl {
                mv.push((r, c, n));
            }
        }
    }
    // longer operands for the matrix-vector forms (an unrolled direct kernel would start its second block at 16)
    for &r in &[15usize, 16, 17, 24, 33, 40] {
        for &c in &[1usize, 3, 8, 17] {
            for n in [r, c] {
                mv.push((r, c, n));
                mv.push((c, r, n));
            }
        }
    }
    mv.par_iter().for_each(|&(r, c, n)| {
        let av = fill(r, c, 0);
        let a = Matrix::new(av.clone(), r as i32, c as i32);
        let xv = fill(n, 1, 50);
        let x = Vector::new(xv.clone());
        let names = ["dot", "t_dot", "dot_t", "t_dot_t"];
        for mi in 0..4 {
            // Matrix · Vector: the vector is a column; transposing the vector does nothing
            let ta = mi == 1 || mi == 3;
            let want = ref_mm(&av, r, c, ta, &xv, n, 1, false);
            // Vector · Matrix: the vector is a row; transposing the vector does nothing
            let tb = mi == 2 || mi == 3;
            let want_vm = ref_mm(&xv, 1, n, false, &av, r, c, tb);
            for form in 0..4 {
                run.cases(2);
                run.trs(2);
                run.nontrivial(2);
                let (a2, x2) = (a.clone(), x.clone());
                let res = guard(|| match (form, mi) {
                    (0, 0) => <Matrix as Dot<Vector, Vector>>::dot(&a2, x2),
                    (0, 1) => <Matrix as Dot<Vector, Vector>>::t_dot(&a2, x2),
                    (0, 2) => <Matrix as Dot<Vector, Vector>>::dot_t(&a2, x2),
                    (0, 3) => <Matrix as Dot<Vector, Vector>>::t_dot_t(&a2, x2),
                    (1, 0) => <Matrix as Dot<&Vector, Vector>>::dot(&a2, &x2),
                    (1, 1) => <Matrix as Dot<&Vector, Vector>>::t_dot(&a2, &x2),
                    (1, 2) => <Matrix as Dot<&Vector, Vector>>::dot_t(&a2, &x2),
                    (1, 3) => <Matrix as Dot<&Vector, Vector>>::t_dot_t(&a2, &x2),
                    (2, 0) => <&Matrix as Dot<Vector, Vector>>::dot(&&a2, x2),
                    (2, 1) => <&Matrix as Dot<Vector, Vector>>::t_dot(&&a2, x2),
                    (2, 2) => <&Matrix as Dot<Vector, Vector>>::dot_t(&&a2, x2),
                    (2, 3) => <&Matrix as Dot<Vector, Vector>>::t_dot_t(&&a2, x2),
                    (3, 0) => <&Matrix as Dot<&Vector, Vector>>::dot(&&a2, &x2),
                    (3, 1) => <&Matrix as Dot<&Vector, Vector>>::t_dot(&&a2, &x2),
                    (3, 2) => <&Matrix as Dot<&Vector, Vector>>::dot_t(&&a2, &x2),
                    _ => <&Matrix as Dot<&Vector, Vector>>::t_dot_t(&&a2, &x2),
                });
                let site = format!("Dot/MatVec/{}", names[mi]);
                let desc = || format!("A {}x{} . v len {} via {} (form {})", r, c, n, names[mi], form);
                judge_vec(run, &site, &desc, res, &want);

                let (a2, x2) = (a.clone(), x.clone());
                let res = guard(|| match (form, mi) {
                    (0, 0) => <Vector as Dot<Matrix, Vector>>::dot(&x2, a2),
                    (0, 1) => <Vector as Dot<Matrix, Vector>>::t_dot(&x2, a2),
                    (0, 2) => <Vector as Dot<Matrix, Vector>>::dot_t(&x2, a2),
                    (0, 3) => <Vector as Dot<Matrix, Vector>>::t_dot_t(&x2, a2),
                    (1, 0) => <Vector as Dot<&Matrix, Vector>>::dot(&x2, &a2),
                    (1, 1) => <Vector as Dot<&Matrix, Vector>>::t_dot(&x2, &a2),
                    (1, 2) => <Vector as Dot<&Matrix, Vector>>::dot_t(&x2, &a2),
                    (1, 3) => <Vector as Dot<&Matrix, Vector>>::t_dot_t(&x2, &a2),
                    (2, 0) => <&Vector as Dot<Matrix, Vector>>::dot(&&x2, a2),
                    (2, 1) => <&Vector as Dot<Matrix, Vector>>::t_dot(&&x2, a2),
                    (2, 2) => <&Vector as Dot<Matrix, Vector>>::dot_t(&&x2, a2),
                    (2, 3) => <&Vector as Dot<Matrix, Vector>>::t_dot_t(&&x2, a2),
                    (3, 0) => <&Vector as Dot<&Matrix, Vector>>::dot(&&x2, &a2),
                    (3, 1) => <&Vector as Dot<&Matrix, Vector>>::t_dot(&&x2, &a2),
                    (3, 2) => <&Vector as Dot<&Matrix, Vector>>::dot_t(&&x2, &a2),
                    _ => <&Vector as Dot<&Matrix, Vector>>::t_dot_t(&&x2, &a2),
                });
                let site = format!("Dot/VecMat/{}", names[mi]);
                let desc = || format!("v len {} . A {}x{} via {} (form {})", n, r, c, names[mi], form);
                judge_vec(run, &site, &desc, res, &want_vm);
            }
        }
    });
    // Vector · Vector
    for n1 in 1..=vl {
        for n2 in 1..=vl {
            let xv = fill(n1, 1, 0);
            let yv = fill(n2, 1, 50);
            let (x, y) = (Vector::new(xv.clone()), Vector::new(yv.clone()));
            let want: Option<i64> = if n1 == n2 { Some((0..n1).map(|i| (xv[i] * 4.0) as i64 * (yv[i] * 4.0) as i64).sum()) } else { None };
            let names = ["dot", "t_dot", "dot_t", "t_dot_t"];
            for mi in 0..4 {
                for form in 0..4 {
                    run.case();
                    run.tr();
                    run.nontrivial(1);
                    let (x2, y2) = (x.clone(), y.clone());
                    let res = guard(|| match (form, mi) {
                        (0, 0) => <Vector as Dot<Vector, f64>>::dot(&x2, y2),
                        (0, 1) => <Vector as Dot<Vector, f64>>::t_dot(&x2, y2),
                        (0, 2) => <Vector as Dot<Vector, f64>>::dot_t(&x2, y2),
                        (0, 3) => <Vector as Dot<Vector, f64>>::t_dot_t(&x2, y2),
                        (1, 0) => <Vector as Dot<&Vector, f64>>::dot(&x2, &y2),
                        (1, 1) => <Vector as Dot<&Vector, f64>>::t_dot(&x2, &y2),
                        (1, 2) => <Vector as Dot<&Vector, f64>>::dot_t(&x2, &y2),
                        (1, 3) => <Vector as Dot<&Vector, f64>>::t_dot_t(&x2, &y2),
                        (2, 0) => <&Vector as Dot<Vector, f64>>::dot(&&x2, y2),
                        (2, 1) => <&Vector as Dot<Vector, f64>>::t_dot(&&x2, y2),
                        (2, 2) => <&Vector as Dot<Vector, f64>>::dot_t(&&x2, y2),
                        (2, 3) => <&Vector as Dot<Vector, f64>>::t_dot_t(&&x2, y2),
                        (3, 0) => <&Vector as Dot<&Vector, f64>>::dot(&&x2, &y2),
                        (3, 1) => <&Vector as Dot<&Vector, f64>>::t_dot(&&x2, &y2),
                        (3, 2) => <&Vector as Dot<&Vector, f64>>::dot_t(&&x2, &y2),
                        _ => <&Vector as Dot<&Vector, f64>>::t_dot_t(&&x2, &y2),
                    });
                    let site = format!("Dot/VecVec/{}", names[mi]);
                    run.ok();
                    match (res, want) {
                        (Ok(g), Some(w)) => {
                            if g * 16.0 != w as f64 {
                                run.violate(&format!("{}/wrong-values", site), || format!("len {} . len {} form {}: got {}, want {}", n1, n2, form, g, w));
                            }
                            run.outcome(&(&site, "value"));
                        }
                        (Ok(g), None) => {
                            run.outcome(&(&site, "accepted-nonconformable"));
                            run.violate(&format!("{}/no-panic-on-nonconformable", site), || format!("len {} . len {} form {}: returned {}", n1, n2, form, g));
                        }
                        (Err(p), Some(_)) => {
                            run.violate(&format!("{}/panic-on-conformable", site), || format!("len {} . len {} form {}: panicked: {}", n1, n2, form, p));
                        }
                        (Err(_), None) => run.outcome(&(&site, "rejected")),
                    }
                }
            }
        }
    }
    run.require_regime("dot-conformable-ok");
    run.require_regime("dot-nonconformable-rejected");
    run.require_regime("scaled-operands");
    run.require_regime("aliased-operands");
    run.assume("entries are small integers and quarter-integers, also scaled by exact powers of two (2^-600..2^600), so that f64 arithmetic is exact; other real-valued entries are not enumerated");
    run.assume("the raw slice function matmul is judged on conformable calls only (the slice API cannot see logical shapes)");
}

fn judge_mat(run: &Run, site: &str, desc: &dyn Fn() -> String, res: Result<Matrix, String>, want: &Option<(Vec<i64>, usize, usize)>) {
    run.ok();
    match (res, want) {
        (Ok(g), Some((w, m, n))) => {
            if g.nrows != *m || g.ncols != *n || g.data.len() != m * n {
                run.outcome(&(site, "shape"));
                run.violate(&format!("{}/wrong-shape", site), || format!("{}: got {}x{} ({} elements), want {}x{}", desc(), g.nrows, g.ncols, g.data.len(), m, n));
            } else if !same(&g.data, w) {
                run.outcome(&(site, "values"));
                run.violate(&format!("{}/wrong-values", site), || format!("{}: got {:?}, want {:?}", desc(), g.data.v, w));
            } else {
                run.outcome(&(site, "ok"));
                run.regime("dot-conformable-ok");
            }
        }
        (Ok(g), None) => {
            run.outcome(&(site, "accepted-nonconformable"));
            run.violate(&format!("{}/no-panic-on-nonconformable", site), || format!("{}: returned a {}x{} matrix", desc(), g.nrows, g.ncols));
        }
        (Err(p), Some(_)) => {
            run.outcome(&(site, "panic-conformable"));
            run.violate(&format!("{}/panic-on-conformable", site), || format!("{}: panicked: {}", desc(), p));
        }
        (Err(_), None) => {
            run.outcome(&(site, "rejected"));
            run.regime("dot-nonconformable-rejected");
        }
    }
}

fn judge_vec(run: &Run, site: &str, desc: &dyn Fn() -> String, res: Result<Vector, String>, want: &Option<(Vec<i64>, usize, usize)>) {
    run.ok();
    match (res, want) {
        (Ok(g), Some((w, _, _))) => {
            if !same(&g.v, w) {
                run.outcome(&(site, "values"));
                run.violate(&format!("{}/wrong-values", site), || format!("{}: got {:?}, want {:?}", desc(), g.v, w));
            } else {
                run.outcome(&(site, "ok"));
            }
        }
        (Ok(g), None) => {
            run.outcome(&(site, "accepted-nonconformable"));
            run.violate(&format!("{}/no-panic-on-nonconformable", site), || format!("{}: returned {:?}", desc(), g.v));
        }
        (Err(p), Some(_)) => {
            run.outcome(&(site, "panic-conformable"));
            run.violate(&format!("{}/panic-on-conformable", site), || format!("{}: panicked: {}", desc(), p));
        }
        (Err(_), None) => run.outcome(&(site, "rejected")),
    }
}
