//! C06 — GLM fitting returns the (penalised) MLE with correct inference.
//! Engine E3 with all step budgets enumerated: six families × four lattice designs × every
//! response vector over a small alphabet × weights × offsets × penalties × tolerances × iteration
//! budgets; oracle: ridge-penalised score equations and Newton decrement in double-double at the
//! *returned* coefficients, independent deviance / information / prediction formulas.
const U: f64 = 1.1102230246251565e-16;
use crate::common::dd::DD;
use crate::common::enumerate::{par_words, permutations};
use crate::common::{guard, Run};
use compute::predict::{ExponentialFamily, GLM};

#[derive(Clone, Copy, PartialEq, Debug)]
enum Fam {
    Gaussian,
    Bernoulli,
    Poisson,
    QuasiPoisson,
    Gamma,
    Exponential,
}
impl Fam {
    fn real(self) -> ExponentialFamily {
        match self {
            Fam::Gaussian => ExponentialFamily::Gaussian,
            Fam::Bernoulli => ExponentialFamily::Bernoulli,
            Fam::Poisson => ExponentialFamily::Poisson,
            Fam::QuasiPoisson => ExponentialFamily::QuasiPoisson,
            Fam::Gamma => ExponentialFamily::Gamma,
            Fam::Exponential => ExponentialFamily::Exponential,
        }
    }
    fn name(self) -> &'static str {
        match self {
            Fam::Gaussian => "Gaussian",
            Fam::Bernoulli => "Bernoulli",
            Fam::Poisson => "Poisson",
            Fam::QuasiPoisson => "QuasiPoisson",
            Fam::Gamma => "Gamma",
            Fam::Exponential => "Exponential",
        }
    }
    fn alphabet(self) -> &'static [f64] {
        match self {
            Fam::Gaussian => &[-1.0, 0.0, 1.0, 2.0],
            Fam::Bernoulli => &[0.0, 1.0],
            Fam::Poisson | Fam::QuasiPoisson => &[0.0, 1.0, 2.0, 3.0],
            Fam::Gamma | Fam::Exponential => &[0.5, 1.0, 2.0, 4.0],
        }
    }
    fn has_dispersion(self) -> bool {
        matches!(self, Fam::Gaussian | Fam::QuasiPoisson | Fam::Gamma)
    }
    /// (μ, dμ/dη, V(μ)) at linear predictor η
    fn mean(self, eta: f64) -> (f64, f64, f64) {
        match self {
            Fam::Gaussian => (eta, 1.0, 1.0),
            Fam::Bernoulli => {
                let m = 1.0 / (1.0 + (-eta).exp());
                (m, m * (1.0 - m), m * (1.0 - m))
            }
            Fam::Poisson | Fam::QuasiPoisson => {
                let m = eta.exp();
                (m, m, m)
            }
            Fam::Gamma | Fam::Exponential => {
                let m = eta.exp();
                (m, m, m * m)
            }
        }
    }
    fn unit_deviance(self, y: f64, m: f64) -> f64 {
        match self {
            Fam::Gaussian => (y - m) * (y - m),
            Fam::Bernoulli => -2.0 * (if y > 0.0 { y * m.ln() } else { 0.0 } + if y < 1.0 { (1.0 - y) * (1.0 - m).ln() } else { 0.0 }),
            Fam::Poisson | Fam::QuasiPoisson => 2.0 * (m - y + if y > 0.0 { y * (y / m).ln() } else { 0.0 }),
            Fam::Gamma | Fam::Exponential => 2.0 * ((y - m) / m - (y / m).ln()),
        }
    }
}

#[derive(Clone)]
struct Inst {
    fam: Fam,
    x: Vec<f64>, // n×p row-major design with a leading column of ones
    n: usize,
    p: usize,
    y: Vec<f64>,
    w: Option<Vec<f64>>,
    off: Option<Vec<f64>>,
    alpha: f64,
    tol: f64,
    design: &'static str,
}
impl Inst {
    fn describe(&self) -> String {
        format!("{} design={} X({}x{})={:?} y={:?} weights={:?} offset={:?} alpha={} tol={:e}", self.fam.name(), self.design, self.n, self.p, self.x, self.y, self.w, self.off, self.alpha, self.tol)
    }
    fn weights(&self) -> Vec<f64> {
        self.w.clone().unwrap_or_else(|| vec![1.0; self.n])
    }
    fn eta(&self, beta: &[f64]) -> Vec<f64> {
        (0..self.n).map(|i| (0..self.p).map(|j| self.x[i * self.p + j] * beta[j]).sum::<f64>() + self.off.as_ref().map(|o| o[i]).unwrap_or(0.0)).collect()
    }
    /// penalised score, penalised information (row-major), Newton decrement², deviances (unweighted, weighted)
    fn score_info(&self, beta: &[f64]) -> (Vec<f64>, Vec<f64>, f64, f64) {
        let (n, p) = (self.n, self.p);
        let w = self.weights();
        let eta = self.eta(beta);
        let mut s = vec![DD::ZERO; p];
        let mut info = vec![DD::ZERO; p * p];
        let (mut dev, mut wdev) = (0.0, 0.0);
        for i in 0..n {
            let (m, dm, v) = self.fam.mean(eta[i]);
            let r = DD::new(w[i]) * (DD::new(self.y[i]) - DD::new(m)) * DD::new(dm / v);
            let ww = w[i] * dm * dm / v;
            for j in 0..p {
                s[j] = s[j] + r * DD::new(self.x[i * p + j]);
                for k in 0..p {
                    info[j * p + k] = info[j * p + k] + DD::new(ww * self.x[i * p + j] * self.x[i * p + k]);
                }
            }
            let d = self.fam.unit_deviance(self.y[i], m);
            dev += d;
            wdev += w[i] * d;
        }
        for j in 1..p {
            s[j] = s[j] - DD::new(self.alpha * beta[j]);
            info[j * p + j] = info[j * p + j] + DD::new(self.alpha);
        }
        (s.iter().map(|v| v.f()).collect(), info.iter().map(|v| v.f()).collect(), dev, wdev)
    }
    fn decrement2(&self, s: &[f64], info: &[f64]) -> Option<f64> {
        let p = self.p;
        let a: Vec<DD> = info.iter().map(|v| DD::new(*v)).collect();
        let b: Vec<DD> = s.iter().map(|v| DD::new(*v)).collect();
        let z = dd_solve(&a, &b, p)?;
        Some(z.iter().zip(s).map(|(a, b)| a * b).sum())
    }
    /// the oracle's own damped Newton: Some(β) if a moderate finite MLE exists
    fn mle(&self) -> Option<Vec<f64>> {
        let p = self.p;
        let mut beta = vec![0.0; p];
        // a safe start: intercept at the link of the mean response
        let ybar = self.y.iter().sum::<f64>() / self.n as f64;
        beta[0] = match self.fam {
            Fam::Gaussian => ybar,
            Fam::Bernoulli => (ybar.clamp(0.05, 0.95) / (1.0 - ybar.clamp(0.05, 0.95))).ln(),
            _ => ybar.max(0.05).ln(),
        };
        let obj = |b: &[f64]| -> f64 {
            let (_, _, _, wdev) = self.score_info(b);
            wdev + self.alpha * b[1..].iter().map(|v| v * v).sum::<f64>()
        };
        for _ in 0..200 {
            let (s, info, _, _) = self.score_info(&beta);
            let a: Vec<DD> = info.iter().map(|v| DD::new(*v)).collect();
            let b: Vec<DD> = s.iter().map(|v| DD::new(*v)).collect();
            let step = dd_solve(&a, &b, p)?;
            let dec: f64 = step.iter().zip(&s).map(|(a, b)| a * b).sum();
            if !dec.is_finite() {
                return None;
            }
            if dec.abs() < 1e-26 {
                return if beta.iter().all(|v| v.abs() <= 10.0) { Some(beta) } else { None };
            }
            let f0 = obj(&beta);
            let mut t = 1.0;
            loop {
                let cand: Vec<f64> = beta.iter().zip(&step).map(|(b, d)| b + t * d).collect();
                let f1 = obj(&cand);
                if f1.is_finite() && f1 <= f0 + 1e-12 * f0.abs().max(1.0) {
                    beta = cand;
                    break;
                }
                t *= 0.5;
                if t < 1e-12 {
                    return None;
                }
            }
            if beta.iter().any(|v| v.abs() > 50.0) {
                return None;
            }
        }
        None
    }
}

fn dd_solve(a: &[DD], b: &[DD], n: usize) -> Option<Vec<f64>> {
    let mut m = a.to_vec();
    let mut r = b.to_vec();
    for c in 0..n {
        let mut p = c;
        for i in c + 1..n {
            if m[i * n + c].hi.abs() > m[p * n + c].hi.abs() {
                p = i;
            }
        }
        if !(m[p * n + c].hi.abs() > 0.0) || !m[p * n + c].hi.is_finite() {
            return None;
        }
        if p != c {
            for k in 0..n {
                m.swap(p * n + k, c * n + k);
            }
            r.swap(p, c);
        }
        for i in c + 1..n {
            let f = m[i * n + c] / m[c * n + c];
            for k in c..n {
                m[i * n + k] = m[i * n + k] - f * m[c * n + k];
            }
            r[i] = r[i] - f * r[c];
        }
    }
    let mut x = vec![DD::ZERO; n];
    for i in (0..n).rev() {
        let mut s = r[i];
        for k in i + 1..n {
            s = s - m[i * n + k] * x[k];
        }
        x[i] = s / m[i * n + i];
    }
    let out: Vec<f64> = x.iter().map(|d| d.f()).collect();
    if out.iter().all(|v| v.is_finite()) {
        Some(out)
    } else {
        None
    }
}

struct Fit {
    coef: Vec<f64>,
    deviance: f64,
    dispersion: f64,
    se: Result<Vec<f64>, String>,
    pred: Vec<f64>,
}

thread_local! {
    /// what happened to the model object before the fit that is judged: 0 = nothing (fresh object),
    /// 1 = a fit with a budget of one iteration (normally an Err), 2 = a fit to the reversed response
    static HISTORY: std::cell::Cell<u8> = std::cell::Cell::new(0);
}
fn with_history<T>(h: u8, f: impl FnOnce() -> T) -> T {
    HISTORY.with(|c| c.set(h));
    let r = f();
    HISTORY.with(|c| c.set(0));
    r
}

fn run_fit(inst: &Inst, max_iter: usize) -> Result<Result<Fit, String>, String> {
    let hist = HISTORY.with(|c| c.get());
    guard(|| {
        let mut g = GLM::new(inst.fam.real());
        g.set_penalty(inst.alpha).set_tolerance(inst.tol);
        if let Some(w) = &inst.w {
            g.set_weights(w);
        }
        if let Some(o) = &inst.off {
            g.set_offset(o);
        }
        // the property speaks about every fit that reports success, not only the first fit of an object
        match hist {
            1 => {
                let _ = g.fit(&inst.x, &inst.y, 1);
            }
            2 => {
                let yr: Vec<f64> = inst.y.iter().rev().cloned().collect();
                let _ = g.fit(&inst.x, &yr, 25);
            }
            3 => {
                // a copy of the configured model is the model that is fitted
                let copy = g.clone();
                drop(std::mem::replace(&mut g, copy));
            }
            _ => {}
        }
        match g.fit(&inst.x, &inst.y, max_iter) {
            Err(e) => Err(e.to_string()),
            Ok(()) => {
                let coef = g.coef().unwrap().to_vec();
                let deviance = g.deviance().unwrap();
                let dispersion = g.dispersion().unwrap();
                let se = crate::common::guard(|| g.coef_standard_error().unwrap());
                let pred = g.predict(&inst.x).unwrap().v.clone();
                Ok(Fit { coef, deviance, dispersion, se, pred })
            }
        }
    })
}

fn judge(run: &Run, inst: &Inst, max_iter: usize, has_mle: bool) {
    run.case();
    run.tr();
    let fam = inst.fam.name();
    let acls = if inst.alpha == 0.0 { "alpha=0" } else if inst.alpha == 1.0 { "alpha=1" } else { "alpha-other" };
    let hist = HISTORY.with(|c| c.get());
    let desc = || format!("{} max_iter={}{}", inst.describe(), max_iter, match hist {
        1 => " [same object after a fit with max_iter=1]",
        2 => " [same object after a fit to the reversed response]",
        3 => " [a clone of the configured model]",
        _ => "",
    });
    if hist != 0 {
        run.regime("refit-on-used-object");
    }
    match run_fit(inst, max_iter) {
        Err(p) => {
            // a panic is neither Ok nor Err: for a well-posed instance it is a failure to answer
            if has_mle {
                run.ok();
                run.outcome(&(fam, "panic"));
                run.violate(&format!("fit/panic/{}", fam), || format!("{}: panicked: {}", desc(), p));
            } else {
                run.skip("panic on an instance without a moderate finite MLE");
            }
        }
        Ok(Err(_)) => {
            run.outcome(&(fam, "err", max_iter.min(6)));
            run.regime("fit-reports-error");
        }
        Ok(Ok(f)) => {
            run.ok();
            if f.coef.len() != inst.p || f.coef.iter().any(|v| !v.is_finite()) {
                run.violate(&format!("fit/ok-with-non-finite-coefficients/{}", fam), || format!("{}: coef {:?}", desc(), f.coef));
                return;
            }
            let (s, info, dev, wdev) = inst.score_info(&f.coef);
            // (a) score equations at the returned coefficients, measured by the Newton decrement
            let dec = inst.decrement2(&s, &info);
            let mut bound = 10.0 * inst.tol * (1.0 + wdev.abs()) + 1e-20;
            if inst.fam == Fam::Gaussian {
                // "for the Gaussian family they coincide with (weighted, ridge) least squares": the
                // objective is quadratic, one scoring step is exact, and the decrement at the returned
                // point is rounding-level whatever the tolerance
                let wy2: f64 = inst.weights().iter().zip(&inst.y).enumerate().map(|(i, (w, y))| w * (y - inst.off.as_ref().map(|o| o[i]).unwrap_or(0.0)).powi(2)).sum();
                bound = bound.min(1e-16 * (1.0 + wy2));
                run.regime("gaussian-coincides-with-least-squares");
            }
            match dec {
                Some(d) if d.abs() <= bound => {
                    run.outcome(&(fam, "score-ok", acls));
                    run.regime(&format!("ok:{}", fam));
                }
                Some(d) => {
                    run.outcome(&(fam, "score-bad", acls));
                    run.violate(&format!("fit/score-equations/{}/{}", fam, acls), || format!("{}: Ok with coef {:?} but penalised score {:?} (Newton decrement^2 {:e} > {:e})", desc(), f.coef, s, d, bound));
                    return;
                }
                None => {
                    run.skip("singular information at the returned point");
                    return;
                }
            }
            // (c) deviance at the fitted means
            let dtol = 10.0 * inst.tol.max(1e-12) * (1.0 + dev.abs()) + 1e-9 * dev.abs();
            let dev_ok = (f.deviance - dev).abs() <= dtol || (inst.w.is_some() && (f.deviance - wdev).abs() <= dtol * (1.0 + wdev.abs()));
            // Gaussian: the deviance is the residual sum of squares at the returned coefficients, which a
            // direct evaluation delivers to within the rounding of the residuals (not of the responses)
            let gauss_bad = if inst.fam == Fam::Gaussian {
                let w = inst.weights();
                let (mut rss, mut wrss, mut slack, mut wslack) = (DD::ZERO, DD::ZERO, 0.0f64, 0.0f64);
                for i in 0..inst.n {
                    let mut m = DD::new(inst.off.as_ref().map(|o| o[i]).unwrap_or(0.0));
                    let mut mag = inst.y[i].abs() + m.f().abs();
                    for j in 0..inst.p {
                        m = m + DD::new(inst.x[i * inst.p + j]) * DD::new(f.coef[j]);
                        mag += (inst.x[i * inst.p + j] * f.coef[j]).abs();
                    }
                    let r = DD::new(inst.y[i]) - m;
                    let e = (inst.p as f64 + 3.0) * U * mag;
                    rss = rss + r * r;
                    wrss = wrss + DD::new(w[i]) * r * r;
                    slack += 2.0 * r.f().abs() * e + e * e;
                    wslack += w[i] * (2.0 * r.f().abs() * e + e * e);
                }
                let (rss, wrss) = (rss.f(), wrss.f());
                let nn = inst.n as f64;
                let ok_u = (f.deviance - rss).abs() <= 8.0 * slack + 8.0 * nn * U * rss + 1e-300;
                let ok_w = (f.deviance - wrss).abs() <= 8.0 * wslack + 8.0 * nn * U * wrss + 1e-300;
                if !(ok_u || (inst.w.is_some() && ok_w)) {
                    run.violate("deviance/gaussian-not-the-residual-sum-of-squares", || format!("{}: deviance() = {:e}, residual sum of squares at the returned coefficients {:e} (weighted {:e}); allowed {:e}", desc(), f.deviance, rss, wrss, 8.0 * slack + 8.0 * nn * U * rss));
                    true
                } else {
                    run.regime("gaussian-deviance-is-rss");
                    false
                }
            } else {
                false
            };
            if gauss_bad {
            } else if !dev_ok {
                run.violate(&format!("deviance/{}", fam), || format!("{}: deviance() = {:e}, family deviance at the fitted means {:e} (weighted {:e})", desc(), f.deviance, dev, wdev));
            } else {
                // (d) dispersion and standard errors
                let wsum: f64 = inst.weights().iter().sum();
                let want_disp = if inst.fam.has_dispersion() { f.deviance / (wsum.round() - inst.p as f64) } else { 1.0 };
                if wsum.round() > inst.p as f64 && !((f.dispersion - want_disp).abs() <= 1e-9 * want_disp.abs() + 1e-12) {
                    run.violate(&format!("dispersion/{}", fam), || format!("{}: dispersion() = {:e}, expected {:e}", desc(), f.dispersion, want_disp));
                }
                // unpenalised Fisher information at the returned coefficients
                let mut fisher = info.clone();
                for j in 1..inst.p {
                    fisher[j * inst.p + j] -= inst.alpha;
                }
                let a: Vec<DD> = fisher.iter().map(|v| DD::new(*v)).collect();
                let mut want_se = Vec::new();
                for j in 0..inst.p {
                    let e: Vec<DD> = (0..inst.p).map(|i| if i == j { DD::ONE } else { DD::ZERO }).collect();
                    match dd_solve(&a, &e, inst.p) {
                        Some(col) => want_se.push((f.dispersion * col[j]).sqrt()),
                        None => want_se.clear(),
                    }
                }
                if has_mle && want_se.len() == inst.p && f.dispersion.is_finite() && f.dispersion >= 0.0 {
                    match &f.se {
                        Ok(se) => {
                            // the information is evaluated within one Newton step of the optimum
                            let rel = 1e-3_f64.max((100.0 * inst.tol).sqrt());
                            if se.iter().zip(&want_se).any(|(a, b)| !((a - b).abs() <= rel * b.abs() + 1e-12)) {
                                run.violate(&format!("standard-errors/{}", fam), || format!("{}: coef_standard_error() = {:?}, sqrt(diag(dispersion * I^-1)) = {:?}", desc(), se, want_se));
                            } else {
                                run.regime("standard-errors-ok");
                            }
                        }
                        Err(p) => run.violate(&format!("standard-errors/panic/{}", fam), || format!("{}: {}", desc(), p)),
                    }
                }
            }
            // (e) predictions
            let eta = inst.eta(&f.coef);
            for i in 0..inst.n {
                let (m, _, _) = inst.fam.mean(eta[i]);
                if !((f.pred[i] - m).abs() <= 1e-12 * m.abs().max(1.0)) {
                    run.violate(&format!("predict/{}", fam), || format!("{}: predict row {} = {:e}, inverse link of x.beta + offset = {:e}", desc(), i, f.pred[i], m));
                    break;
                }
            }
        }
    }
}

fn designs(n: usize) -> Vec<(&'static str, Vec<f64>, usize)> {
    let x1: Vec<f64> = (0..n).map(|i| [-1.0, 0.0, 1.0, 1.0, -1.0, 0.0, 1.0, -1.0][i % 8]).collect();
    let ind: Vec<f64> = (0..n).map(|i| if i % 3 == 1 { 1.0 } else { 0.0 }).collect();
    let x2: Vec<f64> = (0..n).map(|i| -1.0 + 2.0 * i as f64 / (n - 1) as f64).collect();
    let mk = |cols: Vec<&Vec<f64>>| -> Vec<f64> {
        let p = cols.len() + 1;
        let mut x = vec![0.0; n * p];
        for i in 0..n {
            x[i * p] = 1.0;
            for (j, c) in cols.iter().enumerate() {
                x[i * p + 1 + j] = c[i];
            }
        }
        x
    };
    let sq: Vec<f64> = x2.iter().map(|v| v * v).collect();
    vec![("intercept", mk(vec![]), 1), ("covariate", mk(vec![&x1]), 2), ("covariate+indicator", mk(vec![&x1, &ind]), 3), ("linear+quadratic", mk(vec![&x2, &sq]), 3)]
}

pub fn run(run: &Run) {
    run.rule("six families × designs {intercept; +covariate over {-1,0,1}; +indicator; linear+quadratic} with n rows × every response vector over the family alphabet ({0,1}; {0,1,2,3}; {.5,1,2,4}; {-1,0,1,2}) × weights {none, pattern} × offsets {none, pattern} × α in {0,.1,1,10} × tolerance in {1e-5,1e-12} (thorough {1e-5,1e-10,1e-14}) × iteration budgets (all 1..=25 on 1/16 of the responses; elsewhere 25 and on a third also 3 and 5; thorough {2,3,4,6,10,25}); every Ok result is judged by the penalised score equations (Newton decrement in double-double), deviance, dispersion, standard errors and predictions; Err results are never judged; non-trivial = instance with a moderate finite MLE");
    let thorough = run.thorough();
    let fams = [Fam::Gaussian, Fam::Bernoulli, Fam::Poisson, Fam::QuasiPoisson, Fam::Gamma, Fam::Exponential];
    let nrows: Vec<usize> = if run.thorough() { vec![5, 6] } else { vec![5] };
    run.bound("rows", format!("{:?} (Bernoulli additionally 8)", nrows));
    for &fam in &fams {
        let mut ns = nrows.clone();
        if fam == Fam::Gamma && run.thorough() {
            ns.push(7); // the instance size at which the premature-convergence defect of weighted fits showed
        }
        if fam == Fam::Bernoulli {
            ns.extend([6, 7, 8, 9]);
            ns.sort();
            ns.dedup();
        }
        for &n in &ns {
            let al = fam.alphabet();
            let ds = designs(n);
            let wpat: Vec<f64> = (0..n).map(|i| [1.0, 2.0, 1.0, 3.0, 2.0, 1.0, 1.0, 2.0][i % 8]).collect();
            let opat: Vec<f64> = (0..n).map(|i| [0.0, 0.25, -0.25, 0.5, 0.0, -0.5, 0.25, 0.0][i % 8]).collect();
            par_words(al.len(), n, |w| {
                let y: Vec<f64> = w.iter().map(|&i| al[i]).collect();
                let code: usize = w.iter().fold(0, |a, &d| a * 7 + d);
                for (dname, x, p) in &ds {
                    // prior weights: none, a positive pattern, and a pattern with exact zeros in interior rows (an
                    // observation of weight zero does not enter the fit)
                    let wzero: Vec<f64> = (0..n).map(|i| [1.0, 0.0, 2.0, 1.0, 0.0, 1.0, 3.0, 1.0][i % 8]).collect();
                    for (wi, wopt) in [None, Some(wpat.clone()), Some(wzero)].into_iter().enumerate() {
                        for (oi, oopt) in [None, Some(opat.clone())].into_iter().enumerate() {
                            // thin the cross product deterministically: every (weights,offset) combination on
                            // a quarter of the responses, the plain one on all
                            if (wi, oi) != (0, 0) && (code + wi * 2 + oi) % 4 != 0 {
                                continue;
                            }
                            for &alpha in &[0.0, 0.1, 1.0, 10.0] {
                                let base = Inst { fam, x: x.clone(), n, p: *p, y: y.clone(), w: wopt.clone(), off: oopt.clone(), alpha, tol: 1e-10, design: dname };
                                let has_mle = base.mle().is_some();
                                if has_mle {
                                    run.nontrivial(1);
                                    run.regime("instance-with-mle");
                                } else {
                                    run.regime("instance-without-moderate-mle");
                                }
                                let tols: &[f64] = if thorough { &[1e-5, 1e-10, 1e-14] } else { &[1e-5, 1e-12] };
                                for &tol in tols {
                                    let inst = Inst { tol, ..base.clone() };
                                    let all_budgets = code % 16 == 3 && tol != 1e-5;
                                    if all_budgets {
                                        for k in 1..=25 {
                                            judge(run, &inst, k, has_mle);
                                        }
                                    } else if thorough {
                                        for k in [2usize, 3, 4, 6, 10, 25] {
                                            judge(run, &inst, k, has_mle);
                                        }
                                        if code % 4 == 1 {
                                            with_history(1, || judge(run, &inst, 25, has_mle));
                                            with_history(2, || judge(run, &inst, 25, has_mle));
                                            with_history(3, || judge(run, &inst, 25, has_mle));
                                        }
                                    } else {
                                        // quick: the full budget on every instance, small budgets on a third
                                        judge(run, &inst, 25, has_mle);
                                        if code % 3 == 0 {
                                            judge(run, &inst, 3, has_mle);
                                            judge(run, &inst, 5, has_mle);
                                        }
                                        // the same model object used before: after a fit that ran out of
                                        // iterations, after a fit to other data
                                        if code % 8 == 5 {
                                            with_history(1, || judge(run, &inst, 25, has_mle));
                                        } else if code % 8 == 6 {
                                            with_history(2, || judge(run, &inst, 25, has_mle));
                                        } else if code % 8 == 7 {
                                            with_history(3, || judge(run, &inst, 25, has_mle));
                                        }
                                    }
                                }
                            }
                        }
                    }
                }
            });
        }
    }
    run.sample(|| "Gaussian design=covariate X(5x2)=[1,-1,1,0,1,1,1,1,1,-1] y=[-1,0,1,2,0] alpha=10 tol=1e-10, budgets 2,3,4,6,10,25: every Ok must satisfy X^T(y - X b) - 10*(0,b1) = 0".to_string());
    // larger designs (the quantifier's n in 20..500, p in 1..6): pseudo-random standardised covariates,
    // polynomial and indicator columns, responses generated deterministically from the model
    let sizes: Vec<(usize, usize)> = if run.thorough() { vec![(20, 2), (20, 4), (50, 3), (50, 6), (200, 4), (200, 6), (500, 3), (500, 6), (127, 5), (129, 5)] } else { vec![(20, 3), (50, 6), (200, 4), (500, 6), (129, 5)] };
    run.bound("large designs", format!("{:?} (rows, columns) × 6 families × weights × offsets × alpha {{0,1,10}}", sizes));
    for &fam in &fams {
        for &(n, p) in &sizes {
            let mut st = 0x9E37_79B9_7F4A_7C15u64 ^ ((n * 131 + p) as u64);
            let mut unif = || {
                st = st.wrapping_mul(6364136223846793005).wrapping_add(1442695040888963407);
                ((st >> 11) as f64) / (1u64 << 53) as f64
            };
            let mut x = vec![0.0; n * p];
            for i in 0..n {
                x[i * p] = 1.0;
                for j in 1..p {
                    x[i * p + j] = match j {
                        1 => ((unif() * 48.0).floor() - 24.0) / 16.0,
                        2 => if i % 3 == 0 { 1.0 } else { 0.0 },
                        3 => {
                            let v = x[i * p + 1];
                            v * v - 0.75
                        }
                        _ => ((unif() * 48.0).floor() - 24.0) / 16.0,
                    };
                }
            }
            let beta_true: Vec<f64> = (0..p).map(|j| [0.3, -0.8, 0.5, 0.4, -0.6, 0.7][j]).collect();
            let y: Vec<f64> = (0..n)
                .map(|i| {
                    let eta: f64 = (0..p).map(|j| x[i * p + j] * beta_true[j]).sum();
                    let (m, _, _) = fam.mean(eta);
                    let u = unif();
                    match fam {
                        Fam::Gaussian => m + (u - 0.5) * 2.0,
                        Fam::Bernoulli => if u < m { 1.0 } else { 0.0 },
                        Fam::Poisson | Fam::QuasiPoisson => (m + (u - 0.5) * 2.0 * m.sqrt()).round().max(0.0),
                        Fam::Gamma | Fam::Exponential => m * (0.25 + 1.5 * u),
                    }
                })
                .collect();
            let wpat: Vec<f64> = (0..n).map(|i| [1.0, 2.0, 1.0, 3.0, 2.0, 1.0, 1.0, 2.0][i % 8]).collect();
            let opat: Vec<f64> = (0..n).map(|i| [0.0, 0.25, -0.25, 0.5, 0.0, -0.5, 0.25, 0.0][i % 8]).collect();
            for wopt in [None, Some(wpat.clone())] {
                for oopt in [None, Some(opat.clone())] {
                    for &alpha in &[0.0, 1.0, 10.0] {
                        for &tol in &[1e-6, 1e-12] {
                            let inst = Inst { fam, x: x.clone(), n, p, y: y.clone(), w: wopt.clone(), off: oopt.clone(), alpha, tol, design: "large" };
                            let has_mle = inst.mle().is_some();
                            if has_mle {
                                run.nontrivial(1);
                                run.regime("large-design-with-mle");
                            }
                            for k in [3usize, 8, 50] {
                                judge(run, &inst, k, has_mle);
                            }
                            if tol == 1e-12 {
                                with_history(1, || judge(run, &inst, 50, has_mle));
                                with_history(2, || judge(run, &inst, 50, has_mle));
                                with_history(3, || judge(run, &inst, 50, has_mle));
                            }
                        }
                    }
                }
            }
        }
    }
    run.require_regime("large-design-with-mle");
    // counts with a low baseline and a sharp rise at one end on a standardised degree-5 polynomial
    // design: Fisher scoring overshoots there (the deviance goes up on some iterations), which is
    // where "reports an error, not a wrong answer, when it has not converged" is decided
    {
        use rayon::prelude::*;
        let ns: Vec<usize> = if run.thorough() { (20..=32).collect() } else { vec![20, 24, 25, 28] };
        let peaks = [8.0, 12.0, 19.0, 25.0, 32.0, 50.0];
        let ratios = [0.08, 0.12, 0.2, 0.3];
        run.bound("spiky count designs", format!("n in {:?} × peak {:?} × decay {:?} × 2 ends × 3 background patterns × {{Poisson, QuasiPoisson}} × tol {{1e-5,1e-8,1e-12}}, degree-5 standardised polynomial design", ns, peaks, ratios));
        let mut jobs: Vec<(usize, f64, f64, bool, usize)> = Vec::new();
        for &n in &ns {
            for &b in &peaks {
                for &r in &ratios {
                    for right in [false, true] {
                        for bg in 0..3usize {
                            jobs.push((n, b, r, right, bg));
                        }
                    }
                }
            }
        }
        jobs.par_iter().for_each(|&(n, b, r, right, bg)| {
            let p = 6usize;
            let t: Vec<f64> = (0..n).map(|i| -1.0 + 2.0 * i as f64 / (n - 1) as f64).collect();
            let mut x = vec![0.0; n * p];
            for i in 0..n {
                x[i * p] = 1.0;
            }
            for j in 1..p {
                let c: Vec<f64> = t.iter().map(|v| v.powi(j as i32)).collect();
                let m = c.iter().sum::<f64>() / n as f64;
                let sd = (c.iter().map(|v| (v - m) * (v - m)).sum::<f64>() / n as f64).sqrt();
                for i in 0..n {
                    x[i * p + j] = (c[i] - m) / sd;
                }
            }
            let mut y: Vec<f64> = (0..n).map(|i| (b * r.powi(i as i32)).round()).collect();
            for i in 0..n {
                let extra = match bg {
                    0 => 0.0,
                    1 => if i % 7 == 6 { 1.0 } else { 0.0 },
                    _ => if i % 5 == 4 || i + 3 == n { 1.0 + (i % 2) as f64 } else { 0.0 },
                };
                y[i] += extra;
            }
            if right {
                y.reverse();
            }
            for fam in [Fam::Poisson, Fam::QuasiPoisson] {
                for &tol in &[1e-5, 1e-8, 1e-12] {
                    let inst = Inst { fam, x: x.clone(), n, p, y: y.clone(), w: None, off: None, alpha: 0.0, tol, design: "spiky-poly5" };
                    let has_mle = inst.mle().is_some();
                    if has_mle {
                        run.nontrivial(1);
                        run.regime("spiky-design-with-mle");
                    }
                    judge(run, &inst, 200, has_mle);
                }
            }
        });
        run.require_regime("spiky-design-with-mle");
    }
    // accurate Gaussian fits: responses on a line/parabola up to a disturbance of 1e-3 .. 1e-9 of the signal
    // (deviance, dispersion and standard errors are those of the residuals, not of the responses)
    {
        let mut insts: Vec<Inst> = Vec::new();
        for &n in &[10usize, 40, 200] {
            for (dname, x, p) in designs(n).into_iter().skip(1) {
                for &signal in &[1.0, 1e3] {
                    for &noise in &[1e-3, 1e-5, 1e-7, 1e-9] {
                        for wpat in 0..2 {
                            let beta = [2.0 * signal, -0.75 * signal, 0.5 * signal];
                            let y: Vec<f64> = (0..n).map(|i| (0..p).map(|j| x[i * p + j] * beta[j]).sum::<f64>() + signal * noise * ((((i * 37 + 11) % 19) as f64) - 9.0) / 9.0).collect();
                            let w = if wpat == 1 { Some((0..n).map(|i| 1.0 + (i % 3) as f64).collect()) } else { None };
                            insts.push(Inst { fam: Fam::Gaussian, x: x.clone(), n, p, y, w, off: None, alpha: 0.0, tol: 1e-10, design: dname });
                        }
                    }
                }
            }
        }
        run.bound("accurate Gaussian fits", format!("{} instances: n in {{10,40,200}} × 3 designs × signal {{1,1e3}} × relative disturbance {{1e-3,1e-5,1e-7,1e-9}} × weights {{none, pattern}}", insts.len()));
        for inst in &insts {
            run.nontrivial(1);
            judge(run, inst, 25, true);
        }
        run.require_regime("gaussian-deviance-is-rss");
    }
    // log-link families with responses in the hundreds and thousands (rates × exposures): a fit that says Ok
    // satisfies the score equations there as well; an Err is an answer, too
    {
        use rayon::prelude::*;
        let mut insts: Vec<(Inst, usize)> = Vec::new();
        for &n in &[8usize, 20] {
            for (dname, x, p) in designs(n).into_iter().take(3) {
                for &level in &[120.0, 240.0, 300.0, 340.0, 500.0, 2000.0] {
                    for fam in [Fam::Poisson, Fam::QuasiPoisson, Fam::Gamma, Fam::Exponential] {
                        let y: Vec<f64> = (0..n).map(|i| (level * (1.0 + 0.3 * x[i * p + p - 1] * if p > 1 { 1.0 } else { 0.0 }) + ((i * 7) % 5) as f64 - 2.0).round().max(1.0)).collect();
                        for &k in &[25usize, 600, 2500] {
                            if (k as f64) < 10.0 * level {
                                insts.push((Inst { fam, x: x.clone(), n, p, y: y.clone(), w: None, off: None, alpha: 0.0, tol: 1e-8, design: dname }, k));
                            }
                        }
                        // the same level reached through an exposure offset
                        if level >= 240.0 && n == 8 {
                            let off: Vec<f64> = (0..n).map(|_| (level / 3.0).ln()).collect();
                            insts.push((Inst { fam, x: x.clone(), n, p, y: y.clone(), w: None, off: Some(off), alpha: 0.0, tol: 1e-8, design: dname }, 600));
                        }
                    }
                }
            }
        }
        run.bound("large-mean log-link fits", format!("{} fits: responses around {{120,240,300,340,500,2000}} × 4 log-link families × 3 designs × n in {{8,20}} × budgets {{25,600,2500}}", insts.len()));
        insts.par_iter().for_each(|(inst, k)| {
            let has_mle = inst.mle().is_some();
            if has_mle {
                run.nontrivial(1);
            }
            judge(run, inst, *k, has_mle);
        });
    }
    // reordering observations: every permutation of the rows of base instances
    let pn = run.tier.pick(5usize, 6usize);
    for &fam in &fams {
        let al = fam.alphabet();
        let y: Vec<f64> = (0..pn).map(|i| al[(i * 3 + 1) % al.len()]).collect();
        let (dname, x, p) = designs(pn).remove(1);
        let base = Inst { fam, x: x.clone(), n: pn, p, y: y.clone(), w: None, off: None, alpha: 0.1, tol: 1e-14, design: dname };
        let b0 = match run_fit(&base, 25) {
            Ok(Ok(f)) => f.coef,
            _ => continue,
        };
        permutations(pn, |perm| {
            run.case();
            run.tr();
            run.ok();
            let xp: Vec<f64> = perm.iter().flat_map(|&i| x[i * p..(i + 1) * p].to_vec()).collect();
            let yp: Vec<f64> = perm.iter().map(|&i| y[i]).collect();
            let inst = Inst { x: xp, y: yp, ..base.clone() };
            match run_fit(&inst, 25) {
                Ok(Ok(f)) => {
                    if f.coef.iter().zip(&b0).any(|(a, b)| (a - b).abs() > 1e-6 * (1.0 + b.abs())) {
                        run.violate(&format!("row-order-dependence/{}", fam.name()), || format!("{} rows permuted by {:?}: coef {:?} vs {:?}", base.describe(), perm, f.coef, b0));
                    } else {
                        run.regime("permutation-invariant");
                    }
                }
                Ok(Err(e)) => run.violate(&format!("row-order-dependence/{}", fam.name()), || format!("{} rows permuted by {:?}: Err({}) although the original order converged", base.describe(), perm, e)),
                Err(p) => run.violate(&format!("fit/panic/{}", fam.name()), || format!("{} rows permuted by {:?}: {}", base.describe(), perm, p)),
            }
        });
    }
    for f in fams {
        run.require_regime(&format!("ok:{}", f.name()));
    }
    for r in ["refit-on-used-object", "gaussian-coincides-with-least-squares", "fit-reports-error", "standard-errors-ok", "permutation-invariant", "instance-with-mle"] {
        run.require_regime(r);
    }
    run.assume("score equations 'to within the convergence tolerance': Newton decrement² sᵀ(I+αD)⁻¹s ≤ 10·tol·(1+deviance) at the returned coefficients, evaluated in double-double; for the Gaussian family (quadratic objective, 'coincides with least squares') the decrement² must be at rounding level, ≤ 1e-16·(1+Σw(y−offset)²), whatever the tolerance");
    run.assume("for weighted fits either the weighted or the unweighted family deviance is accepted; the dispersion is deviance/(Σw − p) for families with a dispersion parameter, 1 otherwise; standard errors use the unpenalised Fisher information at the returned coefficients (1e-3 relative)");
    run.assume("besides the exhaustive small lattice designs, designs with 20..500 rows and up to 6 pseudo-random / polynomial / indicator columns are covered on deterministic model-generated responses only");
}
