//! C07 — quadrature rules are exact on their polynomial class and converge at order.
//! Engine E3: interval lattice × panel counts / level budgets × monomial basis (exactness on the
//! basis + linearity decides exactness on the class), catalogue of analytic integrands for the
//! error bounds, all increasing abscissa sets from a lattice for the sampled rule.
use crate::common::dd::DD;
use crate::common::enumerate::{combinations, par_words};
use crate::common::refmath::{c_erf, U};
use crate::common::{guard, Run};
use compute::integrate::{quad5, romberg, trapezoid, trapz};
use rayon::prelude::*;
use std::f64::consts::PI;

const ENDS: [f64; 10] = [-1000.0, -3.0, -1.0, -0.25, 0.0, 0.5, 1.0, 2.0, 7.0, 1000.0];

/// ∫_a^b x^d dx in double-double, and max |x^d| on the interval
fn mono_int(a: f64, b: f64, d: u32) -> (f64, f64) {
    let ia = DD::new(a).powi(d + 1);
    let ib = DD::new(b).powi(d + 1);
    let v = (ib - ia) / DD::new((d + 1) as f64);
    (v.f(), a.abs().max(b.abs()).powi(d as i32))
}

fn judge(run: &Run, key: &str, got: Result<f64, String>, want: f64, tol: f64, desc: &dyn Fn() -> String) {
    run.tr();
    run.ok();
    match got {
        Ok(g) => {
            if (g - want).abs() <= tol {
                run.outcome(&(key, "ok"));
            } else {
                run.outcome(&(key, "bad"));
                run.violate(key, || format!("{}: got {:e}, want {:e} (|err| {:e} > tol {:e})", desc(), g, want, (g - want).abs(), tol));
            }
        }
        Err(p) => run.violate(&format!("{}/panic", key), || format!("{}: panicked: {}", desc(), p)),
    }
}

struct Smooth {
    name: &'static str,
    f: fn(f64) -> f64,
    big_f: fn(f64) -> f64,
    a: f64,
    b: f64,
    max_f2: f64,
}
fn catalogue() -> Vec<Smooth> {
    vec![
        Smooth { name: "exp", f: |x| x.exp(), big_f: |x| x.exp(), a: 0.0, b: 1.0, max_f2: std::f64::consts::E },
        Smooth { name: "sin", f: |x| x.sin(), big_f: |x| -x.cos(), a: 0.0, b: PI, max_f2: 1.0 },
        Smooth { name: "cos3x", f: |x| (3.0 * x).cos(), big_f: |x| (3.0 * x).sin() / 3.0, a: -1.0, b: 2.0, max_f2: 9.0 },
        Smooth { name: "1/(1+x)", f: |x| 1.0 / (1.0 + x), big_f: |x| x.ln_1p(), a: 0.0, b: 3.0, max_f2: 2.0 },
        Smooth { name: "x*exp(-x)", f: |x| x * (-x).exp(), big_f: |x| -(x + 1.0) * (-x).exp(), a: 0.0, b: 5.0, max_f2: 2.0 },
        Smooth { name: "1/(1+x^2)", f: |x| 1.0 / (1.0 + x * x), big_f: |x| x.atan(), a: -2.0, b: 2.0, max_f2: 2.0 },
        Smooth { name: "sqrt(1+x)", f: |x| (1.0 + x).sqrt(), big_f: |x| 2.0 / 3.0 * (1.0 + x).powf(1.5), a: 0.0, b: 3.0, max_f2: 0.25 },
        Smooth { name: "sinh", f: |x| x.sinh(), big_f: |x| x.cosh(), a: -1.0, b: 1.5, max_f2: 2.13 },
        Smooth { name: "exp(-x^2)", f: |x| (-x * x).exp(), big_f: |x| PI.sqrt() / 2.0 * c_erf(x), a: -3.0, b: 3.0, max_f2: 2.0 },
        Smooth { name: "sin^2(2pi x)", f: |x| (2.0 * PI * x).sin().powi(2), big_f: |x| x / 2.0 - (4.0 * PI * x).sin() / (8.0 * PI), a: 0.0, b: 1.0, max_f2: 8.0 * PI * PI },
        Smooth { name: "ln", f: |x| x.ln(), big_f: |x| x * x.ln() - x, a: 1.0, b: 4.0, max_f2: 1.0 },
        Smooth { name: "tanh", f: |x| x.tanh(), big_f: |x| x.cosh().ln(), a: -2.0, b: 3.0, max_f2: 0.8 },
        Smooth { name: "x^4-2x", f: |x| x.powi(4) - 2.0 * x, big_f: |x| x.powi(5) / 5.0 - x * x, a: -1.0, b: 2.0, max_f2: 48.0 },
        Smooth { name: "cos*exp", f: |x| x.cos() * x.exp(), big_f: |x| x.exp() * (x.sin() + x.cos()) / 2.0, a: 0.0, b: 2.0, max_f2: 14.78 },
        Smooth { name: "1/x", f: |x| 1.0 / x, big_f: |x| x.ln(), a: 0.5, b: 8.0, max_f2: 16.0 },
        Smooth { name: "atan", f: |x| x.atan(), big_f: |x| x * x.atan() - 0.5 * (1.0 + x * x).ln(), a: -3.0, b: 1.0, max_f2: 0.7 },
        Smooth { name: "exp(-x)sin5x", f: |x| (-x).exp() * (5.0 * x).sin(), big_f: |x| -(-x).exp() * ((5.0 * x).sin() + 5.0 * (5.0 * x).cos()) / 26.0, a: 0.0, b: 3.0, max_f2: 26.0 },
        Smooth { name: "cosh2x", f: |x| (2.0 * x).cosh(), big_f: |x| (2.0 * x).sinh() / 2.0, a: -1.0, b: 1.0, max_f2: 15.05 },
        Smooth { name: "x sin x", f: |x| x * x.sin(), big_f: |x| x.sin() - x * x.cos(), a: 0.0, b: 2.0 * PI, max_f2: 8.3 },
        Smooth { name: "2^x", f: |x| x.exp2(), big_f: |x| x.exp2() / std::f64::consts::LN_2, a: -2.0, b: 2.0, max_f2: 1.93 },
    ]
}

pub fn run(run: &Run) {
    run.rule("interval lattice (10 end-points, a>b and a=b included) × trapz panel counts 1..=64,100,1000,4096 × affine integrands; romberg level budgets 2..=12 (20 thorough) at eps=0 × every monomial of degree 0..=2k-1; quad5 × monomials 0..=19; linearity and limit-swap on all interval pairs; 20 analytic integrands for the error bounds; sampled rule on every increasing abscissa set of length 2..=6 from {0,1,2,3,5,8} × ordinates over {-2..2}; non-trivial = a != b");
    let mut intervals = Vec::new();
    let mut ends: Vec<f64> = ENDS.to_vec();
    if run.thorough() {
        // a denser end-point lattice: 34 values in ±1000
        ends.extend([-999.5, -512.0, -100.0, -31.4, -10.0, -3.0, -2.5, -1.0, -0.75, -0.1, -1e-3, 1e-6, 1e-3, 0.1, 0.3, 0.75, 1.5, 2.5, 3.0, 10.0, 31.4, 100.0, 512.0, 999.5]);
        ends.sort_by(|p, q| p.partial_cmp(q).unwrap());
        ends.dedup();
    }
    for &a in &ends {
        for &b in &ends {
            intervals.push((a, b));
        }
    }
    run.bound("intervals", format!("{0}x{0} end-point lattice in ±1000", ends.len()));
    // ---- trapz: exact for affine, every panel count --------------------------------------
    let mut ns: Vec<usize> = (1..=64).collect();
    ns.extend([100, 1000, 4096]);
    if run.thorough() {
        ns.extend(65..=260);
        ns.extend([511, 512, 513, 1023, 1024, 1025, 2047, 2048, 2049, 4095]);
    }
    intervals.par_iter().for_each(|&(a, b)| {
        for &n in &ns {
            for c0 in -2..=2 {
                for c1 in -2..=2 {
                    let (c0, c1) = (c0 as f64, c1 as f64);
                    run.case();
                    if a != b {
                        run.nontrivial(1);
                    }
                    let want = (DD::new(c0) * (DD::new(b) - DD::new(a)) + DD::new(c1 / 2.0) * (DD::new(b) * DD::new(b) - DD::new(a) * DD::new(a))).f();
                    let maxf = c0.abs() + c1.abs() * a.abs().max(b.abs());
                    let tol = 8.0 * (n as f64 + 4.0) * U * (b - a).abs() * maxf + 1e-300;
                    judge(run, "trapz/affine-exact", guard(|| trapz(|x| c0 + c1 * x, a, b, n)), want, tol, &|| format!("trapz({} + {}x, a={}, b={}, n={})", c0, c1, a, b, n));
                }
            }
        }
        // quad5: monomials 0..=19
        for d in 0..=19u32 {
            run.case();
            let (want, maxf) = mono_int(a, b, d);
            if !want.is_finite() || !maxf.is_finite() {
                run.skip("monomial overflow");
                continue;
            }
            let tol = 64.0 * 10.0 * U * (b - a).abs() * maxf + 1e-300;
            let key = if d <= 9 { "quad5/degree<=9" } else { "quad5/degree10..19" };
            judge(run, key, guard(|| quad5(|x| x.powi(d as i32), a, b)), want, tol, &|| format!("quad5(x^{}, a={}, b={})", d, a, b));
        }
        // romberg: k levels exact to degree 2k-1
        let kmax = if run.thorough() { 20 } else { 12 };
        for k in 1..=kmax {
            if k > 14 && (a.abs() > 10.0 || b.abs() > 10.0) {
                continue; // monomials of degree > 27 on ±1000 overflow the f64 range
            }
            for d in 0..=(2 * k - 1) as u32 {
                let (want, maxf) = mono_int(a, b, d);
                if !want.is_finite() || !maxf.is_finite() || maxf * (b - a).abs() > 1e290 {
                    run.skip("monomial overflow");
                    continue;
                }
                run.case();
                let nev = (1u64 << (k - 1)) as f64 + 1.0;
                let tol = 64.0 * (nev + 8.0) * U * (b - a).abs() * maxf + 1e-300;
                judge(run, &format!("romberg/exact/levels={}", k), guard(|| romberg(|x| x.powi(d as i32), a, b, 0.0, k)), want, tol, &|| format!("romberg(x^{}, a={}, b={}, eps=0, nmax={})", d, a, b, k));
            }
        }
    });
    run.sample(|| "trapz(1 + x, a=0, b=1, n=4) = 1.5; quad5(x^9, -3, 7); romberg(x^5, -1, 2, eps=0, nmax=3)".to_string());
    run.bound("trapz panels", if run.thorough() { "1..=260, 511..513, 1000, 1023..1025, 2047..2049, 4095, 4096" } else { "1..=64, 100, 1000, 4096" });
    run.bound("romberg levels", if run.thorough() { "1..=20, all monomials < 2k" } else { "1..=12, all monomials < 2k" });

    // ---- linearity and limit swap ----------------------------------------------------------
    let small: Vec<(f64, f64)> = intervals.iter().cloned().filter(|(a, b)| a.abs() <= 7.0 && b.abs() <= 7.0).collect();
    small.par_iter().for_each(|&(a, b)| {
        let f = |x: f64| (0.3 * x).exp();
        let g = |x: f64| x * x - 1.0;
        let (al, be) = (2.0, -3.0);
        let h = move |x: f64| al * f(x) + be * g(x);
        let scale = (b - a).abs() * (al * (0.3 * 7.0f64).exp() + 3.0 * 50.0);
        for &n in &[1usize, 2, 3, 7, 16, 100] {
            run.case();
            let r = guard(|| (trapz(h, a, b, n), trapz(f, a, b, n), trapz(g, a, b, n), trapz(h, b, a, n)));
            run.tr();
            run.ok();
            match r {
                Ok((qh, qf, qg, qrev)) => {
                    let tol = 16.0 * (n as f64 + 4.0) * U * scale + 1e-300;
                    if (qh - (al * qf + be * qg)).abs() > tol {
                        run.violate("trapz/linearity", || format!("a={} b={} n={}: Q(2f-3g)={:e}, 2Q(f)-3Q(g)={:e}", a, b, n, qh, al * qf + be * qg));
                    }
                    if (qh + qrev).abs() > tol {
                        run.violate("trapz/limit-swap", || format!("a={} b={} n={}: Q(a,b)={:e}, Q(b,a)={:e}", a, b, n, qh, qrev));
                    }
                    run.outcome(&("trapz-lin", a == b));
                }
                Err(p) => run.violate("trapz/panic", || format!("a={} b={} n={}: {}", a, b, n, p)),
            }
        }
        for k in [2usize, 3, 5, 8] {
            run.case();
            run.tr();
            run.ok();
            match guard(|| (romberg(h, a, b, 0.0, k), romberg(f, a, b, 0.0, k), romberg(g, a, b, 0.0, k), romberg(h, b, a, 0.0, k))) {
                Ok((qh, qf, qg, qrev)) => {
                    let tol = 64.0 * ((1u64 << k) as f64 + 8.0) * U * scale + 1e-300;
                    if (qh - (al * qf + be * qg)).abs() > tol {
                        run.violate("romberg/linearity", || format!("a={} b={} levels={}: Q(2f-3g)={:e}, 2Q(f)-3Q(g)={:e}", a, b, k, qh, al * qf + be * qg));
                    }
                    if (qh + qrev).abs() > tol {
                        run.violate("romberg/limit-swap", || format!("a={} b={} levels={}: Q(a,b)={:e}, Q(b,a)={:e}", a, b, k, qh, qrev));
                    }
                }
                Err(p) => run.violate("romberg/panic", || format!("a={} b={} levels={}: {}", a, b, k, p)),
            }
        }
        run.case();
        run.tr();
        run.ok();
        match guard(|| (quad5(h, a, b), quad5(f, a, b), quad5(g, a, b), quad5(h, b, a))) {
            Ok((qh, qf, qg, qrev)) => {
                let tol = 64.0 * 16.0 * U * scale + 1e-300;
                if (qh - (al * qf + be * qg)).abs() > tol {
                    run.violate("quad5/linearity", || format!("a={} b={}: Q(2f-3g)={:e}, 2Q(f)-3Q(g)={:e}", a, b, qh, al * qf + be * qg));
                }
                if (qh + qrev).abs() > tol {
                    run.violate("quad5/limit-swap", || format!("a={} b={}: Q(a,b)={:e}, Q(b,a)={:e}", a, b, qh, qrev));
                }
            }
            Err(p) => run.violate("quad5/panic", || format!("a={} b={}: {}", a, b, p)),
        }
    });

    // ---- smooth integrands: trapz error bound, romberg tolerance ---------------------------
    let cat = catalogue();
    cat.par_iter().for_each(|s| {
        for rev in [false, true] {
            let (a, b) = if rev { (s.b, s.a) } else { (s.a, s.b) };
            let exact = (s.big_f)(b) - (s.big_f)(a);
            let maxf = (0..=1000).map(|i| (s.f)(s.a + (s.b - s.a) * i as f64 / 1000.0).abs()).fold(0.0, f64::max);
            for &n in &ns {
                run.case();
                run.nontrivial(1);
                let h = (s.b - s.a) / n as f64;
                let bound = (s.b - s.a) * h * h / 12.0 * s.max_f2 * (1.0 + 1e-9) + 16.0 * (n as f64 + 4.0) * U * (s.b - s.a) * maxf + 64.0 * U * exact.abs().max(1.0);
                judge(run, "trapz/error-bound", guard(|| trapz(s.f, a, b, n)), exact, bound, &|| format!("trapz({}, a={}, b={}, n={}) vs (b-a)h^2/12 max|f''| with max|f''|={}", s.name, a, b, n, s.max_f2));
            }
            for &eps in &[1e-3, 1e-8, 1e-12] {
                run.case();
                run.nontrivial(1);
                let tol = 10.0 * eps * exact.abs().max(1.0) + 1e-13;
                judge(run, "romberg/tolerance", guard(|| romberg(s.f, a, b, eps, 20)), exact, tol, &|| format!("romberg({}, a={}, b={}, eps={:e}, nmax=20)", s.name, a, b, eps));
            }
            run.case();
            // quad5 on analytic integrands is not in the statement; recorded only
        }
    });
    run.bound("smooth catalogue", "20 analytic integrands × both orientations × 67 panel counts × 3 tolerances");
    // narrow intervals far from the origin with eps = 0 and deep level budgets: the panel width reaches the spacing of
    // the floats around the limits; the result stays the integral (to the accuracy of the nodes)
    {
        let ivs: Vec<(f64, f64)> = vec![(1000.0 - 1e-8, 1000.0), (500.0, 500.0 + 3e-10), (1000.0, 1000.0 - 1e-8), (-250.0 - 1e-9, -250.0), (1e6, 1e6 + 1e-6), (3.0, 3.0 + 1e-13)];
        for &(a, b) in &ivs {
            for d in 0..=3u32 {
                for nmax in [8usize, 13, 14, 16, 18, 20] {
                    run.case();
                    run.nontrivial(1);
                    let (want, _) = mono_int(a, b, d);
                    // nodes are rounded to the float grid: relative accuracy (spacing / width), generously
                    let tol = want.abs() * (1e-6f64).max(64.0 * U * a.abs().max(b.abs()) / (b - a).abs()) + 1e-300;
                    judge(run, "romberg/narrow-interval-at-offset", guard(|| romberg(|x| x.powi(d as i32), a, b, 0.0, nmax)), want, tol, &|| format!("romberg(x^{}, a={:e}, b={:e}, eps=0, nmax={})", d, a, b, nmax));
                }
            }
        }
    }
    // cell-by-cell integration over a uniform grid, sequentially on one thread: consecutive calls on intervals of the same
    // width at different positions (each call is judged; a rule must not remember the previous interval)
    {
        for &(a0, h, cells) in &[(0.5, 1.25, 6usize), (-3.0, 0.5, 12), (10.0, 0.125, 8), (-1.0, 2.0, 3)] {
            for d in [0u32, 1, 3, 5, 9] {
                for k in 0..cells {
                    let (a, b) = (a0 + k as f64 * h, a0 + (k + 1) as f64 * h);
                    let (want, scale) = mono_int(a, b, d);
                    run.case();
                    run.nontrivial(1);
                    judge(run, "quad5/cell-by-cell", guard(|| quad5(|x| x.powi(d as i32), a, b)), want, 64.0 * U * scale.abs().max(want.abs()) + 1e-300, &|| format!("quad5(x^{}, {}, {}) as cell {} of a uniform grid (called right after the previous cell)", d, a, b, k));
                    if d <= 3 {
                        judge(run, "romberg/cell-by-cell", guard(|| romberg(|x| x.powi(d as i32), a, b, 0.0, 4)), want, 256.0 * U * scale.abs().max(want.abs()) + 1e-300, &|| format!("romberg(x^{}, {}, {}, 0, 4) as cell {} of a uniform grid", d, a, b, k));
                    }
                    if d <= 1 {
                        judge(run, "trapz/cell-by-cell", guard(|| trapz(|x| x.powi(d as i32), a, b, 3)), want, 64.0 * U * scale.abs().max(want.abs()) + 1e-300, &|| format!("trapz(x^{}, {}, {}, 3) as cell {} of a uniform grid", d, a, b, k));
                    }
                }
            }
        }
    }
    // iterated integrals: the integrand of one rule calls another rule (or the same one)
    {
        run.case();
        run.nontrivial(1);
        // inner: int_0^x 3t^2 dt = x^3 (exact for every rule); outer: int_0^2 x^3 dx = 4
        judge(run, "romberg/nested", guard(|| romberg(|x| romberg(|t| 3.0 * t * t, 0.0, x, 0.0, 3), 0.0, 2.0, 0.0, 4)), 4.0, 64.0 * U * 4.0, &|| "romberg(x -> romberg(3t^2, 0, x, 0, 3), 0, 2, 0, 4)".to_string());
        judge(run, "romberg/nested", guard(|| romberg(|x| romberg(|t| 3.0 * t * t, 0.0, x, 0.0, 6), -1.0, 3.0, 0.0, 7)), 20.0, 256.0 * U * 20.0, &|| "romberg(x -> romberg(3t^2, 0, x, 0, 6), -1, 3, 0, 7)".to_string());
        judge(run, "romberg/nested", guard(|| romberg(|x| quad5(|t| 3.0 * t * t, 0.0, x), 0.0, 2.0, 0.0, 4)), 4.0, 64.0 * U * 4.0, &|| "romberg(x -> quad5(3t^2, 0, x), 0, 2, 0, 4)".to_string());
        judge(run, "quad5/nested", guard(|| quad5(|x| romberg(|t| 3.0 * t * t, 0.0, x, 0.0, 3), 0.0, 2.0)), 4.0, 64.0 * U * 4.0, &|| "quad5(x -> romberg(3t^2, 0, x, 0, 3), 0, 2)".to_string());
        judge(run, "trapz/nested", guard(|| trapz(|x| trapz(|t| 2.0 * t + 1.0, 0.0, x, 3), 0.0, 2.0, 1)), 6.0, 64.0 * U * 6.0, &|| "trapz(x -> trapz(2t+1, 0, x, 3), 0, 2, 1) (trapezoid of x^2+x on one panel: 6)".to_string());
        // double integral of e^(x+y) over 0 <= y <= x <= 1: (e-1)^2 / 2
        let want = (std::f64::consts::E - 1.0).powi(2) / 2.0;
        judge(run, "romberg/nested", guard(|| romberg(|x| romberg(move |y| (x + y).exp(), 0.0, x, 1e-10, 9), 0.0, 1.0, 1e-10, 9)), want, 1e-8, &|| "romberg of romberg of e^(x+y) over the triangle".to_string());
    }
    // smooth integrands that converge only in the last levels of a 17..20-level budget (w·(b−a) ≈ 10⁴ rad)
    {
        let cases: Vec<(f64, f64, f64, f64)> = vec![(20.0, -1000.0, 1000.0, 1e-9), (10.0, -1000.0, 1000.0, 1e-9), (40.0, -1000.0, 1000.0, 1e-6), (25.0, -137.5, 864.25, 1e-9), (20.0, 1000.0, -1000.0, 1e-9), (7.0, 0.0, 3000.0, 1e-8)];
        cases.par_iter().for_each(|&(w, a, b, eps)| {
            for nmax in 17..=20usize {
                run.case();
                run.nontrivial(1);
                let exact = ((w * b).sin() - (w * a).sin()) / w;
                // the integrand is entire; once the panel width is below 1/w the extrapolation converges to rounding,
                // which all four budgets allow (2^16 panels and more)
                let tol = 10.0 * eps * exact.abs().max(1.0) + 1e-10;
                // judged only where the budget suffices: the textbook tableau with this many levels is itself within eps
                let f = |x: f64| (w * x).cos();
                let mut row: Vec<f64> = vec![0.5 * (b - a) * (f(a) + f(b))];
                let mut panels = 1usize;
                for _lvl in 1..nmax {
                    panels *= 2;
                    let h = (b - a) / panels as f64;
                    let mid: f64 = (0..panels / 2).map(|i| f(a + (2 * i + 1) as f64 * h)).sum();
                    let mut next = vec![0.5 * row[0] + h * mid];
                    for m in 1..=row.len() {
                        let p4 = 4f64.powi(m as i32);
                        next.push((p4 * next[m - 1] - row[m - 1]) / (p4 - 1.0));
                    }
                    row = next;
                }
                if !((row[row.len() - 1] - exact).abs() <= eps * exact.abs().max(1.0)) {
                    run.skip("budget too small for this integrand (textbook tableau not within eps)");
                    continue;
                }
                run.regime("romberg-late-convergence-judged");
                judge(run, "romberg/tolerance/late-convergence", guard(|| romberg(move |x| (w * x).cos(), a, b, eps, nmax)), exact, tol, &|| format!("romberg(cos({}x), a={}, b={}, eps={:e}, nmax={})", w, a, b, eps, nmax));
            }
        });
    }
    // narrow intervals on which the integrand is large: the width is of the order of the tolerance
    // or below it, the integral is not
    {
        let narrow: Vec<(&str, fn(f64) -> f64, fn(f64, f64) -> f64, f64)> = vec![
            ("exp", |x| x.exp(), |a, w| a.exp() * w.exp_m1(), 6.0),
            ("exp", |x| x.exp(), |a, w| a.exp() * w.exp_m1(), 10.0),
            ("x^3", |x| x * x * x, |a, w| {
                let b = a + w;
                ((DD::new(b) * DD::new(b) + DD::new(a) * DD::new(a)) * (DD::new(b) + DD::new(a)) * (DD::new(b) - DD::new(a)) * DD::new(0.25)).f()
            }, -900.0),
            ("1e6*x", |x| 1e6 * x, |a, w| {
                let b = a + w;
                (DD::new(5e5) * (DD::new(b) + DD::new(a)) * (DD::new(b) - DD::new(a))).f()
            }, 1.0),
        ];
        for (name, f, exact_of, a) in narrow {
            for &w in &[1e-3, 7.5e-4, 1e-6, 1e-9] {
                for &eps in &[1e-3, 1e-6, 1e-12] {
                    for rev in [false, true] {
                        let b = a + w;
                        let wexact = b - a; // the representable width
                        let exact0 = exact_of(a, wexact);
                        let (lo, hi, exact) = if rev { (b, a, -exact0) } else { (a, b, exact0) };
                        run.case();
                        run.nontrivial(1);
                        let tol = 10.0 * eps * exact.abs().max(1.0) + 1e-13 + 1e-12 * exact.abs();
                        judge(run, "romberg/tolerance/narrow-interval", guard(|| romberg(f, lo, hi, eps, 20)), exact, tol, &|| format!("romberg({}, a={}, b={}, eps={:e}, nmax=20)", name, lo, hi, eps));
                    }
                }
            }
        }
    }

    // ---- sampled rule -----------------------------------------------------------------------
    let xl = [0.0, 1.0, 2.0, 3.0, 5.0, 8.0];
    let yl = [-2.0, -1.0, 0.0, 1.0, 2.0];
    for k in 2..=6usize {
        let mut sets = Vec::new();
        combinations(xl.len(), k, |c| sets.push(c.iter().map(|&i| xl[i]).collect::<Vec<f64>>()));
        par_words(5, k, |w| {
            let y: Vec<f64> = w.iter().map(|&i| yl[i]).collect();
            for x in &sets {
                run.case();
                run.nontrivial(1);
                let want: f64 = (1..k).map(|i| (y[i] + y[i - 1]) / 2.0 * (x[i] - x[i - 1])).sum();
                judge(run, "trapezoid/non-uniform-x", guard(|| trapezoid(&y, Some(x), None)), want, 0.0, &|| format!("trapezoid(y={:?}, x={:?})", y, x));
            }
            for &dx in &[0.5, 2.0, 0.1] {
                run.case();
                let want = (1..k).map(|i| DD::new((y[i] + y[i - 1]) / 2.0) * DD::new(dx)).fold(DD::ZERO, |a, b| a + b).f();
                judge(run, "trapezoid/dx", guard(|| trapezoid(&y, None, Some(dx))), want, 8.0 * k as f64 * U * 4.0 * dx, &|| format!("trapezoid(y={:?}, dx={})", y, dx));
            }
            run.case();
            let want: f64 = (1..k).map(|i| (y[i] + y[i - 1]) / 2.0).sum();
            judge(run, "trapezoid/unit-spacing", guard(|| trapezoid(&y, None, None)), want, 0.0, &|| format!("trapezoid(y={:?})", y));
        });
    }
    // repeated abscissae (a tabulated step: zero-width panels contribute nothing, the next panel starts from the
    // ordinate after the jump): every non-decreasing abscissa word with at least one repeat
    for k in 2..=6usize {
        let mut xsets: Vec<Vec<f64>> = Vec::new();
        crate::common::enumerate::product(&vec![xl.len(); k], |w| {
            if w.windows(2).all(|p| p[0] <= p[1]) && w.windows(2).any(|p| p[0] == p[1]) {
                xsets.push(w.iter().map(|&i| xl[i]).collect());
            }
        });
        par_words(5, k, |w| {
            if k >= 5 && (w.iter().enumerate().map(|(i, &v)| v * (i + 1)).sum::<usize>()) % 7 != 0 {
                return;
            }
            let y: Vec<f64> = w.iter().map(|&i| yl[i]).collect();
            for x in &xsets {
                run.case();
                run.nontrivial(1);
                let want: f64 = (1..k).map(|i| (y[i] + y[i - 1]) / 2.0 * (x[i] - x[i - 1])).sum();
                judge(run, "trapezoid/repeated-x", guard(|| trapezoid(&y, Some(x), None)), want, 0.0, &|| format!("trapezoid(y={:?}, x={:?})", y, x));
            }
        });
    }
    // a long tabulated step function (ECDF-like): jumps at every third abscissa
    for &n in &[10usize, 100, 1001, 4096] {
        let x: Vec<f64> = (0..n).map(|i| (i - i / 3) as f64 * 0.25).collect();
        let y: Vec<f64> = (0..n).map(|i| ((i * 5) % 11) as f64 - 4.0).collect();
        run.case();
        run.nontrivial(1);
        let want = (1..n).map(|i| DD::new((y[i] + y[i - 1]) / 2.0) * DD::new(x[i] - x[i - 1])).fold(DD::ZERO, |a, b| a + b).f();
        judge(run, "trapezoid/repeated-x", guard(|| trapezoid(&y, Some(&x), None)), want, 4.0 * n as f64 * U * (n as f64) * 6.0, &|| format!("trapezoid(step function tabulated at {} points)", n));
    }
    // abscissae that are uniform up to a drift or a jitter of 1e-3 .. 1e-12 relative ("non-uniform" all the
    // same: the integral of the interpolant uses the actual spacings), and grids with one odd spacing
    {
        let mut grids: Vec<(String, Vec<f64>)> = Vec::new();
        for &n in &[3usize, 4, 10, 100, 1000, 2001] {
            for &eps in &[1e-3, 1e-5, 5e-7, 1e-7, 1e-9, 1e-12] {
                grids.push((format!("drift {:e}, {} points", eps, n), (0..n).map(|i| i as f64 * 0.001 * (1.0 + eps * i as f64 / n as f64)).collect()));
                grids.push((format!("jitter {:e}, {} points", eps, n), (0..n).map(|i| (i as f64 + if i % 2 == 1 { eps } else { 0.0 }) * 0.25 + 3.0).collect()));
            }
            grids.push((format!("one wide cell, {} points", n), (0..n).map(|i| i as f64 + if i >= n / 2 { 7.5 } else { 0.0 }).collect()));
            grids.push((format!("equal end cells, {} points", n), (0..n).map(|i| if i == 0 { 0.0 } else if i == n - 1 { n as f64 - 1.0 } else { 1.0 + (i as f64 - 1.0) * (n as f64 - 3.0) / (n as f64 - 2.0).max(1.0) * 0.9 + 0.05 * (n as f64 - 3.0) }).collect()));
        }
        grids.par_iter().for_each(|(name, x)| {
            let n = x.len();
            if x.windows(2).any(|w| !(w[1] > w[0])) {
                return;
            }
            for pat in 0..2 {
                let y: Vec<f64> = (0..n).map(|i| if pat == 0 { 1.0 + (i % 5) as f64 } else { ((i * 5) % 7) as f64 - 3.0 + 0.001 * i as f64 }).collect();
                run.case();
                run.nontrivial(1);
                let want = (1..n).map(|i| DD::new((y[i] + y[i - 1]) / 2.0) * (DD::new(x[i]) - DD::new(x[i - 1]))).fold(DD::ZERO, |a, b| a + b).f();
                let scale: f64 = (1..n).map(|i| ((y[i] + y[i - 1]) / 2.0 * (x[i] - x[i - 1])).abs()).sum();
                let xmag = x.iter().fold(0.0f64, |a, b| a.max(b.abs()));
                let ymag = y.iter().fold(0.0f64, |a, b| a.max(b.abs()));
                judge(run, "trapezoid/nearly-uniform-x", guard(|| trapezoid(&y, Some(x), None)), want, 4.0 * n as f64 * U * (scale + xmag * ymag) + 1e-300, &|| format!("trapezoid(y pattern {}, x = {})", pat, name));
            }
        });
    }
    let maxlen = run.tier.pick(300usize, 10_000usize);
    let lens: Vec<usize> = if run.thorough() { (2..=1100).chain([2047, 2048, 2049, 2050, 4096, 4097, 8193, 10_000]).collect() } else { (2..=maxlen).chain([511, 512, 513, 1000, 1023, 1024, 1025, 1026, 2048, 2049, 4097, 10_000]).collect() };
    lens.par_iter().for_each(|&n| {
        let y: Vec<f64> = (0..n).map(|i| ((i * 5) % 7) as f64 - 3.0).collect();
        let x: Vec<f64> = (0..n).map(|i| i as f64 * 0.5 + ((i % 3) as f64) * 0.125).collect();
        run.case();
        run.nontrivial(1);
        let want = (1..n).map(|i| DD::new((y[i] + y[i - 1]) / 2.0) * (DD::new(x[i]) - DD::new(x[i - 1]))).fold(DD::ZERO, |a, b| a + b).f();
        let scale: f64 = (1..n).map(|i| ((y[i] + y[i - 1]) / 2.0 * (x[i] - x[i - 1])).abs()).sum();
        judge(run, "trapezoid/long", guard(|| trapezoid(&y, Some(&x), None)), want, 4.0 * n as f64 * U * scale + 1e-300, &|| format!("trapezoid(len {})", n));
        run.case();
        let want_dx = (1..n).map(|i| DD::new((y[i] + y[i - 1]) / 2.0) * DD::new(0.25)).fold(DD::ZERO, |a, b| a + b).f();
        judge(run, "trapezoid/long-dx", guard(|| trapezoid(&y, None, Some(0.25))), want_dx, 4.0 * n as f64 * U * (n as f64) + 1e-300, &|| format!("trapezoid(len {}, dx=0.25)", n));
    });
    run.bound("sample arrays", format!("all sets/ordinates up to length 6; structured arrays of every length 2..={} plus lengths around 512, 1024, 2048, 4096 and 10000", maxlen));
    run.assume("exactness is decided on the monomial basis with tolerance 64·N·u·(b-a)·max|f| (N = number of integrand evaluations); together with the linearity check this covers the polynomial class");
    run.assume("romberg tolerance clause: |error| ≤ 10·eps·max(1,|I|) on 20 analytic integrands with a 20-level budget");
}
