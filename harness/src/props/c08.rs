//! C08 — descriptive statistics equal their textbook definitions.
//! Engine E3: all small-integer data vectors × shifts × scales (exact integer oracle), structured
//! vectors of every length, signed-zero/tie vectors for order statistics, all increasing edge
//! sequences from a lattice for histogram bin centres.
use crate::common::enumerate::{combinations, par_words};
use crate::common::rat::Rat;
use crate::common::refmath::U;
use crate::common::{guard, Run};
use compute::linalg::{Matrix, Vector};
use compute::statistics as st;
use rayon::prelude::*;

/// exact moments of dyadic data: returns (mean, popvar) as f64 (correctly rounded to ~1e-30)
struct Exact {
    mean: f64,
    var: f64,
    svar: f64,
}
fn exact(x: &[f64]) -> Option<Exact> {
    // scale by 4 to clear quarters; all data in this module are multiples of 1/4 below 2^41
    let xi: Vec<i128> = x.iter().map(|v| (v * 4.0) as i128).collect();
    if xi.iter().zip(x).any(|(i, v)| *i as f64 != v * 4.0) {
        return None;
    }
    let n = x.len() as i128;
    let s: i128 = xi.iter().sum();
    let q: i128 = xi.iter().map(|v| v * v).sum();
    let num = n * q - s * s; // = 16 n² var
    Some(Exact {
        mean: Rat::new(s, 4 * n).to_f64(),
        var: Rat::new(num, 16 * n * n).to_f64(),
        svar: if n > 1 { Rat::new(num, 16 * n * (n - 1)).to_f64() } else { f64::NAN },
    })
}
fn exact_cov(x: &[f64], y: &[f64]) -> Option<(f64, f64)> {
    let xi: Vec<i128> = x.iter().map(|v| (v * 4.0) as i128).collect();
    let yi: Vec<i128> = y.iter().map(|v| (v * 4.0) as i128).collect();
    if xi.iter().zip(x).any(|(i, v)| *i as f64 != v * 4.0) || yi.iter().zip(y).any(|(i, v)| *i as f64 != v * 4.0) {
        return None;
    }
    let n = x.len() as i128;
    let sx: i128 = xi.iter().sum();
    let sy: i128 = yi.iter().sum();
    let sxy: i128 = xi.iter().zip(&yi).map(|(a, b)| a * b).sum();
    let num = n * sxy - sx * sy;
    Some((Rat::new(num, 16 * n * n).to_f64(), if n > 1 { Rat::new(num, 16 * n * (n - 1)).to_f64() } else { f64::NAN }))
}

fn chk(run: &Run, key: &str, got: Result<f64, String>, want: f64, tol: f64, desc: &dyn Fn() -> String) {
    run.tr();
    run.ok();
    match got {
        Ok(g) => {
            if (g - want).abs() <= tol {
                run.outcome(&(key, "ok"));
            } else {
                run.outcome(&(key, "bad"));
                run.violate(key, || format!("{}: got {:e}, want {:e} (|err| {:e} > tol {:e})", desc(), g, want, (g - want).abs(), tol));
            }
        }
        Err(p) => {
            run.outcome(&(key, "panic"));
            run.violate(&format!("{}/panic", key), || format!("{}: panicked: {}", desc(), p))
        }
    }
}

fn moments(run: &Run, x: &[f64], tag: &str) {
    moments_p(run, x, tag, 0)
}

/// the data are `x0`·2^pow2 (an exact scaling: mean scales by 2^pow2, variances by 2^(2·pow2), and so do
/// the rounding bounds); the exact oracle works on the unscaled values
fn moments_p(run: &Run, x0: &[f64], tag: &str, pow2: i32) {
    let n = x0.len();
    let e0 = match exact(x0) {
        Some(e) => e,
        None => {
            run.skip("non-dyadic data");
            return;
        }
    };
    let (s1, s2) = (2f64.powi(pow2), 2f64.powi(2 * pow2));
    let e = Exact { mean: e0.mean * s1, var: e0.var * s2, svar: e0.svar * s2 };
    let xs: Vec<f64> = x0.iter().map(|v| v * s1).collect();
    let x: &[f64] = &xs;
    if pow2 != 0 {
        run.regime("scaled-data");
    }
    run.case();
    let nf = n as f64;
    let meanabs = x.iter().map(|v| v.abs()).sum::<f64>() / nf;
    let tiny = if pow2 < 0 { 0.0 } else { 1e-300 };
    let tol_mean = (nf + 2.0) * U * meanabs + tiny;
    // Welford / two-pass bound: 16 n u sqrt(var (var + mean²)) + 16 n u² mean²
    let tol_var = |v: f64| 16.0 * nf * U * (v * (v + e.mean * e.mean)).sqrt() + 16.0 * nf * U * U * e.mean * e.mean + tiny;
    let d = || format!("{} x={:?}", tag, x);
    chk(run, "mean", guard(|| st::mean(x)), e.mean, tol_mean, &d);
    chk(run, "welford_mean", guard(|| st::welford_mean(x)), e.mean, 2.0 * tol_mean, &d);
    chk(run, "var", guard(|| st::var(x)), e.var, tol_var(e.var), &d);
    chk(run, "std", guard(|| st::std(x)), e.var.sqrt(), std_tol(e.var, tol_var(e.var)), &d);
    let v = Vector::new(x.to_vec());
    chk(run, "Vector.mean", guard(|| v.mean()), e.mean, tol_mean, &d);
    chk(run, "Vector.var", guard(|| v.var()), e.var, tol_var(e.var), &d);
    chk(run, "Vector.std", guard(|| v.std()), e.var.sqrt(), std_tol(e.var, tol_var(e.var)), &d);
    if n >= 2 {
        chk(run, "sample_var", guard(|| st::sample_var(x)), e.svar, tol_var(e.svar), &d);
        chk(run, "sample_std", guard(|| st::sample_std(x)), e.svar.sqrt(), std_tol(e.svar, tol_var(e.svar)), &d);
        chk(run, "Vector.sample_var", guard(|| v.sample_var()), e.svar, tol_var(e.svar), &d);
        chk(run, "Vector.sample_std", guard(|| v.sample_std()), e.svar.sqrt(), std_tol(e.svar, tol_var(e.svar)), &d);
    }
    if n == 6 || n == 12 {
        let m = Matrix::new(x.to_vec(), 2, (n / 2) as i32);
        chk(run, "Matrix.mean", guard(|| m.mean()), e.mean, tol_mean, &d);
        chk(run, "Matrix.var", guard(|| m.var()), e.var, tol_var(e.var), &d);
        chk(run, "Matrix.std", guard(|| m.std()), e.var.sqrt(), std_tol(e.var, tol_var(e.var)), &d);
        chk(run, "Matrix.sample_var", guard(|| m.sample_var()), e.svar, tol_var(e.svar), &d);
        chk(run, "Matrix.sample_std", guard(|| m.sample_std()), e.svar.sqrt(), std_tol(e.svar, tol_var(e.svar)), &d);
    }
}
fn std_tol(var: f64, tolv: f64) -> f64 {
    // |sqrt(v+δ) − sqrt(v)| ≤ δ/sqrt(v) for v>0, ≤ sqrt(δ) at v = 0
    if var > 0.0 {
        (tolv / var.sqrt()).min(tolv.sqrt()) + 4.0 * U * var.sqrt()
    } else {
        tolv.sqrt()
    }
}

fn covs(run: &Run, x: &[f64], y: &[f64], tag: &str) {
    let n = x.len();
    let (ex, ey) = match (exact(x), exact(y)) {
        (Some(a), Some(b)) => (a, b),
        _ => return,
    };
    let (pc, sc) = exact_cov(x, y).unwrap();
    run.case();
    let nf = n as f64;
    let tiny = 1e-300;
    let base = |c: f64, vx: f64, vy: f64| 16.0 * nf * U * ((vx * vy).sqrt() + c.abs()) + 64.0 * nf * U * U * (ex.mean * ey.mean).abs() + tiny;
    let d = || format!("{} x={:?} y={:?}", tag, x, y);
    chk(run, "covariance", guard(|| st::covariance(x, y)), pc, base(pc, ex.var, ey.var), &d);
    if n >= 2 {
        chk(run, "sample_covariance", guard(|| st::sample_covariance(x, y)), sc, base(sc, ex.svar, ey.svar), &d);
        let rx = x.iter().cloned().fold(f64::MIN, f64::max) - x.iter().cloned().fold(f64::MAX, f64::min);
        let ry = y.iter().cloned().fold(f64::MIN, f64::max) - y.iter().cloned().fold(f64::MAX, f64::min);
        let tol_one = 64.0 * nf * U * (rx * ry + sc.abs()) + tiny;
        chk(run, "sample_covariance_onepass", guard(|| st::sample_covariance_onepass(x, y)), sc, tol_one, &d);
        let tol_online = 16.0 * nf * U * ((ex.svar + ex.mean * ex.mean).sqrt() * ey.svar.sqrt() + (ey.svar + ey.mean * ey.mean).sqrt() * ex.svar.sqrt() + sc.abs())
            + 64.0 * nf * U * U * (ex.mean * ey.mean).abs()
            + tiny;
        chk(run, "sample_covariance_online", guard(|| st::sample_covariance_online(x, y)), sc, tol_online, &d);
    }
}

fn order(run: &Run, x: &[f64], tag: &str) {
    run.case();
    let mn = x.iter().cloned().fold(f64::INFINITY, f64::min);
    let mx = x.iter().cloned().fold(f64::NEG_INFINITY, f64::max);
    let imn = x.iter().position(|v| *v == mn).unwrap();
    let imx = x.iter().position(|v| *v == mx).unwrap();
    let d = || format!("{} x={:?}", tag, x);
    let v = Vector::new(x.to_vec());
    let fcheck = |key: &str, got: Result<f64, String>, want: f64| {
        run.tr();
        run.ok();
        match got {
            Ok(g) if g == want => run.outcome(&(key, "ok")),
            Ok(g) => run.violate(key, || format!("{}: got {:?}, want {:?}", d(), g, want)),
            Err(p) => run.violate(&format!("{}/panic", key), || format!("{}: panicked: {}", d(), p)),
        }
    };
    let icheck = |key: &str, got: Result<usize, String>, want: usize| {
        run.tr();
        run.ok();
        match got {
            Ok(g) if g == want => run.outcome(&(key, "ok", want == 0)),
            Ok(g) => run.violate(key, || format!("{}: got index {}, want first occurrence {}", d(), g, want)),
            Err(p) => run.violate(&format!("{}/panic", key), || format!("{}: panicked: {}", d(), p)),
        }
    };
    fcheck("min", guard(|| st::min(x)), mn);
    fcheck("max", guard(|| st::max(x)), mx);
    icheck("argmin", guard(|| st::argmin(x)), imn);
    icheck("argmax", guard(|| st::argmax(x)), imx);
    fcheck("Vector.min", guard(|| v.min()), mn);
    fcheck("Vector.max", guard(|| v.max()), mx);
    icheck("Vector.argmin", guard(|| v.argmin()), imn);
    icheck("Vector.argmax", guard(|| v.argmax()), imx);
    let n = x.len();
    for r in 1..=n {
        if n % r == 0 && (r == 1 || r == 2 || r == n) {
            let c = n / r;
            let m = Matrix::new(x.to_vec(), r as i32, c as i32);
            run.tr();
            run.ok();
            match guard(|| (m.argmin(), m.argmax(), m.min(), m.max())) {
                Ok((a, b, lo, hi)) => {
                    if a != (imn / c, imn % c) || b != (imx / c, imx % c) || lo != mn || hi != mx {
                        run.violate("Matrix.argminmax", || format!("{} as {}x{}: got argmin {:?} argmax {:?} min {} max {}, want {:?} {:?} {} {}", d(), r, c, a, b, lo, hi, (imn / c, imn % c), (imx / c, imx % c), mn, mx));
                    }
                }
                Err(p) => run.violate("Matrix.argminmax/panic", || format!("{} as {}x{}: {}", d(), r, c, p)),
            }
        }
    }
}

/// the unique extreme planted at every position of a long vector: min/max (value and index), slice and Vector
fn planted_extremes(run: &Run, n: usize) {
    use rayon::prelude::*;
    let base: Vec<f64> = (0..n).map(|i| ((i * 37) % 101) as f64 * 0.01 - 0.5).collect();
    (0..n).into_par_iter().for_each(|i| {
        let mut x = base.clone();
        for (val, is_min) in [(-7.25, true), (9.5, false)] {
            x[i] = val;
            run.case();
            run.trs(4);
            run.ok();
            run.nontrivial(1);
            let v = Vector::new(x.clone());
            let r = guard(|| if is_min { (st::min(&x), st::argmin(&x), v.min(), v.argmin()) } else { (st::max(&x), st::argmax(&x), v.max(), v.argmax()) });
            match r {
                Ok((a, ia, b, ib)) => {
                    if a != val || b != val {
                        run.violate(if is_min { "min" } else { "max" }, || format!("{} elements, the unique {} {} at index {}: slice form returns {}, Vector form {}", n, if is_min { "minimum" } else { "maximum" }, val, i, a, b));
                    } else if ia != i || ib != i {
                        run.violate(if is_min { "argmin" } else { "argmax" }, || format!("{} elements, the unique extreme at index {}: got {} / {}", n, i, ia, ib));
                    } else {
                        run.regime("planted-extreme");
                    }
                }
                Err(p) => run.violate("order/panic", || format!("{} elements, extreme at {}: {}", n, i, p)),
            }
            x[i] = base[i];
        }
    });
}

pub fn run(run: &Run) {
    run.rule("every data vector of length 1..=6 over {-2..2} × shifts {0,2^20,1e8,-1e8,2^40} × scales {1,3,-0.5} and exact power-of-two scalings 2^-200, 2^-30, 2^-27 (with mean 1), 2^100; the same slice passed as both covariance arguments; every pair of vectors of length 2..=4 for the four covariance algorithms × shifts; structured vectors (constant, sorted, reversed, alternating, spike) of every length 1..=40 (80 thorough); every vector of length ≤6 over {-1,-0,+0,1} for order statistics; every increasing edge sequence of length 2..=6 from {0,1,2,3,5,8,13}; exact integer oracle; non-trivial = non-constant data");
    let letters = [-2.0, -1.0, 0.0, 1.0, 2.0];
    let shifts = [0.0, 1048576.0, 1e8, -1e8, 1099511627776.0];
    let scales = [1.0, 3.0, -0.5];
    run.bound("moment vectors", "length 1..=6 over 5 letters × 5 shifts × 3 scales");
    for n in 1..=6usize {
        par_words(5, n, |w| {
            let base: Vec<f64> = w.iter().map(|&i| letters[i]).collect();
            let nonconst = base.iter().any(|v| *v != base[0]);
            for &sc in &scales {
                for &sh in &shifts {
                    let x: Vec<f64> = base.iter().map(|v| v * sc + sh).collect();
                    moments(run, &x, "small");
                    // the same data at microscopic and huge scales (spread far below / above 1)
                    if sc == 1.0 && sh == 0.0 {
                        for p2 in [-30, -200, 100] {
                            moments_p(run, &x, "small, scaled", p2);
                        }
                        // mean 1, spread 2^-27: mean/sd of about 1e8 with a tiny absolute spread
                        let xo: Vec<f64> = base.iter().map(|v| v + 134217728.0).collect();
                        moments_p(run, &xo, "small, mean 1 spread 2^-27", -27);
                    }
                    if nonconst {
                        run.nontrivial(1);
                    }
                }
            }
            order(run, &base, "small");
        });
    }
    run.sample(|| "small x=[100000001,99999999,100000002] (letters [1,-1,2] shifted by 1e8): mean, welford_mean, var, std, sample_var, sample_std (free, Vector, Matrix)".to_string());
    // covariance pairs
    let maxn = run.tier.pick(4usize, 5usize);
    run.bound("covariance pairs", format!("all pairs of vectors of length 2..={} over 5 letters × 3 shift patterns", maxn));
    for n in 2..=maxn {
        par_words(5, 2 * n, |w| {
            let x: Vec<f64> = w[..n].iter().map(|&i| letters[i]).collect();
            let y: Vec<f64> = w[n..].iter().map(|&i| letters[i]).collect();
            covs(run, &x, &y, "pair");
            if w[n..] == w[..n] {
                // the very same slice as both arguments: the covariance of x with itself is its variance
                covs(run, &x, &x, "same-slice");
                let xs1: Vec<f64> = x.iter().map(|v| v + 1e8).collect();
                covs(run, &xs1, &xs1, "same-slice+1e8");
                run.regime("covariance-same-slice");
            }
            let xs: Vec<f64> = x.iter().map(|v| v + 1e8).collect();
            covs(run, &xs, &y, "pair-x+1e8");
            let ys: Vec<f64> = y.iter().map(|v| v * 0.5 - 1e6).collect();
            covs(run, &xs, &ys, "pair-x+1e8,y/2-1e6");
            run.nontrivial(1);
        });
    }
    run.sample(|| "pair x=[1,2,4] y=[2,-1,0] and shifted copies: covariance, sample_covariance, sample_covariance_onepass, sample_covariance_online".to_string());
    // structured vectors of every length
    let maxl = run.tier.pick(40usize, 96usize);
    run.bound("structured lengths", format!("1..={} plus 100, 255..257, 1000, 1023..1025, 4096, 10000", maxl));
    let mut ls: Vec<usize> = (1..=maxl).collect();
    ls.extend([100, 255, 256, 257, 1000, 1023, 1024, 1025, 4096, 10_000]);
    ls.into_par_iter().for_each(|n| {
        for &sh in &shifts {
            let konst: Vec<f64> = vec![3.0 + sh; n];
            let sorted: Vec<f64> = (0..n).map(|i| i as f64 + sh).collect();
            let rev: Vec<f64> = (0..n).map(|i| (n - i) as f64 + sh).collect();
            let alt: Vec<f64> = (0..n).map(|i| if i % 2 == 0 { 1.0 } else { -1.0 } * (1 + i % 3) as f64 + sh).collect();
            for (x, t) in [(&konst, "constant"), (&sorted, "sorted"), (&rev, "reversed"), (&alt, "alternating")] {
                moments(run, x, t);
                order(run, x, t);
            }
            for i in (0..n).filter(|i| n <= 96 || *i < 3 || *i + 3 >= n || *i % 509 == 0 || (1..16).any(|k| (*i as i64 - (k * n / 16) as i64).abs() <= 1)) {
                let mut spike = vec![1.0 + sh; n];
                spike[i] = 41.0 + i as f64 + sh;
                moments(run, &spike, "spike");
                if sh == 0.0 {
                    order(run, &spike, "spike");
                    let mut dip = vec![1.0; n];
                    dip[i] = -5.0;
                    order(run, &dip, "dip");
                }
            }
            if n >= 2 {
                covs(run, &sorted, &alt, "structured");
                covs(run, &rev, &sorted, "structured");
            }
            // the data as windows of a longer buffer (slices that start at every offset modulo 4, i.e. at
            // every alignment a kernel could assume) - the value must not depend on where the slice lives
            if sh == 0.0 || sh == 1e8 {
                let long: Vec<f64> = (0..n + 5).map(|i| ((i * 7) % 11) as f64 - 4.0 + if i % 4 == 0 { 0.25 } else { 0.0 } + sh).collect();
                let long2: Vec<f64> = (0..n + 5).map(|i| ((i * 5) % 13) as f64 * 0.5 - 3.0).collect();
                for k in 0..4 {
                    moments(run, &long[k..k + n], "window");
                    order(run, &long[k..k + n], "window");
                    if n >= 2 {
                        covs(run, &long[k..k + n], &long2[(k + 1) % 4..(k + 1) % 4 + n], "window");
                    }
                }
                run.regime("windows-of-a-longer-buffer");
            }
        }
        run.nontrivial(1);
    });
    // order statistics with ties and signed zeros
    let zl = [-1.0, -0.0, 0.0, 1.0];
    for n in 1..=6usize {
        par_words(4, n, |w| {
            let x: Vec<f64> = w.iter().map(|&i| zl[i]).collect();
            order(run, &x, "signed-zero");
            run.nontrivial(1);
        });
    }
    // histogram bin centres
    let edges_l = [0.0, 1.0, 2.0, 3.0, 5.0, 8.0, 13.0];
    for k in 2..=6 {
        combinations(edges_l.len(), k, |c| {
            for &(sc, sh) in &[(1.0, 0.0), (0.25, -3.0), (1e3, 1e6)] {
                let e: Vec<f64> = c.iter().map(|&i| edges_l[i] * sc + sh).collect();
                run.case();
                run.tr();
                run.ok();
                run.nontrivial(1);
                let want: Vec<f64> = e.windows(2).map(|w| (w[0] + w[1]) / 2.0).collect();
                let uniform = e.windows(2).all(|w| w[1] - w[0] == e[1] - e[0]);
                let tol = 4.0 * U * e.iter().fold(0.0f64, |a, b| a.max(b.abs()));
                match guard(|| st::hist_bin_centers(&e).v.clone()) {
                    Ok(g) => {
                        if g.len() != want.len() || g.iter().zip(&want).any(|(a, b)| (a - b).abs() > tol) {
                            run.outcome(&("hist", "bad"));
                            run.violate(if uniform { "hist_bin_centers/uniform" } else { "hist_bin_centers/non-uniform" }, || format!("edges={:?}: got {:?}, want {:?}", e, g, want));
                        } else {
                            run.outcome(&("hist", "ok", uniform));
                            run.regime(if uniform { "hist-uniform" } else { "hist-nonuniform" });
                        }
                    }
                    Err(p) => run.violate("hist_bin_centers/panic", || format!("edges={:?}: {}", e, p)),
                }
            }
        });
    }
    for n in run.tier.pick(vec![1000usize, 4096, 4097, 5000], vec![1000usize, 2048, 4095, 4096, 4097, 5000, 8192, 10_001, 16_384]) {
        planted_extremes(run, n);
    }
    run.assume("data are multiples of 1/4 below 2^41, so the integer oracle is exact; tolerance 16·n·u·sqrt(var(var+mean²)) for variance-type statistics (the Welford/two-pass bound), (n+2)u·mean|x| for means");
    run.assume("sample_covariance_onepass / _online are held to the sample (n-1) covariance their names state");
}
