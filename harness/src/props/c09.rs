//! C09 — special functions are accurate over their whole finite range.
//! Engine E3 over the f32 lattice (every f32 argument in thorough, strided with a seed-chosen
//! offset in quick) against glibc tgamma/lgamma/erf, plus identity checks on adjacent lattice
//! points and exact harmonic numbers / factorials.
use crate::common::dd::DD;
use crate::common::refmath::{c_erf, c_tgamma, U};
use crate::common::{guard, Run};
use compute::functions::{beta, digamma, erf, gamma};
use rayon::prelude::*;

const POLE_R: f64 = 0.0009765625; // 2^-10

fn dist_to_pole(x: f64) -> f64 {
    if x > 0.5 {
        return x; // nearest pole is 0
    }
    let k = x.round();
    let k = if k > 0.0 { 0.0 } else { k };
    (x - k).abs()
}
/// tolerance scale: 1 away from poles, growing like 1/(2·dist) towards a pole
/// (capped at 2^39, so that the bound never exceeds 6 %: arguments next to the pole at 0 are exactly
/// representable and are judged all the way down to the smallest f32)
fn scale(x: f64) -> f64 {
    (0.5 / dist_to_pole(x)).clamp(1.0, 549755813888.0)
}
fn region(x: f64) -> &'static str {
    if x >= 143.0 {
        "[143,171.6)"
    } else if x >= 0.5 {
        "[0.5,143)"
    } else if x.abs() < POLE_R {
        "next-to-0"
    } else if x > 0.0 {
        "(0,0.5)"
    } else if x > -142.0 {
        "(-142,0)"
    } else {
        "(-170,-142]"
    }
}

fn check_gamma(run: &Run, x: f64) -> bool {
    // returns true if judged
    if dist_to_pole(x) < POLE_R && !(x.abs() < POLE_R) {
        return false;
    }
    let want = c_tgamma(x);
    if !want.is_finite() || want.abs() < 2.2250738585072014e-308 {
        return false;
    }
    let got = gamma(x);
    let tol = 1e-13 * scale(x);
    let rel = ((got - want) / want).abs();
    if !(rel <= tol) {
        let key = if got.is_finite() { format!("gamma/{}/rel-error", region(x)) } else { format!("gamma/{}/non-finite", region(x)) };
        run.violate(&key, || format!("gamma({:e}) = {:e}, true {:e} (rel err {:e} > {:e})", x, got, want, rel, tol));
    }
    true
}

/// reference digamma: recurrence to x ≥ 30, then the asymptotic series (error < 1e-17)
fn digamma_ref(x: f64) -> f64 {
    let mut s = DD::ZERO;
    let mut x = x;
    while x < 30.0 {
        s = s - DD::ONE / DD::new(x);
        x += 1.0;
    }
    let x2 = 1.0 / (x * x);
    let series = x.ln() - 0.5 / x
        - x2 * (1.0 / 12.0 - x2 * (1.0 / 120.0 - x2 * (1.0 / 252.0 - x2 * (1.0 / 240.0 - x2 * (1.0 / 132.0 - x2 * (691.0 / 32760.0 - x2 / 12.0))))));
    (s + DD::new(series)).f()
}

fn f32_sweep<F: Fn(f64) -> bool + Sync>(run: &Run, lo: f32, hi: f32, stride: u32, offset: u32, f: F) {
    // iterate f32 bit patterns of one sign between lo and hi (same sign, |lo| < |hi|)
    let (b0, b1) = (lo.abs().to_bits(), hi.abs().to_bits());
    let neg = lo < 0.0 || hi < 0.0;
    let blocks: Vec<u32> = (b0..=b1).step_by(1 << 16).collect();
    blocks.par_iter().for_each(|&start| {
        let end = start.saturating_add((1 << 16) - 1).min(b1);
        let mut n = 0u64;
        let mut b = start + ((offset.wrapping_sub(start)) % stride);
        while b <= end {
            let v = f32::from_bits(b) as f64;
            let v = if neg { -v } else { v };
            if f(v) {
                n += 1;
            }
            b = match b.checked_add(stride) {
                Some(x) => x,
                None => break,
            };
        }
        run.cases(n);
        run.trs(n);
        run.oks(n);
        run.nontrivial(n);
    });
}

pub fn run(run: &Run) {
    run.rule("gamma: every f32-representable argument in (-170,171.6) outside |x-k|<2^-10 for the poles k ≤ -1 and down to the smallest subnormal f32 (and f64 decades to 1e-307) next to the pole at 0 (thorough; every 16th with a seed-chosen offset in quick) plus integers, half-integers and ±8 f64-ulps around them; beta on a 12x12 parameter lattice plus a finer one and every integer pair in 1..=80; digamma on all integers ≤ 1e4 (harmonic numbers), a geometric lattice to 1e6 and an f32 sweep of [1e-3,64]; erf on every f32 in [-6,6] (strided quick) and a lattice to ±40; identities on adjacent points; every ordered pair of calls over 24-element argument sets (purity: no dependence on the previous call); every argument is a distinct non-trivial case");
    let stride: u32 = if run.thorough() { 1 } else { 16 };
    let offset: u32 = (run.seed % stride as u64) as u32;
    run.bound("f32 stride", format!("{} (offset {})", stride, offset));
    if !run.thorough() {
        run.not_exhaustive();
    }
    // ---- gamma ------------------------------------------------------------------------------
    f32_sweep(run, POLE_R as f32, 171.6, stride, offset, |x| check_gamma(run, x));
    f32_sweep(run, -(POLE_R as f32), -170.0, stride, offset, |x| check_gamma(run, x));
    // the neighbourhood of the pole at 0, down to the smallest subnormal f32 (Γ ≈ 1/x stays finite)
    f32_sweep(run, f32::from_bits(1), POLE_R as f32, stride, offset, |x| check_gamma(run, x));
    f32_sweep(run, -f32::from_bits(1), -(POLE_R as f32), stride, offset, |x| check_gamma(run, x));
    for e in 46..=307 {
        for m in [1.0, -1.0, 3.7, -7.3] {
            let x = m * 10f64.powi(-e);
            if check_gamma(run, x) {
                run.case();
                run.tr();
                run.ok();
            }
        }
    }
    run.outcome(&"gamma-sweep-done");
    let mut pts: Vec<f64> = Vec::new();
    for k in -339..=343 {
        let h = k as f64 / 2.0; // integers and half-integers in (-170, 171.6)
        if h > -170.0 && h < 171.6 {
            pts.push(h);
            let mut up = h;
            let mut dn = h;
            for _ in 0..8 {
                up = f64::from_bits(if up > 0.0 { up.to_bits() + 1 } else if up < 0.0 { up.to_bits() - 1 } else { 1 });
                dn = -f64::from_bits(if -dn > 0.0 { (-dn).to_bits() + 1 } else if -dn < 0.0 { (-dn).to_bits() - 1 } else { 1 });
                pts.push(up);
                pts.push(dn);
            }
        }
    }
    for k in 0..=64 * 172 {
        pts.push(k as f64 / 64.0);
        pts.push(-(k as f64) / 64.0 + 1.0 / 128.0);
    }
    let mut judged = 0u64;
    for &x in &pts {
        if x > -170.0 && x < 171.6 && x != 0.0 && check_gamma(run, x) {
            judged += 1;
        }
    }
    run.cases(judged);
    run.trs(judged);
    run.oks(judged);
    run.sample(|| format!("gamma(150) = {:e} vs tgamma {:e}; gamma(-2.5) = {:e} vs {:e}", gamma(150.0), c_tgamma(150.0), gamma(-2.5), c_tgamma(-2.5)));
    // factorials: Γ(n+1) = n!
    let mut fact = DD::ONE;
    for n in 1..=170u32 {
        fact = fact * DD::new(n as f64);
        run.case();
        run.tr();
        run.ok();
        let g = gamma(n as f64 + 1.0);
        let rel = ((DD::new(g) - fact) / fact).abs().f();
        if !(rel <= 1e-13) {
            run.violate(&format!("gamma/factorial/{}", if n >= 143 { "n>=143" } else { "n<143" }), || format!("gamma({}) = {:e}, {}! = {:e} (rel {:e})", n + 1, g, n, fact.f(), rel));
        } else {
            run.outcome(&("fact-ok", n / 50));
        }
    }
    // recurrence Γ(x+1) = xΓ(x) on the k/64 lattice
    for k in 1..64 * 170 {
        for sign in [1.0, -1.0] {
            let x = sign * (k as f64 / 64.0 + 1.0 / 256.0);
            if x <= -169.0 || dist_to_pole(x) < POLE_R || dist_to_pole(x + 1.0) < POLE_R {
                continue;
            }
            let (a, b) = (gamma(x + 1.0), x * gamma(x));
            if !(c_tgamma(x + 1.0).is_finite() && c_tgamma(x).is_finite()) || c_tgamma(x + 1.0).abs() < 1e-300 || c_tgamma(x).abs() < 1e-300 {
                continue;
            }
            run.case();
            run.trs(2);
            run.ok();
            let tol = 2e-13 * (scale(x) + scale(x + 1.0));
            if !(((a - b) / a).abs() <= tol) {
                run.violate(&format!("gamma/recurrence/{}", region(x)), || format!("gamma({:e}+1) = {:e} but x*gamma(x) = {:e}", x, a, b));
            }
        }
    }
    // ---- beta --------------------------------------------------------------------------------
    let bl = [1e-3, 0.01, 0.1, 0.5, 1.0, 2.5, 7.25, 10.0, 25.5, 40.0, 63.0, 80.0];
    let extra: Vec<f64> = if run.thorough() { (1..400).map(|i| 1e-3 + i as f64 * 0.2).collect() } else { (1..40).map(|i| 1e-3 + i as f64 * 2.05).collect() };
    let grid: Vec<f64> = bl.iter().cloned().chain(extra).collect();
    run.bound("beta lattice", format!("{}x{} points in (1e-3, 80]", grid.len(), grid.len()));
    grid.par_iter().for_each(|&a| {
        for &b in &grid {
            run.case();
            run.tr();
            run.ok();
            run.nontrivial(1);
            let want = (DD::new(c_tgamma(a)) * DD::new(c_tgamma(b)) / DD::new(c_tgamma(a + b))).f();
            let got = match guard(|| beta(a, b)) {
                Ok(v) => v,
                Err(p) => {
                    run.violate("beta/panic", || format!("beta({}, {}) panicked: {}", a, b, p));
                    continue;
                }
            };
            let rel = ((got - want) / want).abs();
            if !(rel <= 1e-12) {
                let cls = if a + b >= 143.0 { "a+b>=143" } else { "a+b<143" };
                run.outcome(&("beta-bad", cls));
                run.violate(&format!("beta/{}", cls), || format!("beta({}, {}) = {:e}, want {:e} (rel {:e})", a, b, got, want, rel));
            } else {
                run.outcome(&("beta-ok", a + b >= 143.0));
            }
            let sym = guard(|| beta(b, a)).unwrap_or(f64::NAN);
            if !(((got - sym) / got).abs() <= 1e-12) && got.is_finite() {
                run.violate("beta/symmetry", || format!("beta({},{}) = {:e} but beta({},{}) = {:e}", a, b, got, b, a, sym));
            }
        }
    });
    // every integer pair in 1..=80 (closed form 1/((a+b-1) C(a+b-2, a-1)); an integer fast path would be
    // entered here and nowhere on the real-valued lattice)
    (1..=80u32).into_par_iter().for_each(|ai| {
        for bi in 1..=80u32 {
            let (a, b) = (ai as f64, bi as f64);
            run.case();
            run.tr();
            run.ok();
            let want = (DD::new(c_tgamma(a)) * DD::new(c_tgamma(b)) / DD::new(c_tgamma(a + b))).f();
            match guard(|| beta(a, b)) {
                Ok(got) => {
                    if !(((got - want) / want).abs() <= 1e-12) {
                        run.violate("beta/integer-pairs", || format!("beta({}, {}) = {:e}, want {:e}", a, b, got, want));
                    }
                }
                Err(p) => run.violate("beta/panic", || format!("beta({}, {}) panicked: {}", a, b, p)),
            }
        }
    });
    // ---- values must not depend on what was evaluated before (the functions are pure): every ordered
    // pair of calls over small argument sets that contain diagonal, doubled, swapped and
    // bit-pattern-related arguments, each second call judged against the reference
    {
        let bp: Vec<(f64, f64)> = vec![
            (1.0, 1.0), (2.0, 2.0), (0.5, 0.5), (1.25, 1.25), (7.0, 7.0), (2.0, 3.0), (4.0, 6.0), (1.0, 1.5), (3.0, 2.0), (1.0, 2.0), (4.0, 0.5), (0.5, 4.0),
            (8.0, 12.0), (0.25, 0.375), (10.0, 0.1), (0.1, 10.0), (40.0, 40.0), (63.0, 1e-3), (2.5, 2.5), (5.0, 5.0), (3.0, 3.0), (1.5, 1.0), (6.0, 4.0), (16.0, 24.0),
        ];
        let bref = |a: f64, b: f64| (DD::new(c_tgamma(a)) * DD::new(c_tgamma(b)) / DD::new(c_tgamma(a + b))).f();
        for &(a1, b1) in &bp {
            for &(a2, b2) in &bp {
                run.case();
                run.trs(2);
                run.ok();
                run.nontrivial(1);
                let _ = beta(a1, b1);
                let got = beta(a2, b2);
                let want = bref(a2, b2);
                if !(((got - want) / want).abs() <= 1e-12) {
                    run.violate("beta/depends-on-previous-call", || format!("beta({}, {}) evaluated right after beta({}, {}) = {:e}, want {:e}", a2, b2, a1, b1, got, want));
                } else {
                    run.regime("call-pairs");
                }
            }
        }
        let gx: Vec<f64> = vec![0.5, 1.0, 1.5, 2.0, 3.0, 4.0, 6.0, 8.0, 0.25, 0.75, 10.5, 21.0, -0.5, -1.5, -2.5, 1e-3, 2e-3, 100.0, 50.0, 150.0, 75.0, 1.0000000000000002, 3.5, 7.0];
        for &x1 in &gx {
            for &x2 in &gx {
                run.case();
                run.trs(6);
                run.ok();
                let _ = (gamma(x1), if x1 > 0.0 { digamma(x1) } else { 0.0 }, erf(x1));
                let (g, e) = (gamma(x2), erf(x2));
                let wg = c_tgamma(x2);
                if !(((g - wg) / wg).abs() <= 1e-13 * scale(x2)) {
                    run.violate("gamma/depends-on-previous-call", || format!("gamma({}) evaluated right after gamma({}) = {:e}, want {:e}", x2, x1, g, wg));
                }
                if !((e - c_erf(x2)).abs() <= 1.5e-7) {
                    run.violate("erf/depends-on-previous-call", || format!("erf({}) evaluated right after erf({}) = {:e}, want {:e}", x2, x1, e, c_erf(x2)));
                }
                if x2 > 0.0 {
                    let d = digamma(x2);
                    let wd = digamma_ref(x2);
                    if !((d - wd).abs() <= 1e-10 * wd.abs().max(1.0)) {
                        run.violate("digamma/depends-on-previous-call", || format!("digamma({}) evaluated right after digamma({}) = {:e}, want {:e}", x2, x1, d, wd));
                    }
                }
            }
        }
    }
    // ---- digamma -----------------------------------------------------------------------------
    let euler = 0.577_215_664_901_532_9_f64;
    let mut h = DD::ZERO;
    for n in 1..=10_000u32 {
        // ψ(n) = -γ + H_{n-1}
        let want = (h - DD::new(euler) - DD::new(-4.942e-18)).f(); // γ = 0.5772156649015329 - 4.94e-18…
        run.case();
        run.tr();
        run.ok();
        let got = digamma(n as f64);
        let tol = 1e-10 * want.abs().max(1.0);
        if !((got - want).abs() <= tol) {
            run.violate("digamma/integers", || format!("digamma({}) = {:e}, -γ+H_{} = {:e}", n, got, n - 1, want));
        } else {
            run.outcome(&("digamma-int-ok", n < 6));
        }
        h = h + DD::ONE / DD::new(n as f64);
    }
    let check_dg = |x: f64| -> bool {
        let want = digamma_ref(x);
        let got = digamma(x);
        let tol = 1e-10 * want.abs().max(1.0);
        if !((got - want).abs() <= tol) {
            run.violate(if x < 6.0 { "digamma/x<6" } else { "digamma/x>=6" }, || format!("digamma({:e}) = {:e}, reference {:e}", x, got, want));
        }
        let rec = digamma(x + 1.0) - (got + 1.0 / x);
        if !(rec.abs() <= 1e-10 * want.abs().max(1.0 / x).max(1.0)) {
            run.violate("digamma/recurrence", || format!("digamma({:e}+1) - digamma(x) - 1/x = {:e}", x, rec));
        }
        true
    };
    let mut x = 1e-3;
    let mut n = 0u64;
    while x < 1e6 {
        check_dg(x);
        n += 1;
        x *= if run.thorough() { 1.0005 } else { 1.01 };
    }
    run.cases(n);
    run.trs(3 * n);
    run.oks(n);
    f32_sweep(run, 1e-3, 64.0, stride.max(16), offset % stride.max(16), check_dg);
    // ---- erf ---------------------------------------------------------------------------------
    let check_erf = |x: f64| -> bool {
        let got = erf(x);
        let want = c_erf(x);
        if !((got - want).abs() <= 1.5e-7) {
            run.violate("erf/accuracy", || format!("erf({:e}) = {:e}, true {:e} (err {:e})", x, got, want, (got - want).abs()));
        }
        if !(got.abs() <= 1.0) {
            run.violate("erf/bounded", || format!("|erf({:e})| = {:e} > 1", x, got.abs()));
        }
        let neg = erf(-x);
        if x != 0.0 && neg != -got {
            run.violate("erf/odd", || format!("erf(-{:e}) = {:e} but -erf = {:e}", x, neg, -got));
        }
        true
    };
    f32_sweep(run, 1e-30, 6.0, stride, offset, check_erf);
    check_erf(0.0);
    let mut nn = 0u64;
    for k in 0..=4000 {
        check_erf(k as f64 / 100.0);
        check_erf(-(k as f64) / 100.0 - 0.005);
        nn += 2;
    }
    run.cases(nn);
    run.trs(2 * nn);
    run.oks(nn);
    run.outcome(&"erf-sweep-done");
    let _ = guard(|| 0);
    run.sample(|| format!("erf(0.5) = {:e} vs {:e}; digamma(0.5) = {:e}; beta(2.5, 40) = {:e}", erf(0.5), c_erf(0.5), digamma(0.5), beta(2.5, 40.0)));
    let _ = U;
    run.assume("glibc tgamma/erf are accurate to a few ulp and serve as the truth");
    run.assume("gamma tolerance 1e-13·max(1, 0.5/dist) where dist is the distance to the nearest pole: the statement's 'scaled by proximity to a pole' is read as growing like 1/dist inside half a unit of a pole");
    run.assume("quick tier: every 16th f32 (offset VERIF_SEED mod 16); thorough: every f32");
}
