//! C10 — optimizers follow their published update rules; Levenberg–Marquardt descends.
//! The optimizer is a transition system (θ, m, v, t) / (θ, update): `optimize(.., k)` is "k
//! transitions from the initial state". Every step budget k is enumerated for every objective ×
//! start × hyper-parameter configuration and compared with the published recurrence stepped by
//! the harness (gradients from the same reverse-mode tape API, checked separately against
//! analytic gradients).
use crate::common::dd::DD;
use crate::common::{guard, Run};
use compute::linalg::Vector;
use compute::optimize::{Adam, Optimizer, LM, SGD};
use rayon::prelude::*;
use reverse::*;

type Obj = for<'a> fn(&[Var<'a>], &[&[f64]]) -> Var<'a>;

fn quad1<'a>(p: &[Var<'a>], d: &[&[f64]]) -> Var<'a> {
    (p[0] - d[0][1]).powi(2) * d[0][0]
}
fn quad2<'a>(p: &[Var<'a>], _d: &[&[f64]]) -> Var<'a> {
    p[0] * p[0] + p[1] * p[1] * 3.0 + p[0] * p[1] - p[0] * 2.0
}
fn quad3<'a>(p: &[Var<'a>], _d: &[&[f64]]) -> Var<'a> {
    p[0] * p[0] * 2.0 + p[1] * p[1] + p[2] * p[2] * 0.5 + p[0] * p[2] - p[1] * p[2] * 0.5 + p[1] - p[2] * 3.0
}
/// convex quadratic in 8 dimensions: sum (i+1)/4 * (x_i - c_i)^2 + 0.1 * sum x_i x_{i+1}
fn quad8<'a>(p: &[Var<'a>], d: &[&[f64]]) -> Var<'a> {
    let mut s = (p[0] - d[0][0]).powi(2) * 0.25;
    for i in 1..8 {
        s = s + (p[i] - d[0][i]).powi(2) * ((i + 1) as f64 * 0.25) + p[i] * p[i - 1] * 0.1;
    }
    s
}
fn saddle<'a>(p: &[Var<'a>], _d: &[&[f64]]) -> Var<'a> {
    p[0] * p[0] - p[1] * p[1] * 0.25 + p[0] * p[1] * 0.5
}
/// non-convex with a steep concave direction: with the larger steps the iterates run away and the
/// objective overflows (|θ| > 1e154) a hundred steps before the iterates do
fn steep_saddle<'a>(p: &[Var<'a>], _d: &[&[f64]]) -> Var<'a> {
    p[0] * p[0] - p[1] * p[1] * 8.0
}
fn rosenbrock<'a>(p: &[Var<'a>], d: &[&[f64]]) -> Var<'a> {
    (p[0] * -1.0 + d[0][0]).powi(2) + (p[1] - p[0].powi(2)).powi(2) * d[0][1]
}
fn lsq_exp<'a>(p: &[Var<'a>], d: &[&[f64]]) -> Var<'a> {
    d[0].iter().zip(d[1]).map(|(&x, &y)| ((p[1] * x).exp() * p[0] - y).powi(2)).sum()
}
/// one-parameter decay fit: from a poor start the first step overshoots onto the flat part of the loss,
/// where the gradient is negligible while the accumulated velocity keeps moving the parameter
fn lsq_decay<'a>(p: &[Var<'a>], d: &[&[f64]]) -> Var<'a> {
    d[0].iter().zip(d[1]).map(|(&x, &y)| ((p[0] * (-x)).exp() - y).powi(2)).sum()
}
/// one parameter so large that a step of Adam cannot move it (6e12 against steps of 1e-4), next to an
/// ordinary one that keeps moving: "stop early only once the parameters have stopped changing" is about all of them
fn huge_and_ordinary<'a>(p: &[Var<'a>], _d: &[&[f64]]) -> Var<'a> {
    (p[1] - 3.0).powi(2) + p[0] * p[0] * 1e-26
}
fn lsq_sin<'a>(p: &[Var<'a>], d: &[&[f64]]) -> Var<'a> {
    d[0].iter().zip(d[1]).map(|(&x, &y)| ((p[0] * x + p[1]).sin() - y).powi(2)).sum()
}
fn lsq_ratio<'a>(p: &[Var<'a>], d: &[&[f64]]) -> Var<'a> {
    d[0].iter().zip(d[1]).map(|(&x, &y)| (p[0] / (p[1] * (x * x) + 1.0) - y).powi(2)).sum()
}

struct Problem {
    name: &'static str,
    f: Obj,
    data: Vec<Vec<f64>>,
    starts: Vec<Vec<f64>>,
    /// analytic gradient for the AD cross-check
    grad: fn(&[f64], &[Vec<f64>]) -> Vec<f64>,
    max_step: f64,
}

fn problems() -> Vec<Problem> {
    let xs: Vec<f64> = (0..8).map(|i| i as f64 * 0.25).collect();
    let y_exp: Vec<f64> = xs.iter().enumerate().map(|(i, x)| 1.5 * (0.4 * x).exp() + [0.05, -0.03, 0.0, 0.02][i % 4]).collect();
    let y_sin: Vec<f64> = xs.iter().enumerate().map(|(i, x)| (1.3 * x + 0.2).sin() + [0.01, -0.02][i % 2]).collect();
    let y_rat: Vec<f64> = xs.iter().enumerate().map(|(i, x)| 2.0 / (1.0 + 0.5 * x * x) + [0.0, 0.03, -0.01][i % 3]).collect();
    vec![
        Problem { name: "quad1(a=2,c=0)", f: quad1, data: vec![vec![2.0, 0.0]], starts: vec![vec![1.0], vec![-3.0]], grad: |p, d| vec![2.0 * d[0][0] * (p[0] - d[0][1])], max_step: 0.5 },
        Problem { name: "quad1(a=.5,c=3)", f: quad1, data: vec![vec![0.5, 3.0]], starts: vec![vec![0.0], vec![10.0]], grad: |p, d| vec![2.0 * d[0][0] * (p[0] - d[0][1])], max_step: 0.5 },
        // convex, but the larger steps overshoot (factor −19 or −9 per step): a runaway run whose
        // objective value overflows long before the iterates do; the k-th iterate is still defined
        Problem { name: "quad1(a=20,c=0)", f: quad1, data: vec![vec![20.0, 0.0]], starts: vec![vec![1.0], vec![-0.125]], grad: |p, d| vec![2.0 * d[0][0] * (p[0] - d[0][1])], max_step: 0.5 },
        Problem { name: "steep-saddle", f: steep_saddle, data: vec![vec![0.0]], starts: vec![vec![1.0, 0.5], vec![0.25, -1.0]], grad: |p, _| vec![2.0 * p[0], -16.0 * p[1]], max_step: 0.5 },
        Problem { name: "quad2", f: quad2, data: vec![vec![0.0]], starts: vec![vec![1.0, 1.0], vec![-2.0, 0.5]], grad: |p, _| vec![2.0 * p[0] + p[1] - 2.0, 6.0 * p[1] + p[0]], max_step: 0.25 },
        Problem { name: "quad3", f: quad3, data: vec![vec![0.0]], starts: vec![vec![1.0, -1.0, 2.0], vec![0.0, 0.0, 0.0]], grad: |p, _| vec![4.0 * p[0] + p[2], 2.0 * p[1] - 0.5 * p[2] + 1.0, p[2] + p[0] - 0.5 * p[1] - 3.0], max_step: 0.25 },
        Problem {
            name: "quad8",
            f: quad8,
            data: vec![vec![1.0, -1.0, 0.5, 2.0, 0.0, -0.5, 1.5, -2.0]],
            starts: vec![vec![0.0; 8], vec![3.0, -3.0, 3.0, -3.0, 3.0, -3.0, 3.0, -3.0]],
            grad: |p, d| {
                let mut g = vec![0.0; 8];
                for i in 0..8 {
                    g[i] = 2.0 * ((i + 1) as f64 * 0.25) * (p[i] - d[0][i]);
                    if i > 0 {
                        g[i] += 0.1 * p[i - 1];
                    }
                    if i < 7 {
                        g[i] += 0.1 * p[i + 1];
                    }
                }
                g
            },
            max_step: 0.25,
        },
        Problem { name: "saddle", f: saddle, data: vec![vec![0.0]], starts: vec![vec![1.0, 0.5], vec![-0.5, 0.0]], grad: |p, _| vec![2.0 * p[0] + 0.5 * p[1], -0.5 * p[1] + 0.5 * p[0]], max_step: 0.5 },
        Problem { name: "rosenbrock", f: rosenbrock, data: vec![vec![1.0, 100.0]], starts: vec![vec![0.0, 0.0], vec![-1.2, 1.0]], grad: |p, d| vec![-2.0 * (d[0][0] - p[0]) - 4.0 * d[0][1] * p[0] * (p[1] - p[0] * p[0]), 2.0 * d[0][1] * (p[1] - p[0] * p[0])], max_step: 1e-3 },
        Problem {
            name: "lsq-exp",
            f: lsq_exp,
            data: vec![xs.clone(), y_exp],
            starts: vec![vec![1.0, 0.0], vec![2.0, 0.5]],
            grad: |p, d| {
                let mut g = vec![0.0; 2];
                for (x, y) in d[0].iter().zip(&d[1]) {
                    let e = (p[1] * x).exp();
                    let r = p[0] * e - y;
                    g[0] += 2.0 * r * e;
                    g[1] += 2.0 * r * p[0] * e * x;
                }
                g
            },
            max_step: 1e-2,
        },
        Problem {
            name: "lsq-decay (plateau after overshoot)",
            f: lsq_decay,
            data: vec![vec![1.0, 2.0, 3.0, 4.0, 5.0], (1..=5).map(|x| (-(x as f64)).exp()).collect()],
            starts: vec![vec![0.0], vec![0.5]],
            grad: |p, d| {
                let mut g = 0.0;
                for (x, y) in d[0].iter().zip(&d[1]) {
                    let e = (-x * p[0]).exp();
                    g += 2.0 * (e - y) * (-x) * e;
                }
                vec![g]
            },
            max_step: 0.25,
        },
        Problem { name: "huge+ordinary", f: huge_and_ordinary, data: vec![vec![0.0]], starts: vec![vec![6e12, 0.25], vec![-4e13, 5.0]], grad: |p, _| vec![2e-26 * p[0], 2.0 * (p[1] - 3.0)], max_step: 1e-2 },
        Problem {
            name: "lsq-sin",
            f: lsq_sin,
            data: vec![xs.clone(), y_sin],
            starts: vec![vec![1.0, 0.0], vec![0.5, 0.5]],
            grad: |p, d| {
                let mut g = vec![0.0; 2];
                for (x, y) in d[0].iter().zip(&d[1]) {
                    let r = (p[0] * x + p[1]).sin() - y;
                    let c = (p[0] * x + p[1]).cos();
                    g[0] += 2.0 * r * c * x;
                    g[1] += 2.0 * r * c;
                }
                g
            },
            max_step: 1e-2,
        },
        Problem {
            name: "lsq-ratio",
            f: lsq_ratio,
            data: vec![xs, y_rat],
            starts: vec![vec![1.0, 1.0], vec![3.0, 0.1]],
            grad: |p, d| {
                let mut g = vec![0.0; 2];
                for (x, y) in d[0].iter().zip(&d[1]) {
                    let den = 1.0 + p[1] * x * x;
                    let r = p[0] / den - y;
                    g[0] += 2.0 * r / den;
                    g[1] += 2.0 * r * (-p[0] * x * x / (den * den));
                }
                g
            },
            max_step: 1e-2,
        },
    ]
}

fn ad_grad(f: Obj, theta: &[f64], data: &[&[f64]]) -> Vec<f64> {
    let tape = Tape::new();
    let vars = tape.add_vars(theta);
    let r = f(&vars, data);
    r.grad().wrt(&vars)
}

/// published Adam recurrence, all iterates 0..=kmax
fn adam_model(f: Obj, theta0: &[f64], data: &[&[f64]], step: f64, b1: f64, b2: f64, eps: f64, kmax: usize) -> Vec<Vec<f64>> {
    let n = theta0.len();
    let mut th = theta0.to_vec();
    let (mut m, mut v) = (vec![0.0; n], vec![0.0; n]);
    let mut out = vec![th.clone()];
    for t in 1..=kmax {
        let g = ad_grad(f, &th, data);
        for p in 0..n {
            m[p] = b1 * m[p] + (1.0 - b1) * g[p];
            v[p] = b2 * v[p] + (1.0 - b2) * g[p] * g[p];
            let mhat = m[p] / (1.0 - b1.powi(t as i32));
            let vhat = v[p] / (1.0 - b2.powi(t as i32));
            th[p] -= step * mhat / (vhat.sqrt() + eps);
        }
        out.push(th.clone());
    }
    out
}
/// published SGD / momentum / Nesterov recurrence
fn sgd_model(f: Obj, theta0: &[f64], data: &[&[f64]], step: f64, mom: f64, nesterov: bool, kmax: usize) -> Vec<Vec<f64>> {
    let n = theta0.len();
    let mut th = theta0.to_vec();
    let mut u = vec![0.0; n];
    let mut out = vec![th.clone()];
    for _ in 1..=kmax {
        let g = if nesterov {
            let look: Vec<f64> = (0..n).map(|p| th[p] - mom * u[p]).collect();
            ad_grad(f, &look, data)
        } else {
            ad_grad(f, &th, data)
        };
        for p in 0..n {
            u[p] = mom * u[p] + step * g[p];
            th[p] -= u[p];
        }
        out.push(th.clone());
    }
    out
}

fn same_vec(a: &[f64], b: &[f64], tol: f64) -> bool {
    a.len() == b.len()
        && a.iter().zip(b).all(|(x, y)| {
            (x.is_nan() && y.is_nan()) || x == y || (x - y).abs() <= tol * x.abs().max(y.abs()).max(1.0)
        })
}
fn bits(v: &[f64]) -> Vec<u64> {
    v.iter().map(|x| if x.is_nan() { 1 } else { x.to_bits() }).collect()
}

fn budgets(run: &Run) -> Vec<usize> {
    if run.thorough() {
        (0..=64).chain((72..=2000).step_by(8)).collect()
    } else {
        (0..=32).chain((40..=200).step_by(8)).collect()
    }
}

fn first_order(run: &Run) {
    let probs = problems();
    let ks = budgets(run);
    let kmax = *ks.last().unwrap();
    let steps = [1e-4, 1e-2, 0.25, 0.5];
    let betas = [0.5, 0.9, 0.999];
    let moms = [0.0, 0.5, 0.9, 0.99];
    // configurations
    #[derive(Clone)]
    enum Cfg {
        Adam(f64, f64, f64, f64),
        Sgd(f64, f64, bool),
    }
    let mut jobs: Vec<(usize, usize, Cfg)> = Vec::new();
    for (pi, p) in probs.iter().enumerate() {
        for si in 0..p.starts.len() {
            for &st in &steps {
                if st > p.max_step {
                    continue;
                }
                for &b1 in &betas {
                    for &b2 in &betas {
                        jobs.push((pi, si, Cfg::Adam(st, b1, b2, 1e-8)));
                        // epsilon is a hyper-parameter too
                        if b1 == 0.9 && b2 == 0.999 {
                            for eps in [1e-4, 1e-2, 1.0] {
                                jobs.push((pi, si, Cfg::Adam(st, b1, b2, eps)));
                            }
                        }
                    }
                }
                for &m in &moms {
                    for nest in [false, true] {
                        jobs.push((pi, si, Cfg::Sgd(st, m, nest)));
                    }
                }
            }
        }
    }
    run.bound("first-order configurations", format!("{} (objective × start × hyper-parameters) × {} step budgets up to {}", jobs.len(), ks.len(), kmax));
    jobs.par_iter().for_each(|(pi, si, cfg)| {
        let p = &probs[*pi];
        let theta0 = &p.starts[*si];
        let data: Vec<&[f64]> = p.data.iter().map(|v| &v[..]).collect();
        let (traj, site, desc) = match cfg {
            Cfg::Adam(st, b1, b2, eps) => (adam_model(p.f, theta0, &data, *st, *b1, *b2, *eps, kmax), "Adam", format!("Adam(step={}, beta1={}, beta2={}, eps={:e}) on {} from {:?}", st, b1, b2, eps, p.name, theta0)),
            Cfg::Sgd(st, m, n) => (sgd_model(p.f, theta0, &data, *st, *m, *n, kmax), if *n { "SGD-nesterov" } else if *m > 0.0 { "SGD-momentum" } else { "SGD-plain" }, format!("SGD(step={}, momentum={}, nesterov={}) on {} from {:?}", st, m, n, p.name, theta0)),
        };
        let call = |k: usize| -> Result<Vec<f64>, String> {
            match cfg {
                Cfg::Adam(st, b1, b2, eps) => {
                    let o = Adam::new(*st, *b1, *b2, *eps);
                    guard(|| o.optimize(p.f, theta0, &data, k).v.clone())
                }
                Cfg::Sgd(st, m, n) => {
                    let o = SGD::new(*st, *m, *n);
                    guard(|| o.optimize(p.f, theta0, &data, k).v.clone())
                }
            }
        };
        for &k in &ks {
            run.case();
            run.tr();
            run.ok();
            run.nontrivial(1);
            let want = &traj[k];
            if want.iter().any(|x| !x.is_finite()) {
                run.skip("reference recurrence diverged to a non-finite iterate");
                continue;
            }
            match call(k) {
                Ok(got) => {
                    let tol = 1e-10 * (1.0 + k as f64);
                    // an early stop is legitimate exactly when the returned value is an iterate j ≤ k at
                    // which the parameters did not change (θ_j = θ_{j-1}): "stop early only once the
                    // parameters have stopped changing"
                    let legit_stop = (1..=k).any(|j| same_vec(&got, &traj[j], tol) && same_vec(&traj[j], &traj[j - 1], 4.0 * f64::EPSILON));
                    if legit_stop && !same_vec(&got, want, tol) {
                        run.regime("legitimate-early-stop-at-a-stationary-step");
                    }
                    if !same_vec(&got, want, tol) && !legit_stop {
                        // which earlier iterate (if any) was returned?
                        let stopped_at = (0..k).rev().find(|&j| same_vec(&got, &traj[j], tol));
                        let cls = match stopped_at {
                            Some(_) => "stopped-early-while-still-changing",
                            None => "not-the-kth-iterate",
                        };
                        run.outcome(&(site, cls));
                        run.violate(&format!("{}/{}", site, cls), || format!("{} with budget {}: returned {:?}, the recurrence gives {:?}{}", desc, k, got, want, stopped_at.map(|j| format!(" (returned value is iterate {})", j)).unwrap_or_default()));
                    } else {
                        run.outcome(&(site, "ok", k.min(40)));
                        run.regime(site);
                        if want.iter().any(|x| x.abs() > 1e155) {
                            run.regime("runaway: objective overflowed, iterates finite");
                        }
                    }
                }
                Err(e) => run.violate(&format!("{}/panic", site), || format!("{} with budget {}: {}", desc, k, e)),
            }
        }
        // determinism: two fresh runs and a re-used optimizer object give bitwise identical results
        run.case();
        run.trs(4);
        let k = 17;
        let (a, b) = (call(k), call(k));
        let reused = match cfg {
            Cfg::Adam(st, b1, b2, eps) => {
                let o = Adam::new(*st, *b1, *b2, *eps);
                guard(|| {
                    let _ = o.optimize(p.f, theta0, &data, 5);
                    o.optimize(p.f, theta0, &data, k).v.clone()
                })
            }
            Cfg::Sgd(st, m, n) => {
                let o = SGD::new(*st, *m, *n);
                guard(|| {
                    let _ = o.optimize(p.f, theta0, &data, 5);
                    o.optimize(p.f, theta0, &data, k).v.clone()
                })
            }
        };
        if let (Ok(a), Ok(b), Ok(c)) = (a, b, reused) {
            if bits(&a) != bits(&b) || bits(&a) != bits(&c) {
                run.violate(&format!("{}/not-deterministic", site), || format!("{} budget {}: {:?} / {:?} / re-used object {:?}", desc, k, a, b, c));
            }
        }
    });
    // AD gradients vs analytic gradients (independence of the oracle's gradient source)
    for p in &probs {
        let data: Vec<&[f64]> = p.data.iter().map(|v| &v[..]).collect();
        for s in &p.starts {
            for shift in [0.0, 0.37, -0.81] {
                let th: Vec<f64> = s.iter().map(|v| v + shift).collect();
                let g = ad_grad(p.f, &th, &data);
                let a = (p.grad)(&th, &p.data);
                run.case();
                run.tr();
                run.ok();
                let scale = a.iter().fold(1.0f64, |m, v| m.max(v.abs()));
                if g.iter().zip(&a).any(|(x, y)| (x - y).abs() > 1e-10 * scale) {
                    run.violate("reverse-mode-gradient-differs-from-analytic", || format!("{} at {:?}: AD {:?}, analytic {:?}", p.name, th, g, a));
                }
            }
        }
    }
    run.sample(|| "SGD(step=0.5, momentum=0, nesterov=false) on quad1(a=2,c=0) from [1]: budgets 0..=200; the recurrence alternates 1,-1,1,... and optimize(k) must return iterate k".to_string());
}

// ---- Levenberg–Marquardt ----------------------------------------------------------------------------
fn lm_line<'a>(p: &[Var<'a>], d: &[&[f64]]) -> Var<'a> {
    p[0] + p[1] * d[0][0]
}
fn lm_quadr<'a>(p: &[Var<'a>], d: &[&[f64]]) -> Var<'a> {
    p[0] + p[1] * d[0][0] + p[2] * (d[0][0] * d[0][0])
}
/// a degree-4 polynomial written term by term as c_j·x^j / j! (14+ tape nodes per evaluation)
fn lm_taylor5<'a>(p: &[Var<'a>], d: &[&[f64]]) -> Var<'a> {
    let x = d[0][0];
    p[0] * 1.0 + p[1] * x / 1.0 + p[2] * x * x / 2.0 + p[3] * x * x * x / 6.0 + p[4] * x * x * x * x / 24.0
}
fn lm_const<'a>(p: &[Var<'a>], _d: &[&[f64]]) -> Var<'a> {
    p[0] * 1.0
}
fn lm_exp<'a>(p: &[Var<'a>], d: &[&[f64]]) -> Var<'a> {
    (p[1] * d[0][0]).exp() * p[0]
}
fn lm_logistic<'a>(p: &[Var<'a>], d: &[&[f64]]) -> Var<'a> {
    p[0] / ((p[1] * -1.0 * (p[2] * -1.0 + d[0][0])).exp() + 1.0)
}
/// logistic written as L·e/(1+e): a trial step that drives the exponent past 709 evaluates to inf/inf = NaN
fn lm_logistic_ratio<'a>(p: &[Var<'a>], d: &[&[f64]]) -> Var<'a> {
    let e = (p[1] * (p[2] * -1.0 + d[0][0])).exp();
    p[0] * e / (e + 1.0)
}
/// difference of exponentials: inf − inf = NaN on an overshooting trial step
fn lm_biexp<'a>(p: &[Var<'a>], d: &[&[f64]]) -> Var<'a> {
    (p[0] * d[0][0]).exp() - (p[1] * d[0][0]).exp()
}
fn lm_cubic4<'a>(p: &[Var<'a>], d: &[&[f64]]) -> Var<'a> {
    let x = d[0][0];
    p[0] + p[1] * x + p[2] * (x * x) + p[3] * (x * x * x)
}

struct LmProblem {
    name: &'static str,
    f: Obj,
    linear: bool,
    eval: fn(&[f64], f64) -> f64,
    jac: fn(&[f64], f64) -> Vec<f64>,
    xs: Vec<f64>,
    ys: Vec<f64>,
    starts: Vec<Vec<f64>>,
}

fn lm_problems() -> Vec<LmProblem> {
    let mut v = Vec::new();
    let noise = |i: usize| [0.3, -0.2, 0.1, -0.4, 0.25, 0.0, -0.15][i % 7];
    for &n in &[5usize, 12, 40, 200] {
        let xs: Vec<f64> = (0..n).map(|i| i as f64 * 0.5 - 1.0).collect();
        v.push(LmProblem { name: "line", f: lm_line, linear: true, eval: |p, x| p[0] + p[1] * x, jac: |_, x| vec![1.0, x], xs: xs.clone(), ys: xs.iter().enumerate().map(|(i, x)| 2.0 - 3.0 * x + noise(i)).collect(), starts: vec![vec![3e3, 7e3], vec![-4e4, 2.5e4], vec![6e5, -9e5], vec![0.0, 0.0], vec![50.0, -40.0], vec![2.0, -3.0]] });
        // replicate measurements: every abscissa three times (consecutive equal x with different y)
        if n <= 40 {
            let xr: Vec<f64> = (0..n).map(|i| (i / 3) as f64 * 0.5 - 1.0).collect();
            v.push(LmProblem { name: "line, triplicate abscissae", f: lm_line, linear: true, eval: |p, x| p[0] + p[1] * x, jac: |_, x| vec![1.0, x], xs: xr.clone(), ys: xr.iter().enumerate().map(|(i, x)| 2.0 - 3.0 * x + noise(i)).collect(), starts: vec![vec![0.0, 0.0], vec![2.0, -3.0]] });
            v.push(LmProblem {
                name: "exponential, triplicate abscissae",
                f: lm_exp,
                linear: false,
                eval: |p, x| p[0] * (p[1] * x).exp(),
                jac: |p, x| vec![(p[1] * x).exp(), p[0] * x * (p[1] * x).exp()],
                xs: xr.iter().map(|x| x / 4.0).collect(),
                ys: xr.iter().enumerate().map(|(i, x)| 2.0 * (0.8 * x / 4.0).exp() + 0.1 * noise(i)).collect(),
                starts: vec![vec![1.0, 0.0], vec![2.0, 0.8]],
            });
        }
        if n >= 40 {
            v.push(LmProblem {
                name: "taylor polynomial, five parameters",
                f: lm_taylor5,
                linear: true,
                eval: |p, x| p[0] + p[1] * x + p[2] * x * x / 2.0 + p[3] * x * x * x / 6.0 + p[4] * x * x * x * x / 24.0,
                jac: |_, x| vec![1.0, x, x * x / 2.0, x * x * x / 6.0, x * x * x * x / 24.0],
                xs: (0..n).map(|i| -2.0 + 4.0 * i as f64 / (n - 1) as f64).collect(),
                ys: (0..n).map(|i| { let x = -2.0 + 4.0 * i as f64 / (n - 1) as f64; 1.5 - 2.0 * x + 0.75 * x * x - 0.4 * x * x * x + 0.1 * x * x * x * x + noise(i) }).collect(),
                starts: vec![vec![25.0, -30.0, 40.0, -20.0, 35.0], vec![0.0; 5]],
            });
        }
        v.push(LmProblem { name: "quadratic", f: lm_quadr, linear: true, eval: |p, x| p[0] + p[1] * x + p[2] * x * x, jac: |_, x| vec![1.0, x, x * x], xs: xs.clone(), ys: xs.iter().enumerate().map(|(i, x)| 1.0 + 0.5 * x - 0.25 * x * x + noise(i)).collect(), starts: vec![vec![0.0, 0.0, 0.0], vec![-20.0, 10.0, 5.0]] });
        v.push(LmProblem { name: "constant", f: lm_const, linear: true, eval: |p, _| p[0], jac: |_, _| vec![1.0], xs: xs.clone(), ys: xs.iter().enumerate().map(|(i, _)| 4.0 + noise(i)).collect(), starts: vec![vec![0.0], vec![-100.0]] });
        v.push(LmProblem { name: "cubic", f: lm_cubic4, linear: true, eval: |p, x| p[0] + p[1] * x + p[2] * x * x + p[3] * x * x * x, jac: |_, x| vec![1.0, x, x * x, x * x * x], xs: xs.iter().map(|x| x / 4.0).collect(), ys: xs.iter().enumerate().map(|(i, x)| 1.0 - x / 4.0 + noise(i)).collect(), starts: vec![vec![0.0, 0.0, 0.0, 0.0], vec![3.0, -3.0, 3.0, -3.0]] });
        v.push(LmProblem {
            name: "exponential",
            f: lm_exp,
            linear: false,
            eval: |p, x| p[0] * (p[1] * x).exp(),
            jac: |p, x| vec![(p[1] * x).exp(), p[0] * x * (p[1] * x).exp()],
            xs: xs.iter().map(|x| x / 4.0).collect(),
            ys: xs.iter().enumerate().map(|(i, x)| 2.0 * (0.8 * x / 4.0).exp() + 0.1 * noise(i)).collect(),
            starts: vec![vec![1.0, 0.0], vec![5.0, -1.0], vec![0.1, 2.0]],
        });
        v.push(LmProblem {
            name: "logistic",
            f: lm_logistic,
            linear: false,
            eval: |p, x| p[0] / (1.0 + (-p[1] * (x - p[2])).exp()),
            jac: |p, x| {
                let e = (-p[1] * (x - p[2])).exp();
                let den = 1.0 + e;
                vec![1.0 / den, p[0] * (x - p[2]) * e / (den * den), -p[0] * p[1] * e / (den * den)]
            },
            xs: xs.clone(),
            ys: xs.iter().enumerate().map(|(i, x)| 3.0 / (1.0 + (-1.5 * (x - 1.0)).exp()) + 0.1 * noise(i)).collect(),
            starts: vec![vec![1.0, 1.0, 0.0], vec![5.0, 0.3, 3.0]],
        });
    }
    // models whose trial points can evaluate to NaN (overflowing intermediate): a rejected step, never a result
    let xw: Vec<f64> = (0..40).map(|i| i as f64 * 2.5).collect();
    v.push(LmProblem {
        name: "logistic-ratio (NaN-prone)",
        f: lm_logistic_ratio,
        linear: false,
        eval: |p, x| {
            let e = (p[1] * (x - p[2])).exp();
            p[0] * e / (1.0 + e)
        },
        jac: |p, x| {
            let e = (p[1] * (x - p[2])).exp();
            let s = e / (1.0 + e);
            vec![s, p[0] * (x - p[2]) * s * (1.0 - s), -p[0] * p[1] * s * (1.0 - s)]
        },
        xs: xw.clone(),
        ys: xw.iter().enumerate().map(|(i, x)| 5.0 / (1.0 + (-0.3 * (x - 40.0)).exp()) + 0.1 * noise(i)).collect(),
        starts: vec![vec![4.0, 3.0, 35.0], vec![6.0, 8.0, 50.0], vec![5.0, 0.3, 40.0], vec![1.0, 12.0, 20.0]],
    });
    v.push(LmProblem {
        name: "biexponential (NaN-prone)",
        f: lm_biexp,
        linear: false,
        eval: |p, x| (p[0] * x).exp() - (p[1] * x).exp(),
        jac: |p, x| vec![x * (p[0] * x).exp(), -x * (p[1] * x).exp()],
        xs: xw.iter().map(|x| x * 4.0).collect(),
        ys: xw.iter().enumerate().map(|(i, x)| (-0.01 * x * 4.0).exp() - (-0.05 * x * 4.0).exp() + 0.01 * noise(i)).collect(),
        starts: vec![vec![-0.001, -0.2], vec![-0.03, -0.01], vec![-0.02, -0.04], vec![0.001, -0.5]],
    });
    v
}

fn rss(p: &LmProblem, th: &[f64]) -> f64 {
    p.xs.iter().zip(&p.ys).map(|(x, y)| DD::new(y - (p.eval)(th, *x)) * DD::new(y - (p.eval)(th, *x))).fold(DD::ZERO, |a, b| a + b).f()
}

fn lm_suite(run: &Run) {
    let probs = lm_problems();
    let kmax = run.tier.pick(60usize, 200usize);
    let mut jobs = Vec::new();
    for (pi, p) in probs.iter().enumerate() {
        for si in 0..p.starts.len() {
            jobs.push((pi, si));
        }
    }
    run.bound("LM", format!("{} (model × size × start) × every budget 0..={} plus 200", jobs.len(), kmax));
    jobs.par_iter().for_each(|&(pi, si)| {
        let p = &probs[pi];
        let th0 = &p.starts[si];
        let np = th0.len();
        let n = p.xs.len();
        let data: Vec<&[f64]> = vec![&p.xs, &p.ys];
        let rss0 = rss(p, th0);
        if !rss0.is_finite() {
            run.skip("LM start point with a non-finite residual sum of squares");
            return;
        }
        let desc = |k: usize| format!("LM(default) on {} ({} points) from {:?}, budget {}", p.name, n, th0, k);
        // exact least-squares solution for the linear models (rational arithmetic on dyadic data is
        // not available for noise patterns like 0.3, so: normal equations in double-double)
        let ls = if p.linear {
            let mut g = vec![DD::ZERO; np * np];
            let mut b = vec![DD::ZERO; np];
            for (x, y) in p.xs.iter().zip(&p.ys) {
                let j = (p.jac)(th0, *x);
                for a in 0..np {
                    b[a] = b[a] + DD::new(j[a]) * DD::new(*y);
                    for c in 0..np {
                        g[a * np + c] = g[a * np + c] + DD::new(j[a]) * DD::new(j[c]);
                    }
                }
            }
            dd_solve(&g, &b, np)
        } else {
            None
        };
        for k in (0..=kmax).chain([200]) {
            run.case();
            run.tr();
            run.ok();
            run.nontrivial(1);
            let o = LM::default();
            match guard(|| {
                let (t, c) = o.optimize(p.f, th0, &data, k);
                (t.v.clone(), c)
            }) {
                Ok((th, cov)) => {
                    if th.iter().any(|v| !v.is_finite()) {
                        run.violate("LM/non-finite-parameters", || format!("{}: {:?}", desc(k), th));
                        continue;
                    }
                    let r = rss(p, &th);
                    if !(r <= rss0 * (1.0 + 1e-12) + 1e-300) {
                        run.outcome(&("LM", "ascent"));
                        run.violate("LM/residual-larger-than-at-start", || format!("{}: RSS {:e} at the returned {:?}, {:e} at the start", desc(k), r, th, rss0));
                        continue;
                    }
                    run.outcome(&("LM", "descent", k.min(20)));
                    run.regime("LM-descent");
                    // covariance = RSS/(n-p) (JᵀJ)⁻¹ at the returned point
                    if n > np {
                        let mut g = vec![DD::ZERO; np * np];
                        for x in &p.xs {
                            let j = (p.jac)(&th, *x);
                            for a in 0..np {
                                for c in 0..np {
                                    g[a * np + c] = g[a * np + c] + DD::new(j[a]) * DD::new(j[c]);
                                }
                            }
                        }
                        let mut want = vec![0.0; np * np];
                        let mut ok = true;
                        for c in 0..np {
                            let e: Vec<DD> = (0..np).map(|i| if i == c { DD::ONE } else { DD::ZERO }).collect();
                            match dd_solve(&g, &e, np) {
                                Some(col) => {
                                    for i in 0..np {
                                        want[i * np + c] = col[i] * r / (n - np) as f64;
                                    }
                                }
                                None => ok = false,
                            }
                        }
                        if ok {
                            let scale = want.iter().fold(0.0f64, |m, v| m.max(v.abs())).max(1e-300);
                            let kappa = super::lin::cond_inf(&g.iter().map(|d| d.f()).collect::<Vec<_>>(), np).unwrap_or(f64::INFINITY);
                            let tol = 1e-9 * kappa.max(1.0) * scale;
                            if kappa < 1e10 && (cov.shape() != [np, np] || cov.data.iter().zip(&want).any(|(a, b)| !((a - b).abs() <= tol))) {
                                run.outcome(&("LM", "cov-bad"));
                                run.violate("LM/covariance", || format!("{}: returned covariance {:?}, s^2 (J^T J)^-1 at the returned point {:?}", desc(k), cov.data.v, want));
                            } else {
                                run.regime("LM-covariance-ok");
                            }
                        }
                    }
                    // linear models: the least-squares solution is reached
                    if let (Some(ls), true) = (&ls, k >= 200) {
                        let lsn = ls.iter().fold(0.0f64, |m, v| m.max(v.abs()));
                        let err = th.iter().zip(ls).map(|(a, b)| (a - b).abs()).fold(0.0, f64::max);
                        // first-order optimality to the solver's own gradient tolerance (eps1 = 1e-6) also
                        // counts as "reached": the attainable parameter accuracy is conditioning-dependent
                        let mut grad = vec![DD::ZERO; np];
                        for (x, y) in p.xs.iter().zip(&p.ys) {
                            let j = (p.jac)(&th, *x);
                            let rr = DD::new(*y) - DD::new((p.eval)(&th, *x));
                            for a in 0..np {
                                grad[a] = grad[a] + DD::new(j[a]) * rr;
                            }
                        }
                        let gn = grad.iter().fold(0.0f64, |m, v| m.max(v.f().abs()));
                        // … and so does attaining the minimal residual sum of squares to 1e-6 relative: with
                        // an ill-conditioned design the solver's own step tolerance legitimately stops it
                        // while one weakly determined coefficient is still percents away
                        let rss_star = rss(p, ls);
                        if !(err <= 1e-5 * (1.0 + lsn)) && !(gn <= 1e-5) && !(r <= rss_star * (1.0 + 1e-6) + 1e-12) {
                            run.outcome(&("LM", "ls-miss"));
                            run.violate("LM/linear-model-not-solved", || format!("{}: returned {:?}, least-squares solution {:?}, |J^T r| = {:e}", desc(k), th, ls, gn));
                        } else {
                            run.regime("LM-linear-solved");
                        }
                    }
                }
                Err(e) => run.violate("LM/panic", || format!("{}: {}", desc(k), e)),
            }
        }
        // determinism
        let o = LM::default();
        if let (Ok(a), Ok(b)) = (guard(|| o.optimize(p.f, th0, &data, 7).0.v.clone()), guard(|| o.optimize(p.f, th0, &data, 7).0.v.clone())) {
            if bits(&a) != bits(&b) {
                run.violate("LM/not-deterministic", || format!("{}: {:?} vs {:?}", desc(7), a, b));
            }
        }
    });
    run.sample(|| "LM(default) on line (12 points) from [50,-40]: budgets 0..=60: RSS never above the start; covariance = s^2 (J^T J)^-1 at the returned point; budget 200 reaches the least-squares line".to_string());
}

fn dd_solve(a: &[DD], b: &[DD], n: usize) -> Option<Vec<f64>> {
    let mut m = a.to_vec();
    let mut r = b.to_vec();
    for c in 0..n {
        let mut p = c;
        for i in c + 1..n {
            if m[i * n + c].hi.abs() > m[p * n + c].hi.abs() {
                p = i;
            }
        }
        if m[p * n + c].hi == 0.0 {
            return None;
        }
        if p != c {
            for k in 0..n {
                m.swap(p * n + k, c * n + k);
            }
            r.swap(p, c);
        }
        for i in c + 1..n {
            let f = m[i * n + c] / m[c * n + c];
            for k in c..n {
                m[i * n + k] = m[i * n + k] - f * m[c * n + k];
            }
            r[i] = r[i] - f * r[c];
        }
    }
    let mut x = vec![DD::ZERO; n];
    for i in (0..n).rev() {
        let mut s = r[i];
        for k in i + 1..n {
            s = s - m[i * n + k] * x[k];
        }
        x[i] = s / m[i * n + i];
    }
    Some(x.iter().map(|d| d.f()).collect())
}

pub fn run(run: &Run) {
    run.rule("Adam and SGD (plain, momentum, Nesterov): 14 objectives (convex and indefinite quadratics in 1..3 and 8 dimensions, two of them running away under the larger steps so that the objective overflows while the iterates are still finite, Rosenbrock, least-squares losses built from exp, sin, powi and division) × 2 starts × step sizes {1e-4,1e-2,.25,.5} (capped per objective) × β1,β2 in {.5,.9,.999}² (ε = 1e-8, and ε in {1e-4,1e-2,1} at β = (.9,.999)) / momentum {0,.5,.9,.99} × Nesterov on/off × every budget k in 0..=32 and every 8th to 200 (0..=64 and every 8th to 2000 thorough), each compared with the published recurrence stepped by the harness; LM: linear (constant, line, quadratic, cubic), exponential and logistic curve fits with fixed noise patterns, 5/12/40/200 points, good and poor starts, every budget 0..=60 (200) and 200; every (configuration, budget) pair is a distinct non-trivial case");
    let _ = Vector::new(vec![0.0]);
    first_order(run);
    // the Default objects: SGD (step 1e-5, momentum 0.9, Nesterov) and Adam (Kingma-Ba: 1e-3, 0.9, 0.999, 1e-8), as
    // they are and after set_stepsize, return the iterates of the recurrence for those hyper-parameters
    {
        let probs = problems();
        for p in probs.iter().take(6) {
            let data: Vec<&[f64]> = p.data.iter().map(|v| v.as_slice()).collect();
            for theta0 in p.starts.iter().take(2) {
                for step in [None, Some(0.013), Some(0.25), Some(1e-4)] {
                    let st_s = step.unwrap_or(1e-5);
                    let st_a = step.unwrap_or(1e-3);
                    let traj_s = sgd_model(p.f, theta0, &data, st_s, 0.9, true, 60);
                    let traj_a = adam_model(p.f, theta0, &data, st_a, 0.9, 0.999, 1e-8, 60);
                    for k in [1usize, 2, 3, 5, 10, 60] {
                        for which in 0..2 {
                            run.case();
                            run.tr();
                            run.ok();
                            run.nontrivial(1);
                            let (want, name) = if which == 0 { (&traj_s[k], "SGD::default()") } else { (&traj_a[k], "Adam::default()") };
                            if want.iter().any(|x| !x.is_finite()) {
                                continue;
                            }
                            let got = guard(|| {
                                if which == 0 {
                                    let mut o = SGD::default();
                                    if let Some(s) = step {
                                        o.set_stepsize(s);
                                    }
                                    o.optimize(p.f, theta0, &data, k).v.clone()
                                } else {
                                    let mut o = Adam::default();
                                    if let Some(s) = step {
                                        o.set_stepsize(s);
                                    }
                                    o.optimize(p.f, theta0, &data, k).v.clone()
                                }
                            });
                            match got {
                                Ok(g) if same_vec(&g, want, 1e-10 * (1.0 + k as f64)) => run.regime("default-optimizers"),
                                // an early stop at an iterate where the parameters no longer change is accepted as elsewhere
                                Ok(g) if (1..k).any(|j| { let t = if which == 0 { &traj_s } else { &traj_a }; same_vec(&g, &t[j], 1e-10 * (1.0 + j as f64)) && bits(&t[j]) == bits(&t[j - 1]) }) => run.regime("default-optimizers"),
                                Ok(g) => run.violate(&format!("{}/default-object/not-the-recurrence", if which == 0 { "SGD" } else { "Adam" }), || format!("{}{} on {} from {:?}, budget {}: returned {:?}, the recurrence of its documented hyper-parameters gives {:?}", name, step.map(|s| format!(" + set_stepsize({})", s)).unwrap_or_default(), p.name, theta0, k, g, want)),
                                Err(e) => run.violate("optimizer/default-object/panic", || format!("{} on {}: {}", name, p.name, e)),
                            }
                        }
                    }
                }
            }
        }
        run.require_regime("default-optimizers");
    }
    lm_suite(run);
    for r in ["Adam", "SGD-plain", "SGD-momentum", "SGD-nesterov", "LM-descent", "LM-covariance-ok", "LM-linear-solved", "runaway: objective overflowed, iterates finite"] {
        run.require_regime(r);
    }
    run.assume("the reference recurrence takes its gradients from the same reverse-mode tape API (so the comparison isolates the update rule); those gradients are checked against analytic ones at 1e-10");
    run.assume("agreement tolerance 1e-10·(1+k) relative per coordinate; configurations whose reference recurrence diverges to inf/NaN are skipped from that budget on");
    run.assume("LM 'reaches the least-squares solution': at budget 200 with the default tolerances either within 1e-5·(1+‖θ*‖) of it or first-order optimal to |JᵀR|∞ ≤ 1e-5 (10× the solver's own gradient tolerance) or at a residual sum of squares within 1e-6 relative of the minimum");
    run.assume("Default optimizer objects stand for the documented hyper-parameters: SGD 1e-5 / momentum 0.9 / Nesterov, Adam 1e-3 / 0.9 / 0.999 / 1e-8 (Kingma-Ba)");
    run.assume("an early stop of Adam/SGD is accepted exactly when the returned value is an iterate at which the parameters did not change");
}
