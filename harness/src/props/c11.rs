//! C11 — factorisations reconstruct the input and have the promised structure.
//! Engine E3: all small matrices over integer alphabets (incl. singular), every permutation
//! matrix × diagonal sign pattern, structured families of every order 1..=32 with single-entry
//! deviations and row transpositions, all pivot vectors for the parity, triangular systems.
use super::lin::*;
use crate::common::dd::DD;
use crate::common::enumerate::{par_words, permutations};
use crate::common::rat::{det_bareiss, det_rat, Rat};
use crate::common::refmath::U;
use crate::common::{guard, Run};
use compute::linalg::{self, Matrix, Solve, Vector};
use rayon::prelude::*;

fn finite(v: &[f64]) -> bool {
    v.iter().all(|x| x.is_finite())
}

/// structural and reconstruction checks of a packed LU factorisation
fn check_lu(run: &Run, site: &str, a: &[f64], n: usize, lu: &[f64], piv: &[i32], desc: &dyn Fn() -> String) -> bool {
    let mut seen = vec![false; n];
    let mut ok = piv.len() == n;
    for &p in piv {
        if p < 0 || p as usize >= n || seen[p as usize] {
            ok = false;
            break;
        }
        seen[p as usize] = true;
    }
    if !ok {
        run.violate(&format!("{}/pivots-not-a-permutation", site), || format!("{}: pivots {:?}", desc(), piv));
        return false;
    }
    if lu.len() != n * n || !finite(lu) {
        run.violate(&format!("{}/non-finite", site), || format!("{}: lu = {:?}", desc(), lu));
        return false;
    }
    for i in 0..n {
        for j in 0..i {
            if lu[i * n + j].abs() > 1.0 {
                run.violate(&format!("{}/multiplier-exceeds-1", site), || format!("{}: |l[{}][{}]| = {:e}", desc(), i, j, lu[i * n + j].abs()));
                return false;
            }
        }
    }
    // ‖P·A − L·U‖∞ in double-double
    let mut worst = 0.0f64;
    let (mut nl, mut nu) = (0.0f64, 0.0f64);
    for i in 0..n {
        let mut rs = 0.0;
        let mut rl = 1.0;
        let mut ru = 0.0;
        for j in 0..n {
            let mut s = DD::new(-a[piv[i] as usize * n + j]);
            for k in 0..=i.min(j) {
                let l = if k == i { 1.0 } else { lu[i * n + k] };
                s = s + DD::new(l) * DD::new(lu[k * n + j]);
            }
            rs += s.f().abs();
            if j < i {
                rl += lu[i * n + j].abs();
            } else {
                ru += lu[i * n + j].abs();
            }
        }
        worst = worst.max(rs);
        nl = nl.max(rl);
        nu = nu.max(ru);
    }
    let tol = 8.0 * n as f64 * U * nl * nu + 1e-300;
    if worst > tol {
        run.violate(&format!("{}/PA-differs-from-LU", site), || format!("{}: |PA-LU| = {:e} > {:e}; lu={:?} piv={:?}", desc(), worst, tol, lu, piv));
        return false;
    }
    true
}

/// the factorisation is invariant under exact power-of-two scalings of the matrix (same pivots, same L,
/// U scaled): the same suite on 2^-60·A and 2^60·A (entries far below / above machine epsilon)
fn lu_suite(run: &Run, tag: &str, a: &[f64], n: usize, exact_det: Option<f64>) {
    lu_suite_one(run, tag, a, n, exact_det);
    if n <= 12 {
        for e in [-60i32, 60] {
            let sc = 2f64.powi(e);
            let b: Vec<f64> = a.iter().map(|v| v * sc).collect();
            let d = if n <= 8 { exact_det.map(|d| d * 2f64.powi(e * n as i32)) } else { None };
            lu_suite_one(run, &format!("{}*2^{}", tag, e), &b, n, d);
            run.regime("lu-scaled");
        }
    }
}

fn lu_suite_one(run: &Run, tag: &str, a: &[f64], n: usize, exact_det: Option<f64>) {
    run.case();
    let desc = || format!("{} A({}x{})={:?}", tag, n, n, a);
    run.trs(2);
    run.ok();
    let s = guard(|| linalg::lu(a));
    let m = guard(|| Matrix::new(a.to_vec(), n as i32, n as i32).lu());
    match (&s, &m) {
        (Ok((lu, piv)), Ok((mlu, mpiv))) => {
            let a_ok = check_lu(run, "lu(slice)", a, n, lu, piv, &desc);
            let b_ok = check_lu(run, "Matrix.lu", a, n, &mlu.data, mpiv, &desc);
            if a_ok && b_ok {
                if lu.iter().zip(mlu.data.iter()).any(|(x, y)| x.to_bits() != y.to_bits() && !(*x == 0.0 && *y == 0.0)) || piv != mpiv {
                    run.violate("lu/slice-vs-Matrix-differ", || format!("{}: slice {:?} {:?} vs Matrix {:?} {:?}", desc(), lu, piv, mlu.data.v, mpiv));
                }
                let swapped = piv.iter().enumerate().any(|(i, &p)| p as usize != i);
                run.outcome(&("lu-ok", tag, swapped, n.min(9)));
                run.regime(if swapped { "lu-with-row-swaps" } else { "lu-without-swaps" });
            }
            // "the determinant equals the signed product of U's diagonal": against the returned factors,
            // the product accumulated with a separate exponent (the partial products may leave the f64 range
            // although the determinant does not)
            if a_ok && b_ok {
                let (mut mant, mut expo) = (1.0f64, 0i64);
                for i in 0..n {
                    let u = mlu.data[i * n + i];
                    if u == 0.0 {
                        mant = 0.0;
                        break;
                    }
                    let e = u.abs().log2().floor() as i32;
                    mant *= u / 2f64.powi(e.clamp(-1000, 1000)) / 2f64.powi(e - e.clamp(-1000, 1000));
                    expo += e as i64;
                }
                let mut seen = vec![false; n];
                let mut sign = 1.0;
                for i in 0..n {
                    if !seen[i] {
                        let (mut j, mut len) = (i, 0);
                        while !seen[j] {
                            seen[j] = true;
                            j = mpiv[j] as usize;
                            len += 1;
                        }
                        if len % 2 == 0 {
                            sign = -sign;
                        }
                    }
                }
                let want = if mant == 0.0 { Some(0.0) } else if (-1000..=1000).contains(&expo) { Some(sign * mant * 2f64.powi(expo as i32)) } else { None };
                if let Some(want) = want.filter(|w| w.is_finite() && (*w == 0.0 || w.abs() > 1e-290)) {
                    let mat = Matrix::new(a.to_vec(), n as i32, n as i32);
                    run.trs(2);
                    for (what, got) in [("Matrix.det", guard(|| mat.det())), ("lu_det", guard(|| mlu.lu_det(mpiv)))] {
                        match got {
                            Ok(g) if (g - want).abs() <= 1e-12 * want.abs() => run.regime("det-is-signed-pivot-product"),
                            Ok(g) => run.violate(&format!("{}/not-the-signed-product-of-U-diagonal", what), || format!("{} (order {}, largest entry {:e}): {} = {:e}, sign(P)·∏u_ii of the returned factors = {:e}", tag, n, a.iter().fold(0.0f64, |m, v| m.max(v.abs())), what, g, want)),
                            Err(p) => run.violate(&format!("{}/panic", what), || format!("{}: {}", desc(), p)),
                        }
                    }
                }
            }
            // determinant
            if let Some(d) = exact_det {
                let hadamard: f64 = (0..n).map(|i| (0..n).map(|j| a[i * n + j] * a[i * n + j]).sum::<f64>().sqrt()).product();
                let tol = 8.0 * (n * n) as f64 * U * hadamard + 1e-300;
                run.trs(2);
                let mat = Matrix::new(a.to_vec(), n as i32, n as i32);
                for (what, got) in [("Matrix.det", guard(|| mat.det())), ("lu_det", guard(|| mlu.lu_det(mpiv)))] {
                    match got {
                        Ok(g) => {
                            if !((g - d).abs() <= tol) {
                                let sign_only = (g + d).abs() <= tol;
                                run.outcome(&(what, "bad", sign_only));
                                run.violate(&format!("{}{}", what, if sign_only { "/wrong-sign" } else { "/wrong-value" }), || format!("{}: {} = {:e}, exact determinant {:e} (pivots {:?})", desc(), what, g, d, mpiv));
                            } else {
                                run.outcome(&(what, "ok", d == 0.0, d < 0.0));
                                run.regime(if d == 0.0 { "det-singular" } else { "det-nonsingular" });
                            }
                        }
                        Err(p) => run.violate(&format!("{}/panic", what), || format!("{}: {}", desc(), p)),
                    }
                }
            }
        }
        (Err(p), _) => run.violate("lu(slice)/panic", || format!("{}: {}", desc(), p)),
        (_, Err(p)) => run.violate("Matrix.lu/panic", || format!("{}: {}", desc(), p)),
    }
}

/// classification of a symmetric rational matrix: Some(true) positive definite, Some(false) not
fn is_pd_exact(a: &[f64], n: usize) -> Option<bool> {
    let r: Vec<Rat> = a.iter().map(|&v| Rat::from_f64(v)).collect();
    for k in 1..=n {
        let mut sub = Vec::with_capacity(k * k);
        for i in 0..k {
            for j in 0..k {
                sub.push(r[i * n + j]);
            }
        }
        let d = det_rat(&sub, k)?;
        if d.signum() <= 0 {
            return Some(false);
        }
    }
    Some(true)
}

fn chol_check_factor(run: &Run, site: &str, a: &[f64], n: usize, l: &[f64], desc: &dyn Fn() -> String) -> bool {
    if l.len() != n * n || !finite(l) {
        run.violate(&format!("{}/non-finite", site), || format!("{}: L = {:?}", desc(), l));
        return false;
    }
    for i in 0..n {
        if !(l[i * n + i] > 0.0) {
            run.violate(&format!("{}/diagonal-not-positive", site), || format!("{}: L[{}][{}] = {:e}", desc(), i, i, l[i * n + i]));
            return false;
        }
        for j in i + 1..n {
            if l[i * n + j] != 0.0 {
                run.violate(&format!("{}/not-lower-triangular", site), || format!("{}: L[{}][{}] = {:e}", desc(), i, j, l[i * n + j]));
                return false;
            }
        }
    }
    let an = inf_norm(a, n, n);
    let mut worst = 0.0f64;
    for i in 0..n {
        let mut rs = 0.0;
        for j in 0..n {
            let mut s = DD::new(-a[i * n + j]);
            for k in 0..=i.min(j) {
                s = s + DD::new(l[i * n + k]) * DD::new(l[j * n + k]);
            }
            rs += s.f().abs();
        }
        worst = worst.max(rs);
    }
    let tol = 4.0 * (n * (n + 1)) as f64 * U * an + 1e-300;
    if worst > tol {
        run.violate(&format!("{}/LLt-differs-from-A", site), || format!("{}: |LLt-A| = {:e} > {:e}", desc(), worst, tol));
        return false;
    }
    true
}

/// Cholesky on a symmetric matrix whose definiteness is known exactly
fn chol_suite(run: &Run, tag: &str, a: &[f64], n: usize, pd: bool, exact_l: Option<&[f64]>) {
    run.case();
    let desc = || format!("{} A({}x{})={:?}", tag, n, n, a);
    run.trs(2);
    run.ok();
    let s = guard(|| linalg::cholesky(a));
    let m = guard(|| Matrix::new(a.to_vec(), n as i32, n as i32).cholesky().data.v.clone());
    if pd {
        match (&s, &m) {
            (Ok(ls), Ok(lm)) => {
                let a_ok = chol_check_factor(run, "cholesky(slice)", a, n, ls, &desc);
                let b_ok = chol_check_factor(run, "Matrix.cholesky", a, n, lm, &desc);
                if a_ok && b_ok {
                    let ln = inf_norm(ls, n, n);
                    let tol = 16.0 * n as f64 * U * ln;
                    if ls.iter().zip(lm).any(|(x, y)| (x - y).abs() > tol) {
                        run.violate("cholesky/slice-vs-Matrix-differ", || format!("{}: {:?} vs {:?}", desc(), ls, lm));
                    }
                    if let Some(el) = exact_l {
                        // forward error of the factor is governed by the conditioning; the integer families are benign
                        let tol = 64.0 * (n * n) as f64 * U * inf_norm(el, n, n) * inf_norm(a, n, n).max(1.0);
                        if ls.iter().zip(el).any(|(x, y)| (x - y).abs() > tol) {
                            run.violate("cholesky(slice)/differs-from-exact-factor", || format!("{}: L = {:?}, exact {:?}", desc(), ls, el));
                        }
                    }
                    run.outcome(&("chol-ok", tag, n.min(9)));
                    run.regime("cholesky-spd-ok");
                }
            }
            (Err(p), _) => run.violate("cholesky(slice)/panic-on-spd", || format!("{}: {}", desc(), p)),
            (_, Err(p)) => run.violate("Matrix.cholesky/panic-on-spd", || format!("{}: {}", desc(), p)),
        }
    } else {
        // not positive definite: a panic is the accepted rejection; a finite factor that
        // reconstructs the input (singular PSD) is accepted; anything else is a violation
        for (what, res) in [("cholesky(slice)", &s), ("Matrix.cholesky", &m)] {
            match res {
                Err(_) => {
                    run.outcome(&(what, "rejected"));
                    run.regime("cholesky-non-pd-rejected");
                }
                Ok(l) => {
                    if !finite(l) {
                        run.outcome(&(what, "nonfinite"));
                        run.violate(&format!("{}/non-finite-factor-for-non-PD-input", what), || format!("{}: L = {:?}", desc(), l));
                    } else {
                        // must reconstruct
                        let mut worst = 0.0f64;
                        for i in 0..n {
                            for j in 0..n {
                                let mut s = DD::new(-a[i * n + j]);
                                for k in 0..n {
                                    s = s + DD::new(l[i * n + k]) * DD::new(l[j * n + k]);
                                }
                                worst = worst.max(s.f().abs());
                            }
                        }
                        if worst > 4.0 * (n * (n + 1)) as f64 * U * inf_norm(a, n, n) + 1e-300 {
                            run.violate(&format!("{}/wrong-factor-for-non-PD-input", what), || format!("{}: finite L = {:?} with |LLt-A| = {:e}", desc(), l, worst));
                        } else {
                            run.outcome(&(what, "psd-reconstructs"));
                        }
                    }
                }
            }
        }
    }
}

fn tri_suite(run: &Run, t: &[f64], n: usize, lower: bool) {
    // a dense right-hand side, every unit vector (inverting the triangle), leading / trailing zeros, zero
    let mut rhs: Vec<Vec<f64>> = vec![(0..n).map(|i| (i as f64 + 1.0) * if i % 2 == 0 { 1.0 } else { -0.5 }).collect()];
    for k in 0..n {
        rhs.push((0..n).map(|i| if i == k { 1.0 } else { 0.0 }).collect());
    }
    rhs.push((0..n).map(|i| if i < n / 2 { 0.0 } else { i as f64 - 0.5 }).collect());
    rhs.push((0..n).map(|i| if i >= (n + 1) / 2 { 0.0 } else { 2.0 - i as f64 }).collect());
    rhs.push(vec![0.0; n]);
    for b in rhs {
        tri_suite_one(run, t, n, lower, b);
    }
}

fn tri_suite_one(run: &Run, t: &[f64], n: usize, lower: bool, b: Vec<f64>) {
    run.case();
    run.trs(2);
    run.ok();
    let what = if lower { "forward_substitution" } else { "backward_substitution" };
    let desc = || format!("{} T({}x{})={:?} b={:?}", what, n, n, t, b);
    let s = guard(|| if lower { linalg::forward_substitution(t, &b) } else { linalg::backward_substitution(t, &b) });
    let mat = Matrix::new(t.to_vec(), n as i32, n as i32);
    let m = guard(|| if lower { mat.forward_substitution(&b).v.clone() } else { mat.backward_substitution(&b).v.clone() });
    for (which, r) in [("slice", s), ("Matrix", m)] {
        match r {
            Ok(x) => {
                if x.len() != n || !finite(&x) {
                    run.violate(&format!("{}({})/non-finite", what, which), || format!("{}: x = {:?}", desc(), x));
                    continue;
                }
                let be = backward_error(t, n, &x, &b, 1);
                if be > 8.0 * n as f64 * U {
                    run.violate(&format!("{}({})/backward-error", what, which), || format!("{}: x = {:?}, backward error {:e}", desc(), x, be));
                } else {
                    run.outcome(&(what, which, n.min(9)));
                }
            }
            Err(p) => run.violate(&format!("{}({})/panic", what, which), || format!("{}: {}", desc(), p)),
        }
    }
}

pub fn run(run: &Run) {
    run.rule("ipiv_parity on all n! pivot vectors (n≤8); every permutation matrix of order ≤6 × every diagonal sign pattern; every matrix of order ≤3 over {0,±1,2} (quick) / {0,±1,±2} (thorough) incl. singular ones with the exact Bareiss determinant; every symmetric matrix of order ≤3 over {0,±1,2,3} with positive diagonal classified PD / not PD by exact leading minors; SPD and general families of every order 1..=32 with diagonal bumps, single-entry deviations and row transpositions; triangular systems of order ≤12; both API levels; non-trivial = needs a row swap, is singular, is not PD, or n ≥ 9 (unrolled dot)");
    // ---- parity of every pivot vector ----------------------------------------------------------
    let pmax = run.tier.pick(8usize, 9usize);
    for n in 1..=pmax {
        permutations(n, |p| {
            run.case();
            run.tr();
            run.ok();
            run.nontrivial(1);
            let v: Vec<i32> = p.iter().map(|&x| x as i32).collect();
            let want = perm_sign(p);
            match guard(|| linalg::ipiv_parity(&v)) {
                Ok(g) if g == want => run.outcome(&("parity", want)),
                Ok(g) => {
                    run.outcome(&("parity-bad", want));
                    run.violate("ipiv_parity/wrong", || format!("ipiv_parity({:?}) = {}, permutation sign {}", v, g, want))
                }
                Err(e) => run.violate("ipiv_parity/panic", || format!("ipiv_parity({:?}): {}", v, e)),
            }
        });
    }
    run.bound("pivot vectors", format!("all permutations of order 1..={}", pmax));
    // ---- permutation matrices × diagonal signs -------------------------------------------------
    let qmax = run.tier.pick(6usize, 7usize);
    for n in 1..=qmax {
        let mut perms = Vec::new();
        permutations(n, |p| perms.push(p.to_vec()));
        perms.par_iter().for_each(|p| {
            for signs in 0..(1u32 << n) {
                let mut a = vec![0.0; n * n];
                let mut det = perm_sign(p) as f64;
                for i in 0..n {
                    let s = if signs >> i & 1 == 1 { -1.0 } else { 1.0 };
                    a[i * n + p[i]] = s * (1.0 + (i % 3) as f64);
                    det *= s * (1.0 + (i % 3) as f64);
                }
                lu_suite(run, "permutation-matrix", &a, n, Some(det));
                run.nontrivial(1);
            }
        });
    }
    run.bound("permutation matrices", format!("all of order 1..={} × all diagonal sign patterns", qmax));
    run.sample(|| "permutation matrix of the 4-cycle [1,2,3,0] with all-positive entries: LU structure, PA=LU, det = -6".to_string());
    // ---- all small matrices ----------------------------------------------------------------------
    let letters: Vec<f64> = if run.thorough() { vec![0.0, 1.0, -1.0, 2.0, -2.0] } else { vec![0.0, 1.0, -1.0, 2.0] };
    for n in 1..=3usize {
        par_words(letters.len(), n * n, |w| {
            let a: Vec<f64> = w.iter().map(|&i| letters[i]).collect();
            let ints: Vec<i128> = a.iter().map(|v| *v as i128).collect();
            let d = det_bareiss(&ints, n).map(|d| d as f64);
            lu_suite(run, "small-integer", &a, n, d);
            if d == Some(0.0) {
                run.nontrivial(1);
            }
        });
    }
    if run.thorough() {
        par_words(3, 16, |w| {
            let a: Vec<f64> = w.iter().map(|&i| [0.0, 1.0, -1.0][i]).collect();
            let ints: Vec<i128> = a.iter().map(|v| *v as i128).collect();
            lu_suite(run, "small-integer", &a, 4, det_bareiss(&ints, 4).map(|d| d as f64));
        });
    }
    run.bound("small matrices", format!("all of order ≤3 over {} letters{}", letters.len(), if run.thorough() { ", order 4 over {0,±1}" } else { "" }));
    // ---- symmetric with positive diagonal, order ≤ 3 ------------------------------------------
    let sl = [0.0, 1.0, -1.0, 2.0, 3.0];
    let dl = [1.0, 2.0, 3.0];
    for n in 1..=3usize {
        let off = n * (n - 1) / 2;
        par_words(5, off.max(1), |w| {
            for dcode in 0..3usize.pow(n as u32) {
                let mut a = vec![0.0; n * n];
                let mut k = 0;
                for i in 0..n {
                    a[i * n + i] = dl[(dcode / 3usize.pow(i as u32)) % 3];
                    for j in i + 1..n {
                        a[i * n + j] = sl[w[k]];
                        a[j * n + i] = sl[w[k]];
                        k += 1;
                    }
                }
                if let Some(pd) = is_pd_exact(&a, n) {
                    chol_suite(run, if pd { "small-spd" } else { "small-symmetric-not-pd" }, &a, n, pd, None);
                    if !pd {
                        run.nontrivial(1);
                    }
                }
            }
        });
    }
    // also symmetric with a non-positive diagonal entry
    for a in [vec![0.0], vec![-1.0], vec![1.0, 0.0, 0.0, -1.0], vec![0.0, 1.0, 1.0, 0.0], vec![2.0, 1.0, 1.0, 0.0]] {
        let n = (a.len() as f64).sqrt() as usize;
        chol_suite(run, "symmetric-nonpositive-diagonal", &a, n, false, None);
    }
    // ---- families of every order -----------------------------------------------------------------
    let nmax = run.tier.pick(24usize, 32usize);
    run.bound("family orders", format!("1..={}", nmax));
    (1..=nmax).into_par_iter().for_each(|n| {
        // SPD families with their exact factors where known
        let ones_l: Vec<f64> = (0..n * n).map(|t| if t % n <= t / n { 1.0 } else { 0.0 }).collect();
        chol_suite(run, "minmat", &minmat(n), n, true, Some(&ones_l));
        if n <= 12 {
            chol_suite(run, "pascal", &pascal(n), n, true, None);
        }
        chol_suite(run, "tridiag(-1,4,-1)", &tridiag(n, -1.0, 4.0, -1.0), n, true, None);
        for k in [4, 8, 13] {
            chol_suite(run, "graded", &graded(n, k), n, true, None);
        }
        for i in 0..n {
            for delta in [1.0, 0.5] {
                let mut a = minmat(n);
                a[i * n + i] += delta;
                chol_suite(run, "minmat+diagonal-bump", &a, n, true, None);
            }
        }
        if n >= 2 {
            chol_suite(run, "symmetric-indefinite-positive-diagonal", &sym_indef(n), n, false, None);
            for i in 0..n {
                // flip one diagonal entry of an SPD matrix far negative: indefinite
                let mut a = tridiag(n, -1.0, 4.0, -1.0);
                a[i * n + i] = -4.0;
                chol_suite(run, "symmetric-negative-diagonal-entry", &a, n, false, None);
                // positive diagonal but a dominant off-diagonal pair: indefinite
                if i + 1 < n {
                    let mut b = tridiag(n, -1.0, 4.0, -1.0);
                    b[i * n + i + 1] = 9.0;
                    b[(i + 1) * n + i] = 9.0;
                    chol_suite(run, "symmetric-indefinite-positive-diagonal", &b, n, false, None);
                }
            }
        }
        if n <= 6 {
            // symmetric single off-diagonal deviations, classified exactly
            for i in 0..n {
                for j in 0..i {
                    for delta in [-3.0, -1.0, 1.0, 2.0] {
                        let mut a = minmat(n);
                        a[i * n + j] += delta;
                        a[j * n + i] += delta;
                        if let Some(pd) = is_pd_exact(&a, n) {
                            chol_suite(run, if pd { "minmat+symmetric-deviation" } else { "minmat+symmetric-deviation-not-pd" }, &a, n, pd, None);
                        }
                    }
                }
            }
        }
        // general families for LU
        let ints = |a: &[f64]| a.iter().map(|v| *v as i128).collect::<Vec<_>>();
        let exact = |a: &[f64]| if a.iter().all(|v| v.fract() == 0.0) { det_bareiss(&ints(a), n).map(|d| d as f64).filter(|d| d.abs() < 9e15) } else { None };
        let fams: Vec<(&str, Vec<f64>, Option<f64>)> = vec![
            ("minmat", minmat(n), Some(1.0)),
            ("ddom", ddom(n), None),
            ("sym_indef", sym_indef(n), None),
            ("pdt0", pdt(n, 0).0, Some(pdt(n, 0).1)),
            ("pdt1", pdt(n, 1).0, Some(pdt(n, 1).1)),
            ("pdt3", pdt(n, 3).0, Some(pdt(n, 3).1)),
        ];
        for (name, a, d) in &fams {
            let d = d.or_else(|| exact(a));
            lu_suite(run, name, a, n, d);
            // every row transposition (flips the determinant)
            for i in 0..n {
                for j in 0..i {
                    if n > 12 && (i + j) % 3 != 0 {
                        continue;
                    }
                    let mut b = a.clone();
                    for k in 0..n {
                        b.swap(i * n + k, j * n + k);
                    }
                    lu_suite(run, &format!("{}+row-transposition", name), &b, n, d.map(|x| -x));
                    run.nontrivial(1);
                }
            }
            // single-entry deviations
            for i in 0..n {
                for j in 0..n {
                    if n > 12 && (i * 5 + j) % 4 != 0 {
                        continue;
                    }
                    let mut b = a.clone();
                    b[i * n + j] += 1.0;
                    lu_suite(run, &format!("{}+entry-deviation", name), &b, n, exact(&b));
                    if i == j {
                        // zero a diagonal entry: forces pivoting / singular leading minors
                        let mut z = a.clone();
                        z[i * n + i] = 0.0;
                        lu_suite(run, &format!("{}+zero-diagonal", name), &z, n, exact(&z));
                    }
                }
            }
        }
        // rank-deficient: duplicate a row
        if n >= 2 {
            let mut a = ddom(n);
            for k in 0..n {
                a[(n - 1) * n + k] = a[k];
            }
            lu_suite(run, "rank-deficient", &a, n, Some(0.0));
            let z = vec![0.0; n * n];
            lu_suite(run, "zero-matrix", &z, n, Some(0.0));
        }
        if n >= 9 {
            run.nontrivial(1);
        }
    });
    // ---- pseudo-random dense matrices of every order: LU structure, SPD Cholesky --------------------
    let per = run.tier.pick(6u64, 40u64);
    (2..=32usize).into_par_iter().for_each(|n| {
        for seed in 0..per {
            let a = lcg_dense(n, n, seed * 977 + n as u64);
            let d = if n <= 6 { det_bareiss(&a.iter().map(|v| (*v * 8.0) as i128).collect::<Vec<_>>(), n).map(|d| d as f64 / 8f64.powi(n as i32)) } else { None };
            lu_suite(run, "random-dense", &a, n, d);
            chol_suite(run, "random-spd", &gram_spd(&a, n), n, true, None);
            run.nontrivial(1);
        }
    });
    // ---- entries of mixed magnitude: a modest diagonal with one huge entry, one scaled row, one tiny column ----
    {
        let orders: Vec<usize> = if run.thorough() { (2..=32).collect() } else { vec![3, 8, 12, 20, 24, 31, 32] };
        orders.par_iter().for_each(|&n| {
            for &dg in &[0.11, 1.0, 7.5] {
                let base: Vec<f64> = (0..n * n).map(|t| if t / n == t % n { dg } else { 0.01 * (((t * 7) % 11) as f64 - 5.0) }).collect();
                for &(kind, mag) in &[(0usize, 3e9), (0, 4.3e9), (0, 1e-9), (1, 1e10), (1, 1e16), (1, 1e-16), (2, 1e-12), (2, 1e12), (1, 1e100), (1, 1e-100)] {
                    let mut a = base.clone();
                    match kind {
                        0 => a[(n / 2) * n + (n - 1)] = mag,
                        1 => (0..n).for_each(|j| a[(n / 3) * n + j] *= mag),
                        _ => (0..n).for_each(|i| a[i * n + n / 2] *= mag),
                    }
                    lu_suite(run, "mixed-magnitude", &a, n, None);
                    run.nontrivial(1);
                }
            }
        });
    }
    // ---- a matrix object that is factorised, updated in place and factorised again: the factors, the determinant and
    // the solution are those of the current contents (equal to a fresh object's with the same data) --------------------
    {
        let mut n_hist = 0u64;
        for n in 2..=6usize {
            for seed in 0..3u64 {
                let a0 = lcg_dense(n, n, seed * 31 + n as u64);
                let other = lcg_dense(n, n, seed * 17 + 100 + n as u64);
                for upd in 0..8usize {
                    run.case();
                    run.trs(4);
                    run.ok();
                    run.nontrivial(1);
                    n_hist += 1;
                    let r = guard(|| {
                        let mut m = Matrix::new(a0.clone(), n as i32, n as i32);
                        let o = Matrix::new(other.clone(), n as i32, n as i32);
                        let before = (m.lu(), m.det());
                        match upd {
                            0 => m *= 2.0,
                            1 => m += &(Matrix::eye(n) * 10.0),
                            2 => m -= &o,
                            3 => m /= 4.0,
                            4 => m += 1.5,
                            5 => m.data[0] += 3.0,
                            6 => m[[n - 1, 0]] = 7.25,
                            _ => m = &m * &o,
                        }
                        let _ = before;
                        let fresh = Matrix::new(m.data.v.clone(), n as i32, n as i32);
                        ((m.lu(), m.det()), (fresh.lu(), fresh.det()), m.data.v.clone())
                    });
                    const UPD: [&str; 8] = ["*= 2", "+= 10·I", "-= &B", "/= 4", "+= 1.5", "data[0] += 3", "[[n-1,0]] = 7.25", "= &A * &B"];
                    match r {
                        Ok((((lu1, p1), d1), ((lu2, p2), d2), data)) => {
                            if lu1.data.v.iter().zip(lu2.data.v.iter()).any(|(x, y)| x.to_bits() != y.to_bits()) || p1 != p2 || d1.to_bits() != d2.to_bits() {
                                run.violate("Matrix.lu/stale-after-in-place-update", || format!("order {}: lu(), det(), then `{}`, then lu() / det(): factors {:?} pivots {:?} det {:e}; a fresh Matrix with the same data {:?} gives {:?} {:?} {:e}", n, UPD[upd], lu1.data.v, p1, d1, data, lu2.data.v, p2, d2));
                            } else {
                                run.regime("lu-after-in-place-update");
                            }
                        }
                        Err(p) => run.violate("Matrix.lu/panic", || format!("order {} update `{}`: {}", n, UPD[upd], p)),
                    }
                }
            }
        }
        run.bound("factorise / update in place / factorise", format!("{} histories: orders 2..=6 × 3 matrices × 8 in-place updates", n_hist));
    }
    // ---- triangular systems ----------------------------------------------------------------------
    let tl = [1.0, -2.0, 0.5, 3.0];
    for n in 1..=12usize {
        for v in 0..run.tier.pick(24usize, 200usize) {
            let mut lo = vec![0.0; n * n];
            let mut up = vec![0.0; n * n];
            for i in 0..n {
                for j in 0..=i {
                    let x = if i == j { tl[(i + v) % 4] } else { [0.0, 1.0, -1.0, 2.0, -0.5][(i * 3 + j * 7 + v) % 5] };
                    lo[i * n + j] = x;
                    up[j * n + i] = x;
                }
            }
            tri_suite(run, &lo, n, true);
            tri_suite(run, &up, n, false);
        }
    }
    // ---- lu_solve / cholesky_solve, slice vs Matrix ------------------------------------------------
    for n in 1..=nmax.min(20) {
        let a = ddom(n);
        let b: Vec<f64> = (0..n).map(|i| 1.0 + i as f64).collect();
        run.case();
        run.trs(4);
        run.ok();
        let r = guard(|| {
            let (lu, piv) = linalg::lu(&a);
            let xs = linalg::lu_solve(&lu, &piv, &b);
            let m = Matrix::new(a.clone(), n as i32, n as i32);
            let (mlu, mpiv) = m.lu();
            let xm: Vector = mlu.lu_solve(&mpiv, &Vector::new(b.clone()));
            (xs, xm.v.clone())
        });
        match r {
            Ok((xs, xm)) => {
                for (w, x) in [("lu_solve(slice)", &xs), ("Matrix.lu_solve", &xm)] {
                    let be = backward_error(&a, n, x, &b, 1);
                    if !(be <= solve_bound(n)) {
                        run.violate(&format!("{}/backward-error", w), || format!("n={} backward error {:e}", n, be));
                    }
                }
            }
            Err(p) => run.violate("lu_solve/panic", || format!("n={}: {}", n, p)),
        }
        let s = minmat(n);
        let r = guard(|| {
            let l = linalg::cholesky(&s);
            let xs = linalg::cholesky_solve(&l, &b);
            let m = Matrix::new(s.clone(), n as i32, n as i32);
            let ml = m.cholesky();
            let xm: Vector = ml.cholesky_solve(&Vector::new(b.clone()));
            (xs, xm.v.clone())
        });
        match r {
            Ok((xs, xm)) => {
                for (w, x) in [("cholesky_solve(slice)", &xs), ("Matrix.cholesky_solve", &xm)] {
                    let be = backward_error(&s, n, x, &b, 1);
                    if !(be <= solve_bound(n)) {
                        run.violate(&format!("{}/backward-error", w), || format!("n={} backward error {:e}", n, be));
                    }
                }
            }
            Err(p) => run.violate("cholesky_solve/panic", || format!("n={}: {}", n, p)),
        }
    }
    for r in ["lu-with-row-swaps", "lu-without-swaps", "det-singular", "det-nonsingular", "cholesky-spd-ok"] {
        run.require_regime(r);
    }
    run.assume("LU: slice and Matrix factors must be bitwise identical; Cholesky: within 16·n·u·‖L‖ (the two implementations sum the same products in a different association once n exceeds the unroll width)");
    run.assume("determinant tolerance 8n²u·∏‖row_i‖₂ (Hadamard) around the exact Bareiss / closed-form value");
    run.assume("random dense SPD matrices with cond up to 1e8 are represented by graded scalings D·minmat·D of every order");
}
