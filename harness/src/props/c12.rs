//! C12 — broadcast arithmetic follows NumPy semantics.
//! Engine E3: all shape pairs × operators × operand kinds × ownership forms, bitwise oracle.
use crate::common::enumerate::PRIMES;
use crate::common::{guard, Run};
use compute::linalg::{Dot, Matrix, Vector};
use rayon::prelude::*;

fn left(n: usize) -> Vec<f64> {
    (0..n).map(|k| PRIMES[k % 32] + (k / 32) as f64 * 1000.0).collect()
}
fn right(n: usize) -> Vec<f64> {
    (0..n).map(|k| PRIMES[32 + k % 32] + (k / 32) as f64 * 1000.0 + 0.5).collect()
}
const OPS: [char; 4] = ['+', '-', '*', '/'];
fn scalar(op: usize, x: f64, y: f64) -> f64 {
    match op {
        0 => x + y,
        1 => x - y,
        2 => x * y,
        _ => x / y,
    }
}

macro_rules! binop_forms {
    ($op:expr, $form:expr, $a:expr, $b:expr) => {
        match ($op, $form) {
            (0, 0) => $a.clone() + $b.clone(),
            (0, 1) => $a.clone() + &$b,
            (0, 2) => &$a + $b.clone(),
            (0, _) => &$a + &$b,
            (1, 0) => $a.clone() - $b.clone(),
            (1, 1) => $a.clone() - &$b,
            (1, 2) => &$a - $b.clone(),
            (1, _) => &$a - &$b,
            (2, 0) => $a.clone() * $b.clone(),
            (2, 1) => $a.clone() * &$b,
            (2, 2) => &$a * $b.clone(),
            (2, _) => &$a * &$b,
            (_, 0) => $a.clone() / $b.clone(),
            (_, 1) => $a.clone() / &$b,
            (_, 2) => &$a / $b.clone(),
            (_, _) => &$a / &$b,
        }
    };
}

/// NumPy rule: Some((rows, cols)) if compatible
fn bshape(r1: usize, c1: usize, r2: usize, c2: usize) -> Option<(usize, usize)> {
    let r = if r1 == r2 || r2 == 1 {
        r1
    } else if r1 == 1 {
        r2
    } else {
        return None;
    };
    let c = if c1 == c2 || c2 == 1 {
        c1
    } else if c1 == 1 {
        c2
    } else {
        return None;
    };
    Some((r, c))
}

fn model(op: usize, l: &[f64], r1: usize, c1: usize, r: &[f64], r2: usize, c2: usize) -> Option<(Vec<f64>, usize, usize)> {
    let (rr, cc) = bshape(r1, c1, r2, c2)?;
    let mut out = Vec::with_capacity(rr * cc);
    for i in 0..rr {
        for j in 0..cc {
            let li = if r1 == 1 { 0 } else { i };
            let lj = if c1 == 1 { 0 } else { j };
            let ri = if r2 == 1 { 0 } else { i };
            let rj = if c2 == 1 { 0 } else { j };
            out.push(scalar(op, l[li * c1 + lj], r[ri * c2 + rj]));
        }
    }
    Some((out, rr, cc))
}

fn bits_eq(a: &[f64], b: &[f64]) -> bool {
    a.len() == b.len() && a.iter().zip(b).all(|(x, y)| x.to_bits() == y.to_bits())
}

fn judge(run: &Run, kind: &str, op: usize, desc: &dyn Fn() -> String, res: Result<Matrix, String>, want: &Option<(Vec<f64>, usize, usize)>, leaf: &str) {
    run.ok();
    let site = format!("{}/{}", kind, OPS[op]);
    match (res, want) {
        (Ok(g), Some((w, rr, cc))) => {
            if g.nrows != *rr || g.ncols != *cc || g.data.len() != rr * cc {
                run.outcome(&(&site, leaf, "shape"));
                run.violate(&format!("{}/wrong-shape/{}", site, leaf), || format!("{}: got {}x{} ({} elements), want {}x{}", desc(), g.nrows, g.ncols, g.data.len(), rr, cc));
            } else if !bits_eq(&g.data, w) {
                run.outcome(&(&site, leaf, "values"));
                run.violate(&format!("{}/wrong-values/{}", site, leaf), || format!("{}: got {:?}, want {:?}", desc(), g.data.v, w));
            } else {
                run.outcome(&(&site, leaf, "ok"));
                run.regime(&format!("leaf:{}", leaf));
            }
        }
        (Ok(g), None) => {
            run.outcome(&(&site, "accepted-incompatible"));
            run.violate(&format!("{}/value-from-incompatible-shapes", site), || format!("{}: returned a {}x{} matrix {:?}", desc(), g.nrows, g.ncols, g.data.v));
        }
        (Err(p), Some(_)) => {
            run.outcome(&(&site, leaf, "panic"));
            run.violate(&format!("{}/panic-on-compatible/{}", site, leaf), || format!("{}: panicked: {}", desc(), p));
        }
        (Err(_), None) => {
            run.outcome(&(&site, "rejected"));
            run.regime("incompatible-rejected");
        }
    }
}

/// name of the structural case (which side is stretched along which axis)
fn leaf_name(r1: usize, c1: usize, r2: usize, c2: usize) -> String {
    let f = |a: usize, b: usize| if a == b { '=' } else if a == 1 { '<' } else if b == 1 { '>' } else { 'x' };
    format!("rows{}cols{}{}", f(r1, r2), f(c1, c2), if r1 * c1 == 1 || r2 * c2 == 1 { "/scalar" } else { "" })
}

pub fn run(run: &Run) {
    run.rule("every shape pair (r1,c1,r2,c2) × {+,-,*,/} × Matrix∘Matrix / Matrix∘Vector / Vector∘Matrix × 4 ownership forms; left entries distinct primes, right entries distinct other primes + 0.5; also with cancelling, constant and all-zero operands on every shape pair with dimensions 1..=4; oracle = NumPy rule, bitwise; non-trivial = shapes differ (stretch or rejection expected)");
    let d = run.tier.pick(6usize, 20usize);
    run.bound("shape pairs", format!("(r1,c1,r2,c2) in 1..={}^4{}", d, if run.thorough() { " plus {1,2,7,8,9,15,16,17,31,33,40}^4" } else { " plus {1,2,8,9,16,17,40}^4" }) + "; 9 shapes with more than 1024 elements (not a multiple of 8) × 6 equal / stretched partners");
    let mut pairs = Vec::new();
    for r1 in 1..=d {
        for c1 in 1..=d {
            for r2 in 1..=d {
                for c2 in 1..=d {
                    pairs.push((r1, c1, r2, c2));
                }
            }
        }
    }
    let big: &[usize] = if run.thorough() { &[1, 2, 7, 8, 9, 15, 16, 17, 31, 33, 40] } else { &[1, 2, 8, 9, 16, 17, 40] };
    for &r1 in big {
        for &c1 in big {
            for &r2 in big {
                for &c2 in big {
                    if r1.max(c1).max(r2).max(c2) > d {
                        pairs.push((r1, c1, r2, c2));
                    }
                }
            }
        }
    }
    // element counts above 1024 that are not a multiple of the unroll width (kernels may switch to a
    // blocked or parallel path for large operands), equal shapes and stretches
    for &(r, c) in &[(33usize, 33usize), (35, 30), (37, 39), (39, 39), (41, 25), (1, 1025), (1025, 1), (65, 63), (3, 343)] {
        pairs.push((r, c, r, c));
        pairs.push((r, c, 1, c));
        pairs.push((r, c, r, 1));
        pairs.push((1, c, r, c));
        pairs.push((r, 1, r, c));
        pairs.push((r, c, 1, 1));
    }
    pairs.par_iter().for_each(|&(r1, c1, r2, c2)| {
        let lv = left(r1 * c1);
        let rv = right(r2 * c2);
        let a = Matrix::new(lv.clone(), r1 as i32, c1 as i32);
        let b = Matrix::new(rv.clone(), r2 as i32, c2 as i32);
        let leaf = leaf_name(r1, c1, r2, c2);
        for op in 0..4 {
            let want = model(op, &lv, r1, c1, &rv, r2, c2);
            for form in 0..4 {
                run.case();
                run.tr();
                if (r1, c1) != (r2, c2) {
                    run.nontrivial(1);
                }
                let res = guard(|| binop_forms!(op, form, a, b));
                let desc = || format!("Matrix {}x{} {} Matrix {}x{} (form {})", r1, c1, OPS[op], r2, c2, form);
                judge(run, "MatMat", op, &desc, res, &want, &leaf);
            }
            // operands unchanged after the borrowed form
            if !bits_eq(&a.data, &lv) || !bits_eq(&b.data, &rv) || a.shape() != [r1, c1] || b.shape() != [r2, c2] {
                run.violate("MatMat/operand-modified", || format!("Matrix {}x{} {} Matrix {}x{}", r1, c1, OPS[op], r2, c2));
            }
        }
        if r1 == 2 && c1 == 3 {
            run.sample(|| format!("Matrix 2x3 (primes) op Matrix {}x{} (other primes): expect {:?}", r2, c2, bshape(r1, c1, r2, c2)));
        }
    });

    // Matrix ∘ Vector and Vector ∘ Matrix: the vector is a single row
    let vl = run.tier.pick(8usize, 20usize);
    let mut mv = Vec::new();
    for r in 1..=d {
        for c in 1..=d {
            for n in 1..=vl {
                mv.push((r, c, n));
            }
        }
    }
    // value patterns (the shape rule must not depend on the data): operands whose entries cancel to an exact
    // zero sum, constant operands, all-zero operands - every shape pair with dimensions 1..=4, compatible or not
    {
        let fills: Vec<(&str, fn(usize) -> Vec<f64>)> = vec![
            ("cancelling", |n| (0..n).map(|i| if n == 1 { 0.0 } else { i as f64 - (n as f64 - 1.0) / 2.0 }).collect()),
            ("cancelling-3", |n| (0..n).map(|i| [1.5, -0.5, -1.0][i % 3] * if i >= n - n % 3 { 0.0 } else { 1.0 }).collect()),
            ("constant", |n| vec![2.5; n]),
            ("repeats", |n| (0..n).map(|i| [2.0, 2.0, 5.0, 5.0, 7.0, 5.0, 7.0, 2.0][i % 8]).collect()),
            ("repeats-2", |n| (0..n).map(|i| [3.0, 3.0, 3.0, -1.0, 4.0, -1.0, 4.0, 3.0, 0.0, -0.0][i % 10]).collect()),
            ("ones", |n| vec![1.0; n]),
            ("zeros", |n| vec![0.0; n]),
        ];
        let mut vp = Vec::new();
        for r1 in 1..=4usize {
            for c1 in 1..=4usize {
                for r2 in 1..=4usize {
                    for c2 in 1..=4usize {
                        vp.push((r1, c1, r2, c2));
                    }
                }
            }
        }
        vp.extend([(4, 6, 2, 3), (4, 6, 4, 3), (3, 6, 4, 6), (4, 6, 1, 3), (6, 4, 3, 1), (33, 33, 1, 33), (33, 33, 33, 1)]);
        vp.par_iter().for_each(|&(r1, c1, r2, c2)| {
            for (fname, fill) in &fills {
                for side in 0..3 {
                    // side 2: both operands of tiny magnitude (distinct values that an absolute comparison at machine
                    // epsilon cannot tell apart), once per shape pair
                    if side == 2 && *fname != "zeros" {
                        continue;
                    }
                    let (lv, rv) = if side == 0 {
                        (left(r1 * c1), fill(r2 * c2))
                    } else if side == 1 {
                        (fill(r1 * c1), right(r2 * c2))
                    } else {
                        ((0..r1 * c1).map(|k| 1.3e-17 * (k + 1) as f64).collect(), (0..r2 * c2).map(|k| 2.9e-17 * (k + 2) as f64 - 1e-18 * ((k * k) % 5) as f64).collect())
                    };
                    let a = Matrix::new(lv.clone(), r1 as i32, c1 as i32);
                    let b = Matrix::new(rv.clone(), r2 as i32, c2 as i32);
                    let leaf = leaf_name(r1, c1, r2, c2);
                    for op in 0..4 {
                        let want = model(op, &lv, r1, c1, &rv, r2, c2);
                        run.case();
                        run.tr();
                        run.nontrivial(1);
                        let res = guard(|| binop_forms!(op, 3, a, b));
                        let desc = || format!("Matrix {}x{} {} Matrix {}x{} ({} {} operand)", r1, c1, OPS[op], r2, c2, if side == 2 { "tiny distinct values," } else { fname }, if side == 0 { "right" } else if side == 1 { "left" } else { "either" });
                        judge(run, "MatMat", op, &desc, res, &want, &leaf);
                        // the Vector forms of a single-row operand
                        if side == 0 && r2 == 1 {
                            let v = Vector::new(rv.clone());
                            let res = guard(|| binop_forms!(op, 3, a, v));
                            let desc = || format!("Matrix {}x{} {} Vector len {} ({} vector)", r1, c1, OPS[op], c2, fname);
                            judge(run, "MatVec", op, &desc, res, &want, &leaf);
                        }
                        if side == 1 && r1 == 1 {
                            let v = Vector::new(lv.clone());
                            let res = guard(|| binop_forms!(op, 3, v, b));
                            let desc = || format!("Vector len {} {} Matrix {}x{} ({} vector)", c1, OPS[op], r2, c2, fname);
                            judge(run, "VecMat", op, &desc, res, &want, &leaf);
                        }
                    }
                }
            }
            run.regime("value-patterns");
        });
    }
    run.require_regime("value-patterns");
    run.bound("vector lengths", format!("1..={} against all matrix shapes", vl));
    mv.par_iter().for_each(|&(r, c, n)| {
        let mvv = left(r * c);
        let vv = right(n);
        let m = Matrix::new(mvv.clone(), r as i32, c as i32);
        let v = Vector::new(vv.clone());
        for op in 0..4 {
            let want_mv = model(op, &mvv, r, c, &vv, 1, n);
            let want_vm = model(op, &vv, 1, n, &mvv, r, c);
            for form in 0..4 {
                run.cases(2);
                run.trs(2);
                run.nontrivial(2);
                let res = guard(|| binop_forms!(op, form, m, v));
                let desc = || format!("Matrix {}x{} {} Vector len {} (form {})", r, c, OPS[op], n, form);
                judge(run, "MatVec", op, &desc, res, &want_mv, &leaf_name(r, c, 1, n));
                let res = guard(|| binop_forms!(op, form, v, m));
                let desc = || format!("Vector len {} {} Matrix {}x{} (form {})", n, OPS[op], r, c, form);
                judge(run, "VecMat", op, &desc, res, &want_vm, &leaf_name(1, n, r, c));
            }
            if !bits_eq(&m.data, &mvv) || !bits_eq(&v, &vv) {
                run.violate("MatVec/operand-modified", || format!("Matrix {}x{} {} Vector {}", r, c, OPS[op], n));
            }
        }
        // the same operands after other public calls that use them (products, transposes, a rejected
        // operation): broadcasting is a function of its operands only
        let _ = guard(|| (&m).dot(&v));
        let _ = guard(|| (&m).t_dot(&v));
        let _ = guard(|| (&v).dot(&m));
        let _ = guard(|| m.t());
        for op in [0usize, 3] {
            let want_mv = model(op, &mvv, r, c, &vv, 1, n);
            let want_vm = model(op, &vv, 1, n, &mvv, r, c);
            run.cases(2);
            run.trs(6);
            let res = guard(|| binop_forms!(op, 3, m, v));
            let desc = || format!("Matrix {}x{} {} Vector len {} (after dot / t_dot / t on the same operands)", r, c, OPS[op], n);
            judge(run, "MatVec", op, &desc, res, &want_mv, &leaf_name(r, c, 1, n));
            let _ = guard(|| (&m).dot(&v));
            let res = guard(|| binop_forms!(op, 3, v, m));
            let desc = || format!("Vector len {} {} Matrix {}x{} (after dot on the same operands)", n, OPS[op], r, c);
            judge(run, "VecMat", op, &desc, res, &want_vm, &leaf_name(1, n, r, c));
            run.regime("after-other-calls");
        }
    });
    run.require_regime("after-other-calls");
    for l in ["rows=cols=", "rows=cols<", "rows=cols>", "rows<cols=", "rows>cols=", "rows<cols>", "rows>cols<", "rows<cols</scalar", "rows>cols>/scalar"] {
        run.require_regime(&format!("leaf:{}", l));
    }
    run.require_regime("incompatible-rejected");
    run.assume("entries are distinct primes (left) and distinct other primes + 0.5 (right): every entry is one IEEE operation, compared bitwise");
}
