//! C13 — autocorrelation, AR fitting and forecasting are consistent.
//! Engine E3: every short integer series × every lag (exact rational autocovariances), every
//! series of length 8..=10 over {-1,0,1} × model orders for the Yule–Walker fit, deterministic
//! longer series with offsets, every horizon 1..=50 (1000) for the forecast recursion.
use super::lin::*;
use crate::common::dd::DD;
use crate::common::enumerate::par_words;
use crate::common::rat::Rat;
use crate::common::refmath::U;
use crate::common::{guard, Run};
use compute::timeseries::{acf, acovf, difference, AR};
use rayon::prelude::*;

/// exact biased autocovariance of integer data at lag k (as a rational)
fn acov_exact(x: &[i128], k: usize) -> Rat {
    let n = x.len() as i128;
    let s: i128 = x.iter().sum();
    if k >= x.len() {
        return Rat::ZERO;
    }
    let mut t: i128 = 0;
    for i in k..x.len() {
        t += (n * x[i] - s) * (n * x[i - k] - s);
    }
    Rat::new(t, n * n * n)
}

fn acf_suite(run: &Run, xi: &[i128], shift: f64) {
    acf_lags(run, xi, shift, xi.len() as i32 + 1)
}

fn acf_lags(run: &Run, xi: &[i128], shift: f64, maxlag: i32) {
    let mut buf: Vec<f64> = Vec::new();
    acf_lags_in(run, xi, shift, maxlag, &mut buf)
}

/// the series is written into `buf` in place (same allocation when the length allows): the functions
/// are pure, a buffer they have seen before with other contents must not matter
fn acf_lags_in(run: &Run, xi: &[i128], shift: f64, maxlag: i32, buf: &mut Vec<f64>) {
    acf_lags_sc(run, xi, shift, 1.0, maxlag, buf)
}

/// data = integers · sc + shift with sc a power of two (exact): autocovariances scale by sc², autocorrelations
/// do not change
fn acf_lags_sc(run: &Run, xi: &[i128], shift: f64, sc: f64, maxlag: i32, buf: &mut Vec<f64>) {
    let n = xi.len();
    buf.clear();
    buf.extend(xi.iter().map(|&v| v as f64 * sc + shift));
    let x: &Vec<f64> = buf;
    let c0 = acov_exact(xi, 0);
    let var = c0.to_f64() * sc * sc;
    let range = (xi.iter().max().unwrap() - xi.iter().min().unwrap()) as f64 * sc;
    let mean = x.iter().sum::<f64>() / n as f64;
    let tol_cov = 16.0 * n as f64 * U * (var + mean.abs() * range + range * range) + 1e-300;
    let cls = if shift == 0.0 { "no-offset" } else if sc != 1.0 { "offset-small-scale" } else { "offset" };
    for k in -maxlag..=maxlag {
        run.case();
        run.trs(2);
        run.ok();
        let ck = acov_exact(xi, k.unsigned_abs() as usize).to_f64() * sc * sc;
        let desc = || format!("x={:?} lag {}", x, k);
        match guard(|| acovf(&x, k)) {
            Ok(g) => {
                if !((g - ck).abs() <= tol_cov) {
                    run.outcome(&("acovf", "bad"));
                    run.violate(&format!("acovf/{}", cls), || format!("{}: acovf = {:e}, definition {:e}", desc(), g, ck));
                } else {
                    run.outcome(&("acovf", "ok", k.signum()));
                }
            }
            Err(p) => run.violate("acovf/panic", || format!("{}: {}", desc(), p)),
        }
        if var > 0.0 {
            let rk = ck / var;
            let tol = tol_cov / var * 4.0 + 8.0 * U;
            match guard(|| (acf(&x, k), acf(&x, -k))) {
                Ok((g, gm)) => {
                    if !((g - rk).abs() <= tol) {
                        run.violate(&format!("acf/{}", cls), || format!("{}: acf = {:e}, definition {:e}", desc(), g, rk));
                    } else if g != gm {
                        run.violate("acf/not-even", || format!("{}: acf(k) = {:e}, acf(-k) = {:e}", desc(), g, gm));
                    } else if k == 0 && (g - 1.0).abs() > 4.0 * U {
                        run.violate("acf/lag0-not-1", || format!("{}: acf(0) = {:e}", desc(), g));
                    } else if g.abs() > 1.0 + 8.0 * n as f64 * U + tol {
                        run.violate("acf/exceeds-1", || format!("{}: |acf| = {:e}", desc(), g.abs()));
                    } else {
                        run.outcome(&("acf", "ok", k.signum(), (rk * 4.0).round() as i64));
                    }
                }
                Err(p) => run.violate("acf/panic", || format!("{}: {}", desc(), p)),
            }
        }
    }
}

/// reference forecasts: mean + recursion on the centred history with the given φ (coeffs are
/// stored reversed: coeffs[p-1] multiplies the most recent value); returns (forecast, error bound)
fn forecast_ref(coeffs: &[f64], intercept: f64, data: &[f64], h: usize) -> Vec<(f64, f64)> {
    let p = coeffs.len();
    let mut d: Vec<DD> = data[data.len() - p..].iter().map(|x| DD::new(*x) - DD::new(intercept)).collect();
    let mut err: Vec<f64> = data[data.len() - p..].iter().map(|x| 2.0 * U * (x.abs() + intercept.abs())).collect();
    let mut out = Vec::with_capacity(h);
    for _ in 0..h {
        let l = d.len();
        let mut s = DD::ZERO;
        let mut e = 0.0;
        let mut mag = 0.0;
        for j in 0..p {
            s = s + DD::new(coeffs[j]) * d[l - p + j];
            e += coeffs[j].abs() * err[l - p + j];
            mag += (coeffs[j] * d[l - p + j].f()).abs();
        }
        e += 8.0 * (p as f64 + 2.0) * U * mag;
        d.push(s);
        err.push(e);
        let f = (s + DD::new(intercept)).f();
        out.push((f, e + 4.0 * U * (f.abs() + intercept.abs()) + 1e-300));
    }
    out
}

thread_local! {
    /// a series the same AR object is fitted to before the fit that is judged (None: fresh object)
    static AR_PRIOR: std::cell::RefCell<Option<Vec<f64>>> = std::cell::RefCell::new(None);
}
fn with_ar_prior<T>(prior: Vec<f64>, f: impl FnOnce() -> T) -> T {
    AR_PRIOR.with(|c| *c.borrow_mut() = Some(prior));
    let r = f();
    AR_PRIOR.with(|c| *c.borrow_mut() = None);
    r
}

fn ar_suite(run: &Run, x: &[f64], p: usize, horizons: usize, tag: &str) {
    let n = x.len();
    // exact autocorrelations (data are integers plus an integer offset)
    let xi: Vec<i128> = x.iter().map(|v| *v as i128).collect();
    if xi.iter().zip(x).any(|(a, b)| *a as f64 != *b) {
        return;
    }
    let c0 = acov_exact(&xi, 0);
    if c0.is_zero() {
        return;
    }
    let r: Vec<f64> = (0..=p).map(|k| acov_exact(&xi, k).div(c0).to_f64()).collect();
    let mut t = vec![0.0; p * p];
    for i in 0..p {
        for j in 0..p {
            t[i * p + j] = r[(i as i64 - j as i64).unsigned_abs() as usize];
        }
    }
    let kappa = match cond_inf(&t, p) {
        Some(k) if k <= 1e6 => k,
        _ => {
            run.skip("Toeplitz system singular or cond > 1e6");
            return;
        }
    };
    run.case();
    run.nontrivial(1);
    run.tr();
    run.ok();
    let desc = || format!("{} AR({}) on x(len {})={:?}", tag, p, n, &x[..n.min(12)]);
    let prior = AR_PRIOR.with(|c| c.borrow().clone());
    // a re-used model object may have had another order before (the order is a public field, as in an order-selection
    // loop): orders p+2 and max(p-1,1) on alternate cases
    let p_before = if prior.is_some() && n % 2 == 0 { p + 2 } else if prior.is_some() { p.saturating_sub(1).max(1) } else { p };
    let mut ar = AR::new(p_before);
    if let Some(px) = &prior {
        // a re-used model object: the second fit must be as good as a first one
        let _ = guard(|| {
            ar.fit(px);
        });
        ar.p = p;
        run.regime("AR-refit");
    }
    if let Err(e) = guard(|| {
        ar.fit(x);
    }) {
        run.violate("AR.fit/panic", || format!("{}: {}", desc(), e));
        return;
    }
    if ar.coeffs.len() != p || ar.coeffs.iter().any(|c| !c.is_finite()) {
        run.violate("AR.fit/non-finite", || format!("{}: coeffs {:?}", desc(), ar.coeffs));
        return;
    }
    // intercept = mean
    let mean = (xi.iter().sum::<i128>() as f64) / n as f64;
    if (ar.intercept - mean).abs() > 4.0 * n as f64 * U * (mean.abs() + 1.0) {
        run.violate("AR.fit/intercept-not-mean", || format!("{}: intercept {:e}, mean {:e}", desc(), ar.intercept, mean));
    }
    // Yule–Walker residual with φ un-reversed
    let phi: Vec<f64> = ar.coeffs.iter().rev().cloned().collect();
    let shift_scale = 1.0 + mean.abs() * 4.0 / c0.to_f64().sqrt().max(1e-300);
    let mut worst = 0.0f64;
    for i in 0..p {
        let mut s = DD::new(-r[i + 1]);
        for j in 0..p {
            s = s + DD::new(t[i * p + j]) * DD::new(phi[j]);
        }
        worst = worst.max(s.f().abs());
    }
    let phin = phi.iter().fold(0.0f64, |a, b| a.max(b.abs()));
    let tol = 64.0 * (p * p) as f64 * U * kappa * (inf_norm(&t, p, p) * phin + 1.0) * 16.0 * n as f64 * shift_scale;
    if !(worst <= tol) {
        run.outcome(&("yw", "bad"));
        run.violate("AR.fit/yule-walker-residual", || format!("{}: |T(r)phi - r| = {:e} > {:e} (phi = {:?}, r = {:?})", desc(), worst, tol, phi, r));
    } else {
        run.outcome(&("yw", "ok", p));
        run.regime("yule-walker-ok");
    }
    // forecasts: mean + recursion on the centred history, with the fitted coefficients
    run.trs(2);
    let refs = forecast_ref(&ar.coeffs, ar.intercept, x, horizons);
    match guard(|| ar.predict(x, horizons)) {
        Ok(f) => {
            if f.len() != horizons {
                run.violate("AR.predict/length", || format!("{}: {} forecasts for horizon {}", desc(), f.len(), horizons));
            } else {
                for h in 0..horizons {
                    if !((f[h] - refs[h].0).abs() <= refs[h].1) {
                        let cls = if mean.abs() > 10.0 { "offset-series" } else { "centred-series" };
                        run.outcome(&("predict", "bad"));
                        run.violate(&format!("AR.predict/recursion/{}", cls), || format!("{}: forecast h={} is {:e}, mean + recursion on the centred history gives {:e} (mean {:e}, coeffs {:?})", desc(), h + 1, f[h], refs[h].0, ar.intercept, ar.coeffs));
                        break;
                    }
                }
                run.outcome(&("predict", "checked", horizons.min(60)));
                // convergence to the mean for a stationary fit
                if horizons >= 1000 {
                    let sd = c0.to_f64().sqrt();
                    let (last_ref, _) = refs[horizons - 1];
                    if (last_ref - ar.intercept).abs() <= 1e-7 * sd {
                        run.regime("forecast-converged");
                        if (f[horizons - 1] - ar.intercept).abs() > 1e-6 * sd {
                            run.violate("AR.predict/no-convergence-to-mean", || format!("{}: forecast h={} = {:e}, mean {:e}", desc(), horizons, f[horizons - 1], ar.intercept));
                        }
                    }
                }
            }
        }
        Err(e) => run.violate("AR.predict/panic", || format!("{}: {}", desc(), e)),
    }
    // forecasts from a history that is not the fitted series (its last p values, a recent window, the
    // series continued by new observations): the model's mean and coefficients apply, the history is
    // centred on the model's mean
    if n > p + 8 {
        let mut cont: Vec<f64> = x.to_vec();
        cont.extend([x[n - 1] + 1.0, x[n - 2] - 2.0, x[0] + 3.0]);
        let hists: Vec<(&str, Vec<f64>)> = vec![("last p values", x[n - p..].to_vec()), ("last p+7 values", x[n - p - 7..].to_vec()), ("first half", x[..n / 2].to_vec()), ("series continued by 3 observations", cont)];
        for (hname, hx) in hists {
            if hx.len() < p {
                continue;
            }
            run.tr();
            let hh = horizons.min(25);
            let refs = forecast_ref(&ar.coeffs, ar.intercept, &hx, hh);
            match guard(|| ar.predict(&hx, hh)) {
                Ok(f) => {
                    if f.len() != hh || (0..hh).any(|h| !((f[h] - refs[h].0).abs() <= refs[h].1)) {
                        run.violate("AR.predict/recursion/other-history", || format!("{}: forecasts from the {} = {:?}, mean + recursion on that history centred on the fitted mean gives {:?}", desc(), hname, &f[..f.len().min(4)], refs.iter().take(4).map(|r| r.0).collect::<Vec<_>>()));
                        break;
                    } else {
                        run.regime("predict-from-other-history");
                    }
                }
                Err(e) => {
                    run.violate("AR.predict/panic", || format!("{} ({}): {}", desc(), hname, e));
                    break;
                }
            }
        }
    }
    match guard(|| ar.predict_one(x)) {
        Ok(g) => {
            if !((g - refs[0].0).abs() <= refs[0].1) {
                let cls = if mean.abs() > 10.0 { "offset-series" } else { "centred-series" };
                run.violate(&format!("AR.predict_one/{}", cls), || format!("{}: predict_one = {:e}, one-step forecast {:e} (mean {:e})", desc(), g, refs[0].0, ar.intercept));
            }
        }
        Err(e) => run.violate("AR.predict_one/panic", || format!("{}: {}", desc(), e)),
    }
}

fn shift_equivariance(run: &Run, x: &[f64], p: usize, c: f64) {
    let xs: Vec<f64> = x.iter().map(|v| v + c).collect();
    let (mut a, mut b) = (AR::new(p), AR::new(p));
    let r = guard(|| {
        a.fit(x);
        b.fit(&xs);
        (a.predict(x, 20), b.predict(&xs, 20))
    });
    run.case();
    run.trs(4);
    run.ok();
    if let Ok((f0, f1)) = r {
        if f0.iter().chain(f1.iter()).all(|v| v.is_finite()) {
            let spread = x.iter().fold(0.0f64, |m, v| m.max(v.abs())) + 1.0;
            let tol = 1e-4 * spread + 64.0 * U * c.abs();
            for h in 0..20 {
                if (f1[h] - (f0[h] + c)).abs() > tol {
                    run.outcome(&("shift", "bad"));
                    run.violate("AR.predict/not-shift-equivariant", || format!("AR({}) on x(len {})={:?}: forecast h={} is {:e}; after adding {} to the series it is {:e} (expected {:e})", p, x.len(), &x[..x.len().min(10)], h + 1, f0[h], c, f1[h], f0[h] + c));
                    return;
                }
            }
            run.outcome(&("shift", "ok"));
            run.regime("shift-equivariant");
        }
    }
}

/// deterministic stationary series: AR recursion driven by a fixed ±1 pattern, rounded to integers/8
fn synth(len: usize, a: &[f64], seed: u64) -> Vec<f64> {
    let mut x = vec![0.0f64; len + 50];
    let mut s = seed;
    for t in a.len()..x.len() {
        s = s.wrapping_mul(6364136223846793005).wrapping_add(1442695040888963407);
        let e = if (s >> 33) & 1 == 1 { 1.0 } else { -1.0 } * (1.0 + ((s >> 40) & 3) as f64);
        let mut v = e;
        for (j, aj) in a.iter().enumerate() {
            v += aj * x[t - 1 - j];
        }
        x[t] = v;
    }
    x[50..].iter().map(|v| (v * 4.0).round()).collect()
}

pub fn run(run: &Run) {
    run.rule("acovf/acf: every integer series of length 3..=7 over {-1,0,1,2} × every lag -(n+1)..=(n+1) × offsets {0,1e3,1e6} against exact rational autocovariances; difference∘cumsum on all of them; acovf / acf also on a buffer edited in place between evaluations, AR fits also on a re-used model object; AR orders 1..=3 on every series of length 8..=10 over {-1,0,1} with Toeplitz cond ≤ 1e6 and orders 1..=9 (12) on deterministic AR-driven series of length 50..5000 with offsets; forecasts for every horizon 1..=50 (1000 on the long series); non-trivial = non-constant series");
    let letters = [-1i128, 0, 1, 2];
    for n in 3..=7usize {
        par_words(4, n, |w| {
            let xi: Vec<i128> = w.iter().map(|&i| letters[i]).collect();
            for shift in [0.0, 1e3, 1e6] {
                acf_suite(run, &xi, shift);
            }
            if xi.iter().any(|v| *v != xi[0]) {
                run.nontrivial(1);
            }
            // differencing inverts cumulative summation
            let x: Vec<f64> = xi.iter().map(|v| *v as f64).collect();
            let mut cs = vec![5.0];
            for v in &x {
                cs.push(cs.last().unwrap() + v);
            }
            run.case();
            run.tr();
            run.ok();
            match guard(|| difference(cs.clone())) {
                Ok(d) if d == x => run.outcome(&("difference", "ok")),
                Ok(d) => run.violate("difference/not-inverse-of-cumsum", || format!("cumsum {:?}: difference = {:?}, want {:?}", cs, d, x)),
                Err(p) => run.violate("difference/panic", || format!("{:?}: {}", cs, p)),
            }
        });
    }
    // longer integer series, lags -50..=50 (the property's lag range), with offsets
    for &len in &[60usize, 200, 1000, 1025, 2049, 4100] {
        for seed in 0..3u64 {
            let xi: Vec<i128> = synth(len, &[0.6, -0.3], seed + 3).iter().map(|v| *v as i128).collect();
            for shift in [0.0, 1e3, 1e6] {
                acf_lags(run, &xi, shift, 50);
            }
        }
    }
    // a large level with a small spread (level/sd from 1e3 to 1e8): integers scaled by 2^-k plus an offset
    for &len in &[60usize, 500] {
        let xi: Vec<i128> = synth(len, &[0.6, -0.3], 5).iter().map(|v| *v as i128).collect();
        let mut buf: Vec<f64> = Vec::new();
        for &(shift, k) in &[(1e6, 8), (1e6, 4), (1e6, 12), (1e6, 16), (1e3, 8), (1e3, 14), (1e3, 22), (65536.0, 10), (1e8, 2), (1e8, 10)] {
            let sc = 2f64.powi(-k);
            // representable exactly: |v|·2^-k + shift needs at most 53 bits
            if xi.iter().all(|v| ((*v as f64) * sc + shift - shift) == (*v as f64) * sc) {
                acf_lags_sc(run, &xi, shift, sc, 30, &mut buf);
                run.regime("acf-offset-small-scale");
            }
        }
    }
    // the same buffer, edited in place between evaluations: same address, length, first and last
    // element, different interior (and different ends, and a different length)
    for &len in &[12usize, 60, 300] {
        for seed in 0..2u64 {
            let a: Vec<i128> = synth(len, &[0.6, -0.3], seed + 11).iter().map(|v| *v as i128).collect();
            let mut b = a.clone();
            for v in b[len / 3..2 * len / 3].iter_mut() {
                *v += 5;
            }
            let mut c = b.clone();
            c[0] -= 3;
            c[len - 1] += 2;
            let d: Vec<i128> = c[..len - 2].to_vec();
            let mut buf: Vec<f64> = Vec::with_capacity(len);
            for shift in [0.0, 1e3] {
                for series in [&a, &b, &c, &d, &a] {
                    acf_lags_in(run, series, shift, 50.min(len as i32 + 1), &mut buf);
                    run.regime("acf-on-reused-buffer");
                }
            }
        }
    }
    run.sample(|| "x=[1001,1000,1002,999] (letters shifted by 1e3), lags -5..=5: acovf, acf vs exact rationals; evenness; acf(0)=1".to_string());
    // AR on every short series
    let pmax_small = 3usize;
    for n in 8..=run.tier.pick(9usize, 11usize) {
        par_words(3, n, |w| {
            let x: Vec<f64> = w.iter().map(|&i| [-1.0, 0.0, 1.0][i]).collect();
            for p in 1..=pmax_small {
                ar_suite(run, &x, p, 50, "short");
            }
            if w[0] == 1 && w[1] == 2 {
                // a subset also with large offsets and the shift-equivariance clause
                for c in [1e3, 1e6] {
                    let xs: Vec<f64> = x.iter().map(|v| v + c).collect();
                    ar_suite(run, &xs, 2, 50, "short+offset");
                }
                shift_equivariance(run, &x, 2, 1e3);
            }
        });
    }
    // longer deterministic series
    let coefsets: Vec<Vec<f64>> = vec![vec![0.5], vec![-0.7], vec![0.6, -0.3], vec![0.2, 0.1, -0.4], vec![0.5, -0.25, 0.125, -0.0625], vec![0.3, 0.0, 0.0, 0.0, 0.2, -0.3], vec![0.9], vec![1.2, -0.5], vec![0.995], vec![0.6, 0.39]];
    let lens: Vec<usize> = if run.thorough() { vec![50, 100, 200, 1000, 1025, 2049, 5000] } else { vec![50, 200, 1000, 1025, 3000] };
    let pmax = run.tier.pick(9usize, 12usize); // orders ≥ 8 reach the unrolled part of the dot kernel
    let mut jobs = Vec::new();
    for (ci, a) in coefsets.iter().enumerate() {
        for &len in &lens {
            for seed in 0..run.tier.pick(2u64, 12u64) {
                for &off in &[0.0, 1e3, 1e6] {
                    for p in 1..=pmax {
                        jobs.push((ci, a.clone(), len, seed, off, p));
                    }
                }
            }
        }
    }
    jobs.par_iter().for_each(|(ci, a, len, seed, off, p)| {
        let x: Vec<f64> = synth(*len, a, *seed + 17 * *ci as u64).iter().map(|v| v + off).collect();
        ar_suite(run, &x, *p, 1000, "synthetic");
        if *seed == 0 && (*p <= 2 || *p == 8) {
            // the same AR object fitted before to another series (another length, another scale)
            let other: Vec<f64> = synth(*len / 2 + 7, &[0.3, 0.4], 99).iter().map(|v| 3.0 * v + 11.0).collect();
            with_ar_prior(other, || ar_suite(run, &x, *p, 50, "synthetic, re-used AR object"));
        }
        if *p <= 3 && *off == 0.0 {
            shift_equivariance(run, &x, *p, 1e6);
            shift_equivariance(run, &x, *p, 1e3);
        }
    });
    run.bound("AR", format!("orders 1..=3 on all series of length 8..={} over 3 letters; orders 1..={} on {} synthetic series; horizons 1..=50 / 1..=1000", run.tier.pick(9, 11), pmax, jobs.len()));
    for r in ["yule-walker-ok", "forecast-converged", "shift-equivariant"] {
        run.require_regime(r);
    }
    run.assume("series are integer-valued (plus integer offsets) so that autocovariances are exact rationals; tolerance 16·n·u·(var + |mean|·range) for autocovariances");
    run.assume("forecast oracle = mean + recursion on the centred history using the *fitted* coefficients, with a running rounding-error bound");
    run.assume("histories shorter than the model order are not judged");
}
