//! C14 — polynomial regression returns the least-squares polynomial.
//! Engine E3: degrees 0..=6 × abscissa families (integer, quarter-refined, Chebyshev, clustered)
//! × every response over {-1,0,1}^n for n ≤ 8 and polynomial-plus-pattern responses at several
//! scales; oracle: normal-equation residual in double-double with a conditioning-aware bound,
//! exact reproduction of polynomial data, exact Horner values for prediction.
use super::lin::*;
use crate::common::dd::DD;
use crate::common::enumerate::par_words;
use crate::common::refmath::U;
use crate::common::{guard, Run};
use compute::predict::PolynomialRegressor;
use rayon::prelude::*;

struct Design {
    g: Vec<f64>,
    kappa: f64,
    gnorm: f64,
}
fn design(x: &[f64], d: usize) -> Option<Design> {
    let k = d + 1;
    let mut g = vec![DD::ZERO; k * k];
    for &xv in x {
        let pw: Vec<DD> = (0..k).map(|p| DD::new(xv).powi(p as u32)).collect();
        for i in 0..k {
            for j in 0..k {
                g[i * k + j] = g[i * k + j] + pw[i] * pw[j];
            }
        }
    }
    let gf: Vec<f64> = g.iter().map(|v| v.f()).collect();
    let kappa = cond_inf(&gf, k)?;
    Some(Design { gnorm: inf_norm(&gf, k, k), g: gf, kappa })
}

/// gradient Vᵀ(y − V c) in double-double
fn gradient(x: &[f64], y: &[f64], c: &[f64]) -> Vec<f64> {
    let k = c.len();
    let mut g = vec![DD::ZERO; k];
    for (xv, yv) in x.iter().zip(y) {
        let mut r = DD::new(*yv);
        let mut pw = DD::ONE;
        let mut pws = Vec::with_capacity(k);
        for ck in c.iter() {
            r = r - DD::new(*ck) * pw;
            pws.push(pw);
            pw = pw * DD::new(*xv);
        }
        for i in 0..k {
            g[i] = g[i] + pws[i] * r;
        }
    }
    g.iter().map(|v| v.f()).collect()
}

fn fit_suite(run: &Run, x: &[f64], y: &[f64], d: usize, des: &Design, truth: Option<&[f64]>, tag: &str) {
    fit_suite_h(run, x, y, d, des, truth, tag, None)
}

/// `prior`: data the same regressor object was fitted to before (the property speaks about every
/// fit, not only the first one of an object)
fn fit_suite_h(run: &Run, x: &[f64], y: &[f64], d: usize, des: &Design, truth: Option<&[f64]>, tag: &str, prior: Option<(&[f64], &[f64])>) {
    run.case();
    run.tr();
    run.ok();
    let n = x.len();
    let desc = || format!("{} degree {} on {} points x={:?} y={:?}", tag, d, n, &x[..n.min(9)], &y[..n.min(9)]);
    let mut pr = PolynomialRegressor::new(d);
    if let Some((px, py)) = prior {
        if guard(|| {
            pr.fit(px, py);
        })
        .is_err()
        {
            run.skip("prior fit panicked");
            return;
        }
        run.regime("refit");
    }
    if let Err(p) = guard(|| {
        pr.fit(x, y);
    }) {
        run.violate("fit/panic", || format!("{}: {}", desc(), p));
        return;
    }
    let c = pr.coef.clone();
    if c.len() != d + 1 || c.iter().any(|v| !v.is_finite()) {
        run.violate("fit/non-finite-or-wrong-length", || format!("{}: coef = {:?}", desc(), c));
        return;
    }
    let cn = c.iter().fold(0.0f64, |a, b| a.max(b.abs()));
    let yn = y.iter().fold(0.0f64, |a, b| a.max(b.abs()));
    let xpow = x.iter().fold(0.0f64, |a, b| a.max(b.abs())).max(1.0).powi(d as i32);
    let k = (d + 1) as f64;
    // the normal-equation method is granted its own conditioning, nothing more
    // 64k² for the solve and the products, 2n for accumulating XᵀX and Xᵀy over n rows (γ_n)
    let tol = (64.0 * k * k + 2.0 * n as f64) * U * des.kappa * (des.gnorm * cn + n as f64 * xpow * yn) + 1e-300;
    let g = gradient(x, y, &c);
    let worst = g.iter().fold(0.0f64, |a, b| a.max(b.abs()));
    if !(worst <= tol) {
        run.outcome(&("fit", "bad"));
        run.violate("fit/normal-equations-residual", || format!("{}: coef = {:?}, |V^T(y - Vc)| = {:e} > {:e} (cond(V^T V) = {:e})", desc(), c, worst, tol, des.kappa));
    } else {
        run.outcome(&("fit", "ok", d, n.min(12)));
        run.regime(if n == d + 1 { "interpolation" } else { "overdetermined" });
    }
    if let Some(t) = truth {
        let tn = t.iter().fold(0.0f64, |a, b| a.max(b.abs())).max(1e-300);
        let tolc = (64.0 * k * k + 2.0 * n as f64) * U * des.kappa * tn * k + 1e-300 * tn;
        for i in 0..=d {
            if !((c[i] - t[i]).abs() <= tolc) {
                run.violate("fit/polynomial-data-not-reproduced", || format!("{}: coef = {:?}, generating polynomial {:?} (cond {:e})", desc(), c, t, des.kappa));
                break;
            }
        }
    }
}

fn abscissae(run: &Run) -> Vec<(String, Vec<f64>)> {
    let mut v: Vec<(String, Vec<f64>)> = Vec::new();
    v.push(("integers".into(), vec![-2.0, -1.0, 0.0, 1.0, 2.0]));
    v.push(("halves".into(), (0..9).map(|i| -2.0 + 0.5 * i as f64).collect()));
    v.push(("quarters".into(), (0..17).map(|i| -2.0 + 0.25 * i as f64).collect()));
    for m in [5usize, 7, 9, 12, 17, 33] {
        // Chebyshev points on [-2,2] rounded to multiples of 2^-10
        let pts: Vec<f64> = (0..m).map(|i| (2.0 * ((2 * i + 1) as f64 * std::f64::consts::PI / (2 * m) as f64).cos() * 1024.0).round() / 1024.0).collect();
        v.push((format!("chebyshev{}", m), pts));
    }
    v.push(("clustered".into(), vec![-2.0, -1.9375, -1.875, -1.75, 0.0, 0.0625, 1.5, 1.5625, 1.625, 2.0]));
    v.push(("one-sided".into(), (0..12).map(|i| 0.5 + 0.125 * i as f64).collect()));
    // asymmetric designs whose low odd power sums vanish (sum x = sum x^3 = 0, sum x^5 != 0) and relatives
    v.push(("odd-sums-vanish".into(), vec![-2.0, -1.0, -1.0, -1.0, -1.0, 0.0, 0.5, 0.5, 0.5, 0.5, 0.5, 1.5, 2.0]));
    v.push(("odd-sums-vanish-mirrored".into(), vec![2.0, 1.0, 1.0, 1.0, 1.0, 0.0, -0.5, -0.5, -0.5, -0.5, -0.5, -1.5, -2.0]));
    v.push(("first-moment-vanishes".into(), vec![-2.0, -0.5, -0.5, 0.25, 0.75, 2.0, -1.0, 1.0]));
    v.push(("symmetric-plus-one".into(), vec![-2.0, -1.5, -1.0, -0.5, 0.5, 1.0, 1.5, 2.0, 0.25]));
    if run.thorough() {
        // 3000 pseudo-random dyadic point sets (multiples of 2^-8 in [-2,2]) of 7..60 points
        let mut st = 0x1234_5678_9abc_def1u64;
        for k in 0..3000usize {
            let m = 7 + (k * 11) % 54;
            let mut pts: Vec<f64> = Vec::with_capacity(m);
            while pts.len() < m {
                st = st.wrapping_mul(6364136223846793005).wrapping_add(1442695040888963407);
                let vq = ((st >> 40) % 1025) as f64 / 256.0 - 2.0;
                pts.push(vq);
            }
            v.push((format!("random-dyadic{}", k), pts));
        }
    }
    let big = run.tier.pick(200usize, 2000usize);
    for m in [40usize, big, 1000, 1024, 1025, 1500, 2000, 2049] {
        v.push((format!("uniform{}", m), (0..m).map(|i| ((-2.0 + 4.0 * i as f64 / (m - 1) as f64) * 256.0).round() / 256.0).collect()));
    }
    v
}

pub fn run(run: &Run) {
    run.rule("degrees 0..=6 × {integer, half, quarter grids; Chebyshev points (5..33 nodes) rounded to 2^-10; clustered; one-sided; uniform 40, 200, 1000, 1024, 1025, 1500, 2000, 2049 points} × every response over {-1,0,1}^n for the point sets with n ≤ 8 (all sub-selections of the integer/half grids) and polynomial + fixed noise patterns at noise scales {0,1e-3,1,1e3} and whole-response scales {1e-19,1e-16,1e-6,1,1e12}; every multiset over {-2..2} with multiplicities {0,1,2,9} (repeated abscissae, vanishing power sums); each also on a regressor object that was fitted before to responses of scale 1e12 or to another point set; predict on every coefficient vector over {-2..2}^(d+1), d ≤ 6; non-trivial = degree ≥ 1");
    let sets = abscissae(run);
    // 1. every response over {-1,0,1}^n on small abscissa sets
    let small_sets: Vec<Vec<f64>> = vec![
        vec![-2.0, -1.0, 0.0, 1.0, 2.0],
        vec![-2.0, -1.0, 0.0, 0.5, 1.0, 2.0],
        vec![-2.0, -1.5, -1.0, 0.0, 0.25, 1.0, 2.0],
        vec![-2.0, -1.5, -1.0, -0.5, 0.0, 0.5, 1.0, 2.0],
        vec![-1.0, 0.0, 1.0],
        vec![0.5, 1.0],
    ];
    let mut small_sets = small_sets;
    if run.thorough() {
        small_sets.push(vec![-2.0, -1.75, -1.0, -0.5, 0.0, 0.25, 1.0, 1.5, 2.0]);
        small_sets.push(vec![-2.0, -1.0, -0.5, 0.0, 0.125, 0.5, 1.0, 1.25, 1.5, 2.0]);
        small_sets.push(vec![0.25, 0.5, 0.75, 1.0, 1.25, 1.5, 1.75, 2.0]);
        small_sets.push(vec![-2.0, -2.0, -1.0, 0.0, 0.0, 1.0, 2.0, 2.0]);
        small_sets.push(vec![-2.0, -1.5, -1.25, -1.0, -0.5, 0.0, 0.5, 0.75, 1.0, 1.5, 2.0]);
        small_sets.push(vec![-2.0, -1.75, -1.5, -1.0, -0.75, -0.25, 0.0, 0.5, 1.0, 1.25, 1.75, 2.0]);
    }
    for x in &small_sets {
        let n = x.len();
        for d in 0..n.min(7) {
            let des = match design(x, d) {
                Some(des) if des.kappa <= 1e9 => des,
                _ => {
                    run.skip("normal equations singular or cond > 1e9");
                    continue;
                }
            };
            par_words(3, n, |w| {
                let y: Vec<f64> = w.iter().map(|&i| [-1.0, 0.0, 1.0][i]).collect();
                fit_suite(run, x, &y, d, &des, None, "all-responses");
                if d >= 1 {
                    run.nontrivial(1);
                }
            });
        }
    }
    // the observations in another order (rotations, stride permutations, every permutation of five points): least
    // squares does not depend on the order in which the pairs are listed
    {
        let mut orders: Vec<(Vec<f64>, Vec<usize>)> = Vec::new();
        for x in small_sets.iter().take(4) {
            let n = x.len();
            for r in 1..n {
                orders.push((x.clone(), (0..n).map(|i| (i + r) % n).collect()));
            }
            for st in 2..n {
                if (1..=n).all(|g| g == 1 || n % g != 0 || st % g != 0) {
                    orders.push((x.clone(), (0..n).map(|i| (i * st + 1) % n).collect()));
                }
            }
        }
        crate::common::enumerate::permutations(5, |p| orders.push((small_sets[0].clone(), p.to_vec())));
        let big: Vec<f64> = (0..101).map(|i| -2.0 + 0.04 * i as f64).collect();
        orders.push((big.clone(), (0..101).map(|i| (i * 37) % 101).collect()));
        orders.push((big.clone(), (0..101).map(|i| (i + 50) % 101).collect()));
        orders.par_iter().for_each(|(x, perm)| {
            let n = x.len();
            let xp: Vec<f64> = perm.iter().map(|&i| x[i]).collect();
            for d in 0..n.min(5) {
                let des = match design(&xp, d) {
                    Some(des) if des.kappa <= 1e9 => des,
                    _ => continue,
                };
                for pat in 0..3usize {
                    let y: Vec<f64> = x.iter().enumerate().map(|(i, xv)| match pat { 0 => 1.0 - 2.0 * xv + 0.5 * xv * xv, 1 => [-1.0, 0.0, 1.0][(i * 7 + 1) % 3], _ => 0.3 - 1.1 * xv + 0.7 * xv * xv + 0.25 * xv * xv * xv + 0.1 * (((i * 13) % 7) as f64 - 3.0) }).collect();
                    let yp: Vec<f64> = perm.iter().map(|&i| y[i]).collect();
                    fit_suite(run, &xp, &yp, d, &des, None, "reordered observations");
                    run.nontrivial(1);
                }
            }
        });
    }
    run.sample(|| "all-responses: x=[-2,-1,0,1,2], y over {-1,0,1}^5, degrees 0..4: V^T(y - V c) = 0 within the conditioning bound".to_string());
    // 2. polynomial + noise patterns on every abscissa family
    let jobs: Vec<(usize, usize)> = (0..sets.len()).flat_map(|s| (0..=6).map(move |d| (s, d))).collect();
    jobs.par_iter().for_each(|&(si, d)| {
        let (name, x) = &sets[si];
        let n = x.len();
        if n < d + 1 {
            return;
        }
        let des = match design(x, d) {
            Some(des) if des.kappa <= 1e9 => des,
            _ => {
                run.skip("normal equations singular or cond > 1e9");
                return;
            }
        };
        for variant in 0..run.tier.pick(4usize, 7usize) {
            let truth: Vec<f64> = (0..=d).map(|k| [1.0, -2.0, 0.5, 3.0, -1.0, 0.25, 2.0][(k + variant) % 7]).collect();
            for &scale in &[0.0, 1e-3, 1.0, 1e3] {
                let y: Vec<f64> = x
                    .iter()
                    .enumerate()
                    .map(|(i, xv)| {
                        let mut p = 0.0;
                        for k in (0..=d).rev() {
                            p = p * xv + truth[k];
                        }
                        p + scale * ([0.5, -1.0, 0.25, 1.0, -0.75, 0.0, -0.5][(i * 3 + variant) % 7])
                    })
                    .collect();
                fit_suite(run, x, &y, d, &des, if scale == 0.0 { Some(&truth) } else { None }, name);
                run.nontrivial(1);
                // the same object fitted before to other data (huge responses; a different point set)
                if variant < 2 && (scale == 0.0 || scale == 1.0) {
                    let yb: Vec<f64> = y.iter().enumerate().map(|(i, v)| (v + (i % 3) as f64) * 1e12).collect();
                    fit_suite_h(run, x, &y, d, &des, if scale == 0.0 { Some(&truth) } else { None }, &format!("{} (refit after responses of scale 1e12)", name), Some((x, &yb)));
                    let xo: Vec<f64> = (0..(d + 3)).map(|i| -1.0 + 0.25 * i as f64).collect();
                    let yo: Vec<f64> = xo.iter().map(|v| 1e6 * (1.0 + v * v)).collect();
                    fit_suite_h(run, x, &y, d, &des, if scale == 0.0 { Some(&truth) } else { None }, &format!("{} (refit after another data set)", name), Some((&xo, &yo)));
                }
                // least squares is homogeneous in y: the same data at microscopic and huge response scales
                if variant == 0 && (scale == 0.0 || scale == 1.0) {
                    for ys in [1e-19, 1e-16, 1e-6, 1e12] {
                        let y2: Vec<f64> = y.iter().map(|v| v * ys).collect();
                        let t2: Vec<f64> = truth.iter().map(|v| v * ys).collect();
                        fit_suite(run, x, &y2, d, &des, if scale == 0.0 { Some(&t2) } else { None }, name);
                    }
                }
            }
        }
        // exact-integer case: interpolation through d+1 points
        let xi: Vec<f64> = x.iter().cloned().take(d + 1).collect();
        if let Some(di) = design(&xi, d) {
            if di.kappa <= 1e9 {
                let yi: Vec<f64> = xi.iter().enumerate().map(|(i, _)| ((i * 5) % 7) as f64 - 3.0).collect();
                fit_suite(run, &xi, &yi, d, &di, None, "interpolation");
            }
        }
    });
    // 2b. repeated abscissae: every multiset over {-2,-1,0,1,2} with multiplicities from {0,1,2,9}
    // (power sums of the abscissae vanish exactly for many asymmetric ones, so the Gram matrix has
    // structural zeros without being checkerboard)
    let mult: Vec<usize> = if run.thorough() { vec![0, 1, 2, 3, 9, 40] } else { vec![0, 1, 2, 9] };
    par_words(mult.len(), 5, |w| {
        let mut x: Vec<f64> = Vec::new();
        for (k, &wi) in w.iter().enumerate() {
            for _ in 0..mult[wi] {
                x.push(k as f64 - 2.0);
            }
        }
        let distinct = w.iter().filter(|&&wi| wi != 0).count();
        if distinct < 2 {
            return;
        }
        for d in 1..distinct {
            let des = match design(&x, d) {
                Some(des) if des.kappa <= 1e9 => des,
                _ => {
                    run.skip("normal equations singular or cond > 1e9");
                    continue;
                }
            };
            let truth: Vec<f64> = (0..=d).map(|k| [1.0, -2.0, 0.5, 3.0, -1.0][k % 5]).collect();
            for &scale in &[0.0, 1.0] {
                let y: Vec<f64> = x.iter().enumerate().map(|(i, xv)| {
                    let mut pv = 0.0;
                    for k in (0..=d).rev() {
                        pv = pv * xv + truth[k];
                    }
                    pv + scale * ([0.5, -1.0, 0.25, 1.0, -0.75, 0.0, -0.5][(i * 3) % 7])
                }).collect();
                fit_suite(run, &x, &y, d, &des, if scale == 0.0 { Some(&truth) } else { None }, "repeated-abscissae");
                run.nontrivial(1);
            }
        }
    });
    // 3a. predict on long, exactly uniform grids with non-dyadic coefficients: the value of the polynomial at every point
    for d in 0..=6usize {
        for &(npts, lo, step) in &[(100usize, -2.0, 0.04), (1025, -2.0, 1.0 / 256.0), (4097, 0.0, 1.0 / 1024.0), (2000, -5.0, 0.005), (33, -1.0, 0.0625)] {
            let xs: Vec<f64> = (0..npts).map(|i| lo + i as f64 * step).collect();
            let c: Vec<f64> = (0..=d).map(|k| [0.3, -1.1, 0.7, 0.25, -0.123456789, 1.0 / 3.0, -0.05][k] * if k % 2 == 0 { 1.0 } else { 1.7 }).collect();
            run.case();
            run.tr();
            run.ok();
            run.nontrivial(1);
            let mut pr = PolynomialRegressor::new(d);
            pr.coef = c.clone();
            match guard(|| pr.predict(&xs)) {
                Ok(v) if v.len() == npts => {
                    let mut worst = (0.0f64, 0usize, 0.0, 0.0);
                    for (i, x) in xs.iter().enumerate() {
                        let mut acc = DD::ZERO;
                        let mut mag = 0.0f64;
                        for k in (0..=d).rev() {
                            acc = acc * DD::new(*x) + DD::new(c[k]);
                            mag = mag * x.abs() + c[k].abs();
                        }
                        let err = (v[i] - acc.f()).abs() / (mag.max(1e-300));
                        if err > worst.0 {
                            worst = (err, i, v[i], acc.f());
                        }
                    }
                    if worst.0 > 64.0 * (d as f64 + 2.0) * U {
                        run.violate("predict/not-the-polynomial/long-uniform-grid", || format!("degree {} coefficients {:?} on {} points from {} step {}: point #{} gives {:e}, the polynomial is {:e} (relative to sum |c_k||x|^k: {:e})", d, c, npts, lo, step, worst.1, worst.2, worst.3, worst.0));
                    } else {
                        run.regime("predict-long-uniform-grid");
                    }
                }
                Ok(v) => run.violate("predict/length", || format!("{} predictions for {} points", v.len(), npts)),
                Err(p) => run.violate("predict/panic", || format!("degree {} on {} points: {}", d, npts, p)),
            }
        }
    }
    // 3. predict = c0 + c1 x + ... + cd x^d exactly (dyadic inputs, small integer coefficients)
    let px: Vec<f64> = vec![-2.0, -1.5, -1.0, -0.25, 0.0, 0.5, 1.0, 1.75, 2.0, 3.0];
    for d in 0..=6usize {
        par_words(5, d + 1, |w| {
            let c: Vec<f64> = w.iter().map(|&i| i as f64 - 2.0).collect();
            run.case();
            run.tr();
            run.ok();
            run.nontrivial(1);
            let mut pr = PolynomialRegressor::new(d);
            pr.coef = c.clone();
            match guard(|| pr.predict(&px)) {
                Ok(v) => {
                    let want: Vec<f64> = px.iter().map(|x| (0..=d).map(|k| c[k] * x.powi(k as i32)).sum::<f64>()).collect();
                    if v != want {
                        run.outcome(&("predict", "bad"));
                        run.violate("predict/not-the-polynomial", || format!("coef {:?} at {:?}: got {:?}, want {:?}", c, px, v, want));
                    } else {
                        run.outcome(&("predict", "ok", d));
                    }
                }
                Err(p) => run.violate("predict/panic", || format!("coef {:?}: {}", c, p)),
            }
        });
    }
    run.require_regime("interpolation");
    run.require_regime("overdetermined");
    run.require_regime("refit");
    run.bound("abscissa families", format!("{} families, up to {} points", sets.len(), run.tier.pick(200, 2000)));
    run.assume("first-order condition |V^T(y−Vc)|∞ ≤ (64(d+1)²+2n)u·cond(V^T V)·(‖V^T V‖‖c‖ + n·max|x|^d·‖y‖): the normal-equation method is granted its own conditioning; designs with cond(V^T V) > 1e9 are skipped");
    run.assume("abscissae are dyadic so that the Gram matrix and the gradient are evaluated essentially exactly in double-double");
}
