//! C15 — shape operations and constructors preserve data and the matrix invariant.
//! Programs: engine E2 (stateright BFS over the real Matrix with labelled elements, lock-step
//! row-major model, invariant evaluated in every state). Constructors/predicates: engine E3.
use crate::common::refmath::U;
use crate::common::seqx::{explore, Seq};
use crate::common::{guard, Run};
use compute::linalg::{self, Matrix, Vector};
use rayon::prelude::*;
use std::sync::Arc;

const CAP: usize = 12;
const DIMS: [i32; 8] = [-2, -1, 0, 1, 2, 3, 4, 6];

#[derive(Clone, Debug, Hash, PartialEq)]
pub struct MS {
    r: usize,
    c: usize,
    d: Vec<i16>,
}

#[derive(Clone, Debug, PartialEq)]
pub enum Op {
    T,
    TMut,
    Reshape(i32, i32),
    ReshapeMut(i32, i32),
    VecReshape(i32, i32),
    HcatSelf,
    VcatSelf,
    /// hcat / vcat with a *different* matrix of k columns / rows (labels 40.. / 60..)
    HcatOther(usize),
    VcatOther(usize),
    Hrepeat2,
    Vrepeat2,
    RowAsVec(usize),
    ColAsVec(usize),
    NegRow(usize),
    NegCol(usize),
    FlatNeg(usize),
    Diag,
    ToVecToMatrix,
    RowToColMajor,
    ColToRowMajor,
}

fn real(s: &MS) -> Matrix {
    // through the public fields (a struct literal would stop compiling the day Matrix gains a private field)
    let mut m = Matrix::new(vec![0.0], 1, 1);
    m.data = Vector::new(s.d.iter().map(|&v| v as f64).collect::<Vec<f64>>());
    m.nrows = s.r;
    m.ncols = s.c;
    m
}
fn canon(m: &Matrix) -> Option<MS> {
    let mut d = Vec::with_capacity(m.data.len());
    for &v in m.data.iter() {
        if v.fract() != 0.0 || v.abs() > 30000.0 {
            return None;
        }
        d.push(v as i16);
    }
    Some(MS { r: m.nrows, c: m.ncols, d })
}

/// reference semantics; None = the operation must be rejected (panic) and leave the object as is
fn model(s: &MS, op: &Op) -> Option<MS> {
    let (r, c) = (s.r, s.c);
    let at = |i: usize, j: usize| s.d[i * c + j];
    let size = r * c;
    let resh = |nr: i32, nc: i32| -> Option<MS> {
        let (a, b) = if nr > 0 && nc > 0 {
            if (nr * nc) as usize != size {
                return None;
            }
            (nr as usize, nc as usize)
        } else if nr == -1 && nc > 0 {
            if size % nc as usize != 0 {
                return None;
            }
            (size / nc as usize, nc as usize)
        } else if nc == -1 && nr > 0 {
            if size % nr as usize != 0 {
                return None;
            }
            (nr as usize, size / nr as usize)
        } else {
            return None;
        };
        Some(MS { r: a, c: b, d: s.d.clone() })
    };
    Some(match op {
        Op::T | Op::TMut | Op::RowToColMajor => {
            let mut d = Vec::with_capacity(size);
            for j in 0..c {
                for i in 0..r {
                    d.push(at(i, j));
                }
            }
            MS { r: c, c: r, d }
        }
        Op::Reshape(a, b) | Op::ReshapeMut(a, b) | Op::VecReshape(a, b) => return resh(*a, *b),
        Op::HcatSelf | Op::Hrepeat2 => {
            let mut d = Vec::new();
            for i in 0..r {
                for _ in 0..2 {
                    for j in 0..c {
                        d.push(at(i, j));
                    }
                }
            }
            MS { r, c: 2 * c, d }
        }
        Op::VcatSelf | Op::Vrepeat2 => {
            let mut d = s.d.clone();
            d.extend_from_slice(&s.d);
            MS { r: 2 * r, c, d }
        }
        Op::HcatOther(k) => {
            let mut d = Vec::new();
            for i in 0..r {
                for j in 0..c {
                    d.push(at(i, j));
                }
                for j in 0..*k {
                    d.push(40 + (i * k + j) as i16);
                }
            }
            MS { r, c: c + k, d }
        }
        Op::VcatOther(k) => {
            let mut d = s.d.clone();
            for t in 0..k * c {
                d.push(60 + t as i16);
            }
            MS { r: r + k, c, d }
        }
        Op::RowAsVec(i) => {
            if *i >= r {
                return None;
            }
            MS { r: 1, c, d: (0..c).map(|j| at(*i, j)).collect() }
        }
        Op::ColAsVec(j) => {
            if *j >= c {
                return None;
            }
            MS { r: 1, c: r, d: (0..r).map(|i| at(i, *j)).collect() }
        }
        Op::NegRow(i) => {
            if *i >= r {
                return None;
            }
            let mut d = s.d.clone();
            for j in 0..c {
                d[i * c + j] = -d[i * c + j];
            }
            MS { r, c, d }
        }
        Op::NegCol(j) => {
            if *j >= c {
                return None;
            }
            let mut d = s.d.clone();
            for i in 0..r {
                d[i * c + j] = -d[i * c + j];
            }
            MS { r, c, d }
        }
        Op::FlatNeg(k) => {
            if *k >= size {
                return None;
            }
            let mut d = s.d.clone();
            d[*k] = -d[*k];
            MS { r, c, d }
        }
        Op::Diag => {
            let n = r.min(c);
            MS { r: 1, c: n, d: (0..n).map(|k| at(k, k)).collect() }
        }
        Op::ToVecToMatrix => MS { r: 1, c: size, d: s.d.clone() },
        Op::ColToRowMajor => {
            let mut d = vec![0i16; size];
            for i in 0..r {
                for j in 0..c {
                    d[i * c + j] = s.d[j * r + i];
                }
            }
            MS { r, c, d }
        }
    })
}

/// run the real operation; Ok(resulting matrix) or Err(panic) — for in-place operations the
/// second component is the object after the (possibly failed) call
fn apply(s: &MS, op: &Op) -> (Result<Matrix, String>, Option<Matrix>) {
    let m = real(s);
    match op {
        Op::T => (guard(|| m.t()), None),
        Op::Reshape(a, b) => (guard(|| m.reshape(*a, *b)), None),
        Op::VecReshape(a, b) => (guard(|| m.data.reshape(*a, *b)), None),
        Op::HcatSelf => (guard(|| m.hcat(m.clone())), None),
        Op::VcatSelf => (guard(|| m.vcat(m.clone())), None),
        Op::HcatOther(k) => {
            let o = Matrix::new((0..s.r * k).map(|t| 40.0 + t as f64).collect::<Vec<f64>>(), s.r as i32, *k as i32);
            (guard(|| m.hcat(o.clone())), None)
        }
        Op::VcatOther(k) => {
            let o = Matrix::new((0..s.c * k).map(|t| 60.0 + t as f64).collect::<Vec<f64>>(), *k as i32, s.c as i32);
            (guard(|| m.vcat(o.clone())), None)
        }
        Op::Hrepeat2 => (guard(|| m.hrepeat(2)), None),
        Op::Vrepeat2 => (guard(|| m.vrepeat(2)), None),
        Op::RowAsVec(i) => (guard(|| m.get_row_as_vector(*i).to_matrix()), None),
        Op::ColAsVec(j) => (guard(|| m.get_col_as_vector(*j).to_matrix()), None),
        Op::Diag => (guard(|| m.diag().to_matrix()), None),
        Op::ToVecToMatrix => (guard(|| m.clone().to_vec().to_matrix()), None),
        Op::RowToColMajor => (guard(|| Matrix::new(linalg::row_to_col_major(&m.data, m.nrows), m.ncols as i32, m.nrows as i32)), None),
        Op::ColToRowMajor => (guard(|| Matrix::new(linalg::col_to_row_major(&m.data, m.nrows), m.nrows as i32, m.ncols as i32)), None),
        Op::TMut | Op::ReshapeMut(..) | Op::NegRow(_) | Op::NegCol(_) | Op::FlatNeg(_) => {
            let mut x = m.clone();
            let r = {
                let xr = &mut x;
                guard(move || {
                    match op {
                        Op::TMut => {
                            xr.t_mut();
                        }
                        Op::ReshapeMut(a, b) => {
                            xr.reshape_mut(*a, *b);
                        }
                        Op::NegRow(i) => xr.apply_along_row(*i, |v| -v),
                        Op::NegCol(j) => xr.apply_along_col(*j, |v| -v),
                        Op::FlatNeg(k) => {
                            let v = xr.flat_idx(*k);
                            xr.flat_idx_replace(*k, -v);
                        }
                        _ => unreachable!(),
                    };
                })
            };
            match r {
                Ok(()) => (Ok(x.clone()), Some(x)),
                Err(p) => (Err(p), Some(x)),
            }
        }
    }
}

fn opname(op: &Op) -> &'static str {
    match op {
        Op::T => "t",
        Op::TMut => "t_mut",
        Op::Reshape(..) => "reshape",
        Op::ReshapeMut(..) => "reshape_mut",
        Op::VecReshape(..) => "Vector::reshape",
        Op::HcatSelf => "hcat",
        Op::VcatSelf | Op::VcatOther(_) => "vcat",
        Op::HcatOther(_) => "hcat",
        Op::Hrepeat2 => "hrepeat",
        Op::Vrepeat2 => "vrepeat",
        Op::RowAsVec(_) => "get_row_as_vector",
        Op::ColAsVec(_) => "get_col_as_vector",
        Op::NegRow(_) => "apply_along_row",
        Op::NegCol(_) => "apply_along_col",
        Op::FlatNeg(_) => "flat_idx_replace",
        Op::Diag => "diag",
        Op::ToVecToMatrix => "to_vec/to_matrix",
        Op::RowToColMajor => "row_to_col_major",
        Op::ColToRowMajor => "col_to_row_major",
    }
}

/// every accessor and predicate of the real object against the row-major model
fn invariant(run: &Run, s: &MS, how: &dyn Fn() -> String) {
    let (r, c) = (s.r, s.c);
    let m = real(s);
    let at = |i: usize, j: usize| s.d[i * c + j] as f64;
    let shape = if r == c { "square" } else if r > c { "tall" } else { "wide" };
    let fail = |what: &str, detail: String| run.violate(&format!("accessor/{}/{}", what, shape), || format!("state {}x{} {:?} reached by {}: {}", r, c, s.d, how(), detail));
    run.trs(8);
    run.ok();
    // 2-D and row indexing, flat indexing
    let ok = guard(|| {
        for i in 0..r {
            let row = &m[i];
            if row.len() != c {
                return Err(format!("row {} has length {}", i, row.len()));
            }
            for j in 0..c {
                if m[[i, j]] != at(i, j) || row[j] != at(i, j) || m.flat_idx(i * c + j) != at(i, j) {
                    return Err(format!("element ({},{}) reads {} / {} / {}, model {}", i, j, m[[i, j]], row[j], m.flat_idx(i * c + j), at(i, j)));
                }
            }
            let rv = m.get_row_as_vector(i);
            if rv.v != (0..c).map(|j| at(i, j)).collect::<Vec<_>>() {
                return Err(format!("get_row_as_vector({}) = {:?}", i, rv.v));
            }
        }
        for j in 0..c {
            let cv = m.get_col_as_vector(j);
            if cv.v != (0..r).map(|i| at(i, j)).collect::<Vec<_>>() {
                return Err(format!("get_col_as_vector({}) = {:?}", j, cv.v));
            }
        }
        Ok(())
    });
    match ok {
        Ok(Ok(())) => {}
        Ok(Err(e)) => fail("index", e),
        Err(p) => fail("index-panic", p),
    }
    // out-of-range must panic
    for (what, res) in [
        ("[[r,0]]", guard(|| m[[r, 0]])),
        ("[[0,c]]", guard(|| m[[0, c]])),
        ("[r][0]", guard(|| m[r][0])),
        ("flat_idx(size)", guard(|| m.flat_idx(r * c))),
    ] {
        if let Ok(v) = res {
            fail("out-of-range-accepted", format!("{} returned {}", what, v));
        }
    }
    // diag
    match guard(|| m.diag().v.clone()) {
        Ok(d) => {
            let want: Vec<f64> = (0..r.min(c)).map(|k| at(k, k)).collect();
            if d != want {
                fail("diag", format!("diag() = {:?}, model {:?}", d, want));
            }
        }
        Err(p) => fail("diag-panic", p),
    }
    // shape / size / iteration order
    if m.shape() != [r, c] || m.size() != r * c || m.is_square() != (r == c) {
        fail("shape", format!("shape {:?} size {} is_square {}", m.shape(), m.size(), m.is_square()));
    }
    let rows: Vec<Vec<f64>> = (&m).into_iter().map(|x| x.to_vec()).collect();
    let want_rows: Vec<Vec<f64>> = (0..r).map(|i| (0..c).map(|j| at(i, j)).collect()).collect();
    if rows != want_rows {
        fail("iteration", format!("rows iterate as {:?}", rows));
    }
    // predicates by definition
    let sym = r == c && (0..r).all(|i| (0..c).all(|j| at(i, j) == at(j, i)));
    let upper = (0..r).all(|i| (0..c).all(|j| !(i > j) || at(i, j) == 0.0));
    let lower = (0..r).all(|i| (0..c).all(|j| !(j > i) || at(i, j) == 0.0));
    for (what, got, want) in [
        ("is_symmetric", guard(|| m.is_symmetric()), sym),
        ("is_upper_triangular", guard(|| m.is_upper_triangular()), upper),
        ("is_lower_triangular", guard(|| m.is_lower_triangular()), lower),
    ] {
        match got {
            Ok(g) if g == want => run.outcome(&(what, g)),
            Ok(g) => fail(what, format!("{}() = {}, definition gives {}", what, g, want)),
            Err(p) => fail(&format!("{}-panic", what), format!("{}() panicked: {}", what, p)),
        }
    }
}

fn programs(run: &Run) {
    let run_s: &'static Run = unsafe { &*(run as *const Run) };
    let lab = |r: usize, c: usize| MS { r, c, d: (1..=(r * c) as i16).collect() };
    let mut inits = vec![lab(1, 1), lab(1, 3), lab(3, 1), lab(2, 3), lab(3, 2), lab(2, 2)];
    inits.push(MS { r: 2, c: 2, d: vec![1, 0, 2, 3] });
    inits.push(MS { r: 3, c: 3, d: vec![1, 2, 3, 0, 4, 5, 0, 0, 6] });
    inits.push(MS { r: 2, c: 2, d: vec![1, 7, 7, 2] });
    for _ in &inits {
        run.evals(1);
    }
    let sign_cap = run.tier.pick(4usize, 6usize);
    let acts = move |s: &MS, out: &mut Vec<Op>| {
        let size = s.r * s.c;
        out.push(Op::T);
        out.push(Op::TMut);
        // every valid reshape request in every state; the impossible ones (which all end in a
        // panic, the slow path) in full on small objects and as a state-dependent 1/8 subset
        // elsewhere — over the whole search every (r,c) pair is tried on thousands of states
        let h = crate::common::run::hash_of(s);
        for (ia, &a) in DIMS.iter().enumerate() {
            for (ib, &b) in DIMS.iter().enumerate() {
                let valid = model(s, &Op::Reshape(a, b)).is_some();
                if valid || size <= 4 || (h.wrapping_add((ia * 8 + ib) as u64)) % 8 == 0 {
                    out.push(Op::Reshape(a, b));
                    out.push(Op::ReshapeMut(a, b));
                    if (a + b) % 2 == 0 || valid {
                        out.push(Op::VecReshape(a, b));
                    }
                }
            }
        }
        if 2 * size <= CAP {
            out.extend([Op::HcatSelf, Op::VcatSelf, Op::Hrepeat2, Op::Vrepeat2]);
        }
        // concatenation with a different matrix (other widths / heights), on small unlabelled-by-40 objects
        if size <= 6 && s.d.iter().all(|v| v.abs() < 40) {
            for k in [1usize, 2] {
                if s.r * (s.c + k) <= CAP && s.c != k {
                    out.push(Op::HcatOther(k));
                }
                if (s.r + k) * s.c <= CAP && s.r != k {
                    out.push(Op::VcatOther(k));
                }
            }
        }
        for i in 0..=s.r {
            out.push(Op::RowAsVec(i));
        }
        for j in 0..=s.c {
            out.push(Op::ColAsVec(j));
        }
        // sign-flipping maps multiply the state space by 2^size: offered on small objects only
        if size <= sign_cap {
            for i in 0..=s.r {
                out.push(Op::NegRow(i));
            }
            for j in 0..=s.c {
                out.push(Op::NegCol(j));
            }
            for k in 0..=size {
                out.push(Op::FlatNeg(k));
            }
        }
        out.extend([Op::Diag, Op::ToVecToMatrix, Op::RowToColMajor, Op::ColToRowMajor]);
    };
    let step = move |s: &MS, op: &Op, pathf: &dyn Fn() -> Vec<Op>| -> Option<MS> {
        let run = run_s;
        run.evals(1);
        run.tr();
        let want = model(s, op);
        let (res, after) = apply(s, op);
        let how = || format!("{:?} then {:?} from the initial matrix", pathf(), op);
        let name = opname(op);
        run.ok();
        match (res, want) {
            (Ok(g), Some(w)) => {
                if g.data.len() != g.nrows * g.ncols {
                    run.outcome(&(name, "invariant"));
                    run.violate(&format!("program/{}/invariant-broken", name), || format!("{:?} on {}x{} {:?} (after {:?}) produced a {}x{} matrix holding {} elements", op, s.r, s.c, s.d, pathf(), g.nrows, g.ncols, g.data.len()));
                    return None;
                }
                match canon(&g) {
                    Some(gs) if gs == w => {
                        run.outcome(&(name, "ok", w.r == w.c));
                        run.regime(name);
                        let _ = &how;
                        Some(gs)
                    }
                    _ => {
                        run.outcome(&(name, "diverged"));
                        run.violate(&format!("program/{}/diverges-from-model", name), || format!("{:?} on {}x{} {:?} (after {:?}) gave {}x{} {:?}, model {}x{} {:?}", op, s.r, s.c, s.d, pathf(), g.nrows, g.ncols, g.data.v, w.r, w.c, w.d));
                        None
                    }
                }
            }
            (Ok(g), None) => {
                run.outcome(&(name, "accepted-impossible"));
                run.violate(&format!("program/{}/impossible-request-accepted", name), || format!("{:?} on {}x{} {:?} (after {:?}) must be rejected but produced {}x{} with {} elements", op, s.r, s.c, s.d, pathf(), g.nrows, g.ncols, g.data.len()));
                None
            }
            (Err(p), Some(_)) => {
                run.outcome(&(name, "panic"));
                run.violate(&format!("program/{}/panic-on-valid", name), || format!("{:?} on {}x{} {:?} (after {:?}) panicked: {}", op, s.r, s.c, s.d, pathf(), p));
                None
            }
            (Err(_), None) => {
                run.outcome(&(name, "rejected"));
                run.regime("impossible-rejected");
                // a rejected in-place request must leave the object unchanged
                if let Some(x) = after {
                    if canon(&x).as_ref() != Some(s) {
                        run.violate(&format!("program/{}/rejected-but-modified", name), || format!("{:?} on {}x{} {:?} panicked and left {}x{} {:?}", op, s.r, s.c, s.d, x.nrows, x.ncols, x.data.v));
                    }
                }
                None
            }
        }
    };
    let depth = run.tier.pick(7usize, 11usize);
    let cap_states = run.tier.pick(1_000_000usize, 8_000_000usize);
    let visit = move |s: &MS, pf: &dyn Fn() -> Vec<Op>| invariant(run_s, s, &|| format!("{:?} from the initial matrix", pf()));
    let m = Seq { inits, acts: Arc::new(acts), step: Arc::new(step), visit: Some(Arc::new(visit)) };
    let st = explore(&m, Some(depth), Some(cap_states), Some(run.tier.pick(40, 600)));
    run.add_states(st.unique_states as u64);
    run.nontrivial(st.unique_states as u64);
    run.bound("program depth", format!("BFS to depth {} under the {}-element cap; new states per level {:?}", depth, CAP, st.per_level));
    if !st.closed {
        run.not_exhaustive();
    }
    if let Some(c) = &st.cap_hit {
        if !c.starts_with("depth bound") {
            run.cap(c);
        }
    }
    run.extra("bfs", serde_json::json!({"unique_states": st.unique_states, "generated": st.generated, "max_depth": st.max_depth, "closed": st.closed, "cap": st.cap_hit}));
    run.sample(|| "program: from 2x3 [1..6]: [TMut, ReshapeMut(-1,2), HcatSelf, ColAsVec(1)] — every accessor checked in every state".to_string());
}

// ---------------------------------------------------------------------------------------------
// constructors and predicates (E3)
fn constructors(run: &Run) {
    let nmax = 64usize;
    run.bound("constructor sizes", "1..=64");
    (1..=nmax).into_par_iter().for_each(|n| {
        let vio = |site: &str, d: String| run.violate(&format!("constructor/{}", site), || format!("n={}: {}", n, d));
        run.cases(7);
        run.trs(7);
        run.oks(7);
        run.nontrivial(7);
        // eye / zeros / ones
        match guard(|| (Matrix::eye(n), Matrix::zeros(n, (n % 5) + 1), Matrix::ones((n % 7) + 1, n))) {
            Ok((e, z, o)) => {
                if e.shape() != [n, n] || (0..n).any(|i| (0..n).any(|j| e[[i, j]] != if i == j { 1.0 } else { 0.0 })) {
                    vio("eye", "not the identity".into());
                }
                if z.shape() != [n, (n % 5) + 1] || z.data.iter().any(|v| v.to_bits() != 0) {
                    vio("zeros", format!("shape {:?}", z.shape()));
                }
                if o.shape() != [(n % 7) + 1, n] || o.data.iter().any(|v| *v != 1.0) {
                    vio("ones", format!("shape {:?}", o.shape()));
                }
            }
            Err(p) => vio("eye-zeros-ones/panic", p),
        }
        let x: Vec<f64> = (0..n).map(|i| (i as f64) * 0.5 - 3.0 + if i % 3 == 0 { 0.25 } else { 0.0 }).collect();
        // diag_matrix and diag
        match guard(|| linalg::diag_matrix(&x)) {
            Ok(d) => {
                if d.len() != n * n || (0..n).any(|i| (0..n).any(|j| d[i * n + j] != if i == j { x[i] } else { 0.0 })) {
                    vio("diag_matrix", "pattern".into());
                }
                match guard(|| linalg::diag(&d)) {
                    Ok(back) if back.v == x => {}
                    Ok(back) => vio("diag(slice)", format!("{:?}", back.v)),
                    Err(p) => vio("diag(slice)/panic", p),
                }
            }
            Err(p) => vio("diag_matrix/panic", p),
        }
        // toeplitz
        match guard(|| linalg::toeplitz(&x)) {
            Ok(t) => {
                if t.len() != n * n || (0..n).any(|i| (0..n).any(|j| t[i * n + j] != x[(i as i64 - j as i64).unsigned_abs() as usize])) {
                    vio("toeplitz", "t[i][j] != x[|i-j|]".into());
                }
            }
            Err(p) => vio("toeplitz/panic", p),
        }
        // vandermonde: one row per x, powers 0..k
        for k in [1usize, 2, 3, 5] {
            match guard(|| linalg::vandermonde(&x, k)) {
                Ok(v) => {
                    if v.len() != n * k || (0..n).any(|i| (0..k).any(|p| v[i * k + p] != x[i].powi(p as i32))) {
                        vio("vandermonde", format!("order {}", k));
                    }
                }
                Err(p) => vio("vandermonde/panic", p),
            }
        }
        // design: a column of ones in front of the (column-major) covariates
        for k in [1usize, 2, 3] {
            let cov: Vec<f64> = (0..n * k).map(|t| 2.0 + t as f64).collect();
            match guard(|| linalg::design(&cov, n)) {
                Ok(d) => {
                    let ok = d.len() == n * (k + 1) && (0..n).all(|i| d[i * (k + 1)] == 1.0 && (0..k).all(|j| d[i * (k + 1) + 1 + j] == cov[j * n + i]));
                    if !ok {
                        vio("design", format!("{} covariates", k));
                    } else if !linalg::is_design(&d, n) {
                        vio("is_design", "a design matrix is not recognised".into());
                    }
                    let mut bad = d.clone();
                    bad[(n / 2) * (k + 1)] = 2.0;
                    if linalg::is_design(&bad, n) {
                        vio("is_design", "first column with a 2 accepted".into());
                    }
                }
                Err(p) => vio("design/panic", p),
            }
        }
        // transpose(slice) and is_matrix
        for r in 1..=n.min(8) {
            let a: Vec<f64> = (0..r * n).map(|t| t as f64).collect();
            match guard(|| linalg::transpose(&a, r)) {
                Ok(t) => {
                    if t.len() != r * n || (0..r).any(|i| (0..n).any(|j| t[j * r + i] != a[i * n + j])) {
                        vio("transpose(slice)", format!("{}x{}", r, n));
                    }
                }
                Err(p) => vio("transpose/panic", p),
            }
            if linalg::is_matrix(&a, r) != Ok(n) {
                vio("is_matrix", format!("{} elements, {} rows", r * n, r));
            }
        }
    });
    // is_square(slice) on every length up to 64^2+1
    for len in 1..=4097usize {
        run.case();
        run.tr();
        run.ok();
        let a = vec![0.0; len];
        let root = (len as f64).sqrt().round() as usize;
        let want = if root * root == len { Ok(root) } else { Err(()) };
        let got = linalg::is_square(&a).map_err(|_| ());
        if got != want {
            run.violate("predicate/is_square(slice)", || format!("length {}: got {:?}, want {:?}", len, got, want));
        }
    }
    // is_symmetric(slice)
    for n in 1..=6usize {
        let mut a: Vec<f64> = (0..n * n).map(|t| ((t / n).min(t % n) * 7 + (t / n).max(t % n)) as f64).collect();
        run.case();
        run.tr();
        run.ok();
        if !linalg::is_symmetric(&a) {
            run.violate("predicate/is_symmetric(slice)", || format!("symmetric {}x{} not recognised", n, n));
        }
        if n > 1 {
            a[1] += 1.0;
            if linalg::is_symmetric(&a) {
                run.violate("predicate/is_symmetric(slice)", || format!("asymmetric {}x{} accepted", n, n));
            }
        }
    }

    // is_symmetric (slice and method), is_positive_definite: one mirror entry of a symmetric matrix changed
    // (sign flipped, or moved by a relative amount well above the comparison's tolerance) is not symmetric;
    // the unchanged matrix, whatever its scale, is
    for n in 2..=5usize {
        for &(scale, nm) in &[(1.0, "unit"), (1e-200, "tiny"), (1e200, "huge"), (-3.0, "negative")] {
            let base: Vec<f64> = (0..n * n).map(|t| (((t / n).min(t % n) * 5 + (t / n).max(t % n)) as f64 + if t / n == t % n { 40.0 } else { 1.0 }) * scale).collect();
            run.case();
            run.trs(2);
            run.ok();
            let mb = Matrix::new(base.clone(), n as i32, n as i32);
            if !linalg::is_symmetric(&base) || !mb.is_symmetric() {
                run.violate("predicate/is_symmetric/rejects-symmetric", || format!("{} symmetric {}x{} not recognised", nm, n, n));
            }
            for i in 0..n {
                for j in 0..i {
                    for (k, change) in [-1.0, 1.0 + 1e-3, 1.0 - 1e-9, 1.0 + 64.0 * f64::EPSILON, 0.0, 2.0].iter().enumerate() {
                        let mut a = base.clone();
                        a[i * n + j] *= change;
                        run.case();
                        run.trs(3);
                        run.ok();
                        run.nontrivial(1);
                        let m = Matrix::new(a.clone(), n as i32, n as i32);
                        let (s1, s2, pd) = (linalg::is_symmetric(&a), m.is_symmetric(), m.is_positive_definite());
                        run.outcome(&("sym-one-entry", k, s1, s2, pd));
                        if s1 || s2 {
                            run.violate("predicate/is_symmetric/accepts-asymmetric", || {
                                format!("{} {}x{}: entry ({},{}) = {:e} against its mirror {:e} is called symmetric (slice {}, method {})", nm, n, n, i, j, a[i * n + j], a[j * n + i], s1, s2)
                            });
                        }
                        if pd {
                            run.violate("predicate/is_positive_definite/accepts-asymmetric", || format!("{} {}x{}: entry ({},{}) = {:e} against its mirror {:e}", nm, n, n, i, j, a[i * n + j], a[j * n + i]));
                        }
                    }
                }
            }
            // antisymmetric off-diagonal part (rotation-like)
            let anti: Vec<f64> = (0..n * n).map(|t| if t / n < t % n { -base[t] } else { base[t] }).collect();
            let ma = Matrix::new(anti.clone(), n as i32, n as i32);
            if linalg::is_symmetric(&anti) || ma.is_symmetric() {
                run.violate("predicate/is_symmetric/accepts-asymmetric", || format!("{} {}x{} with antisymmetric off-diagonal part is called symmetric", nm, n, n));
            }
        }
    }

    // ---- arange / linspace ----------------------------------------------------------------
    let starts = [-2.0, -0.5, 0.0, 0.25, 1.0, 10.0];
    let spans = [0.0, 0.3, 0.5, 0.6, 0.7, 1.0, 2.5, 4.0, 7.3, 10.0, 63.0, 3.0000000001, 1.0 + 1e-10, 1e-10, 2.5 + 1e-12, 5.000001, 7.0 + 4e-15, 0.9999999999, 2.0 - 1e-12];
    let steps = [0.25, 1.0 / 3.0, 0.1, 0.2, 1.0, 2.5, 0.7];
    for &st in &starts {
        for &sp in &spans {
            for &step in &steps {
                let stop = st + sp;
                run.case();
                run.tr();
                run.ok();
                run.nontrivial(1);
                // a descending grid is the mirror image of the ascending one, element by element (negation is exact)
                if let (Ok(up), Ok(down)) = (guard(|| linalg::arange(st, stop, step).v.clone()), guard(|| linalg::arange(-st, -stop, -step).v.clone())) {
                    run.tr();
                    if up.len() != down.len() || up.iter().zip(&down).any(|(a, b)| *a != -*b) {
                        run.violate("constructor/arange/descending-not-mirror-of-ascending", || format!("arange({}, {}, {}) = {:?} but arange({}, {}, {}) = {:?}", st, stop, step, up, -st, -stop, -step, down));
                    } else {
                        run.regime("arange-descending-mirrors-ascending");
                    }
                }
                match guard(|| linalg::arange(st, stop, step).v.clone()) {
                    Ok(v) => {
                        let n = v.len();
                        let pattern = (0..n).all(|i| v[i] == st + i as f64 * step);
                        // half-open [start, stop): no element reaches stop, and the grid does not stop early
                        let none_reaches = n == 0 || v[n - 1] < stop;
                        let next = st + n as f64 * step;
                        let exact_next_reaches = {
                            use crate::common::rat::Rat;
                            let e = Rat::from_f64(st).add(Rat::int(n as i128).mul(Rat::from_f64(step)));
                            matches!(e.cmp(Rat::from_f64(stop)), Some(std::cmp::Ordering::Greater) | Some(std::cmp::Ordering::Equal))
                        };
                        let not_early = next >= stop || exact_next_reaches;
                        // the documented count is ceil((stop-start)/step); evaluated in f64 it can land one
                        // grid point beyond the exact count on razor-edge ratios (as NumPy's does), so the
                        // f64 ceiling and the exact ceiling are both accepted
                        let ceil_fp = if stop > st { ((stop - st) / step).ceil() as usize } else { 0 };
                        let ceil_exact = {
                            use crate::common::rat::Rat;
                            let q = Rat::from_f64(stop).sub(Rat::from_f64(st)).div(Rat::from_f64(step));
                            if q.ovf || q.n <= 0 { 0usize } else { ((q.n + q.d - 1) / q.d) as usize }
                        };
                        let exact_ratio = (sp / step).fract() == 0.0;
                        let cls = if exact_ratio { "integer-ratio" } else { "non-integer-ratio" };
                        let count_ok = n == ceil_fp || n == ceil_exact || (none_reaches && not_early);
                        if !pattern {
                            run.violate("constructor/arange/pattern", || format!("arange({}, {}, {}) = {:?}", st, stop, step, v));
                        } else if !count_ok && n > ceil_fp.max(ceil_exact) {
                            run.violate(&format!("constructor/arange/too-many/{}", cls), || format!("arange({}, {}, {}) has {} elements, ceil((stop-start)/step) = {} (f64) / {} (exact)", st, stop, step, n, ceil_fp, ceil_exact));
                        } else if !count_ok {
                            run.outcome(&("arange", cls, "early"));
                            run.violate(&format!("constructor/arange/stops-early/{}", cls), || format!("arange({}, {}, {}) has {} elements {:?}; ceil((stop-start)/step) = {} (f64) / {} (exact)", st, stop, step, n, v, ceil_fp, ceil_exact));
                        } else {
                            run.outcome(&("arange", cls, "ok"));
                        }
                    }
                    Err(p) => run.violate("constructor/arange/panic", || format!("arange({}, {}, {}) panicked: {}", st, stop, step, p)),
                }
            }
        }
    }
    for &a in &starts {
        for &sp in &[0.0, 0.3, 1.0, 2.5, -4.0, 90.0] {
            let b = a + sp;
            for num in 1..=64usize {
                run.case();
                run.tr();
                run.ok();
                run.nontrivial(1);
                match guard(|| linalg::linspace(a, b, num).v.clone()) {
                    Ok(v) => {
                        let tol = 4.0 * U * (a.abs() + b.abs() + 1.0);
                        let cls = if num == 1 { "num=1" } else { "num>=2" };
                        let mut ok = v.len() == num && v[0] == a;
                        if num >= 2 {
                            ok = ok && (v[num - 1] - b).abs() <= tol;
                            let w = (b - a) / (num - 1) as f64;
                            ok = ok && (0..num).all(|i| (v[i] - (a + i as f64 * w)).abs() <= tol);
                        }
                        if !ok {
                            run.outcome(&("linspace", cls, "bad"));
                            run.violate(&format!("constructor/linspace/{}", cls), || format!("linspace({}, {}, {}) = {:?}", a, b, num, &v[..v.len().min(5)]));
                        } else {
                            run.outcome(&("linspace", cls, "ok"));
                        }
                    }
                    Err(p) => run.violate("constructor/linspace/panic", || format!("linspace({}, {}, {}) panicked: {}", a, b, num, p)),
                }
            }
        }
    }
    // ---- rotations ------------------------------------------------------------------------
    use compute::linalg::{rotation_matrix_ccw, rotation_matrix_cw, Axis};
    for k in -32..=32 {
        let ang = k as f64 * std::f64::consts::PI / 8.0;
        for ax in 0..3 {
            let axis = || match ax {
                0 => Axis::X,
                1 => Axis::Y,
                _ => Axis::Z,
            };
            run.case();
            run.trs(2);
            run.ok();
            run.nontrivial(1);
            match guard(|| (rotation_matrix_cw(ang, axis()), rotation_matrix_ccw(ang, axis()))) {
                Ok((cw, ccw)) => {
                    let t = ccw.t();
                    if cw.shape() != [3, 3] || cw.data.iter().zip(t.data.iter()).any(|(a, b)| a.to_bits() != b.to_bits() && !(*a == 0.0 && *b == 0.0)) {
                        run.violate("constructor/rotation/cw-is-ccw-transposed", || format!("angle {}π/8 axis {}: cw {:?} vs ccwᵀ {:?}", k, ax, cw.data.v, t.data.v));
                    }
                    for (nm, m) in [("cw", &cw), ("ccw", &ccw)] {
                        // RᵀR = I and det = 1 to 4u
                        let d = &m.data;
                        let mut worst = 0.0f64;
                        for i in 0..3 {
                            for j in 0..3 {
                                let s: f64 = (0..3).map(|l| d[l * 3 + i] * d[l * 3 + j]).sum();
                                worst = worst.max((s - if i == j { 1.0 } else { 0.0 }).abs());
                            }
                        }
                        let det = d[0] * (d[4] * d[8] - d[5] * d[7]) - d[1] * (d[3] * d[8] - d[5] * d[6]) + d[2] * (d[3] * d[7] - d[4] * d[6]);
                        if worst > 4.0 * U || (det - 1.0).abs() > 4.0 * U {
                            run.violate("constructor/rotation/orthogonal", || format!("{} angle {}π/8 axis {}: |RᵀR-I| {:e}, det {:e}", nm, k, ax, worst, det));
                        }
                    }
                    // ccw rotates x->y about Z by +angle: definition check on the rotated plane
                    let (s, c) = (ang.sin(), ang.cos());
                    let want_ccw: [f64; 9] = match ax {
                        0 => [1., 0., 0., 0., c, -s, 0., s, c],
                        1 => [c, 0., s, 0., 1., 0., -s, 0., c],
                        _ => [c, -s, 0., s, c, 0., 0., 0., 1.],
                    };
                    if ccw.data.iter().zip(want_ccw.iter()).any(|(a, b)| a != b) {
                        run.violate("constructor/rotation/pattern", || format!("ccw angle {}π/8 axis {}: {:?}", k, ax, ccw.data.v));
                    }
                }
                Err(p) => run.violate("constructor/rotation/panic", || p),
            }
        }
    }
    // ---- approximate equality never equates opposite signs ------------------------------------
    let vals = [0.0, 1.0, -1.0, 1.0 + 2.220446049250313e-16, -(1.0 + 2.220446049250313e-16), 2.0, -2.0, 1e3, -1e3, -0.0, 1e-17, -1e-17, 1e-200, -1e-200, 5e-324, -5e-324, 1e-7, -1e-7, 1e300, -1e300];
    for &a in &vals {
        for &b in &vals {
            for &tol in &[0.0, 1e-12, 1e-6, 0.5] {
                run.case();
                run.trs(3);
                run.ok();
                run.nontrivial(1);
                let (va, vb) = (Vector::new(vec![3.0, a]), Vector::new(vec![3.0, b]));
                let (ma, mb) = (Matrix::new(vec![a, 3.0], 1, 2), Matrix::new(vec![b, 3.0], 1, 2));
                let opposite = (a < 0.0 && b > 0.0) || (a > 0.0 && b < 0.0);
                // the documented definition with a factor-2 margin around the threshold: a zero is close to
                // anything of magnitude within the tolerance; otherwise the difference relative to the
                // smaller magnitude counts
                let rel = if a == 0.0 { b.abs() } else if b == 0.0 { a.abs() } else { (a.abs() - b.abs()).abs() / a.abs().min(b.abs()) };
                let surely_close = !opposite && rel <= 0.5 * tol;
                let surely_not = opposite || rel > 2.0 * tol;
                let near = (a - b).abs() <= 4.0 * 2.220446049250313e-16;
                let far = (a - b).abs() > 0.6 * a.abs().max(b.abs()).max(1.0);
                for (what, got) in [
                    ("Vector.close_to", va.close_to(&vb, tol)),
                    ("Matrix.close_to", ma.close_to(&mb, tol)),
                    ("Vector==", va == vb),
                    ("Matrix==", ma == mb),
                ] {
                    // `==` is an absolute comparison at machine epsilon: two values of opposite sign are equated by
                    // its definition only if both are within epsilon of zero (−1e-17 == 1e-17)
                    let eq_by_abs_definition = what.ends_with("==") && (a - b).abs() <= 2.220446049250313e-16;
                    if what.ends_with("==") && (a - b).abs() > 2.0 * 2.220446049250313e-16 && got {
                        run.violate(&format!("comparison/{}/equates-distant", what), || format!("{:e} and {:e} compare equal", a, b));
                    } else if what.ends_with("==") && (a - b).abs() <= 0.5 * 2.220446049250313e-16 && !got {
                        run.violate(&format!("comparison/{}/rejects-identical", what), || format!("{:e} and {:e} compare unequal", a, b));
                    } else if opposite && got && !eq_by_abs_definition {
                        run.outcome(&(what, "equates-opposite"));
                        run.violate(&format!("comparison/{}/equates-opposite-signs", what), || format!("{:e} and {:e} compare equal (tol {})", a, b, tol));
                    } else if far && got {
                        run.violate(&format!("comparison/{}/equates-distant", what), || format!("{} and {} compare equal (tol {})", a, b, tol));
                    } else if what.contains("close_to") && surely_close && !got {
                        run.violate(&format!("comparison/{}/rejects-close-values", what), || format!("{:e} and {:e} are reported not close at tol {} (relative difference {:e})", a, b, tol, rel));
                    } else if what.contains("close_to") && surely_not && got {
                        run.violate(&format!("comparison/{}/equates-distant", what), || format!("{:e} and {:e} are reported close at tol {} (relative difference {:e})", a, b, tol, rel));
                    } else if near && !got && (what.ends_with("==") && a == b || what.contains("close_to") && a == b) {
                        run.violate(&format!("comparison/{}/rejects-identical", what), || format!("{} and {} compare unequal", a, b));
                    } else {
                        run.outcome(&(what, got, opposite));
                    }
                }
                // shape mismatch is never equal
                if ma.close_to(&Matrix::new(vec![a, 3.0], 2, 1), tol) || ma == Matrix::new(vec![a, 3.0], 2, 1) {
                    run.violate("comparison/shape-mismatch-equal", || "1x2 equals 2x1".to_string());
                }
            }
        }
    }
}

pub fn run(run: &Run) {
    run.rule("programs: BFS over every sequence of structural operations (transpose, reshape with all (r,c) in {-2,-1,0,1,2,3,4,6}^2, concatenation/repetition, row/column extraction incl. out-of-range, in-place sign maps, flat replace, diag, vector/layout conversion) on the real Matrix from 9 labelled start matrices under a 12-element cap, with every accessor and predicate compared against a row-major model in every state; constructors over sizes 1..=64, arange/linspace lattices, rotations at kπ/8, comparison predicates on all pairs of a 20-value alphabet (zeros of either sign, tiny, subnormal and huge values) against the documented definition; non-trivial = every distinct reachable state / constructor instance");
    programs(run);
    constructors(run);
    for r in ["t", "t_mut", "reshape", "reshape_mut", "hcat", "vcat", "hrepeat", "vrepeat", "get_row_as_vector", "get_col_as_vector", "apply_along_row", "apply_along_col", "flat_idx_replace", "diag", "to_vec/to_matrix", "row_to_col_major", "col_to_row_major", "impossible-rejected"] {
        run.require_regime(r);
    }
    run.assume("element labels are small integers (distinct, with zeros in three start matrices so that the triangular/symmetric predicates vary); sign-flipping maps are offered only on objects of at most 4 (quick) / 6 (thorough) elements to keep the state space finite and small");
    run.assume("arange: half-open convention judged on the produced f64 values (no element >= stop; the next grid point must reach stop in f64 or exact arithmetic)");
    run.assume("comparison predicates are judged only on |a| >= 1 or exact zero (absolute-epsilon equality of tiny values of opposite sign is 'according to definition')");
}
