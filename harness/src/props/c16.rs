//! C16 — linear interpolation reproduces knots and honours the out-of-range mode.
//! Engine E3: every strictly increasing knot set from a lattice × ordinate assignments × a target
//! lattice (knots, ±1 ulp, midpoints, quarter points, beyond both ends) × 3 modes × checked /
//! unchecked; oracle = exact piecewise-linear interpolant (double-double on f64 inputs).
use crate::common::dd::DD;
use crate::common::enumerate::{combinations, permutations};
use crate::common::refmath::U;
use crate::common::{guard, Run};
use compute::functions::{interp1d_linear, interp1d_linear_unchecked, ExtrapolationMode};
use rayon::prelude::*;

const LATTICE: [f64; 8] = [-4.0, -1.0, 0.0, 0.5, 1.0, 3.0, 10.0, 1e6];
const YS: [f64; 4] = [-2.0, 0.0, 1.0, 5.0];
const FILL_L: f64 = -12345.678;
const FILL_R: f64 = 54321.123;

fn next_up(x: f64) -> f64 {
    if x == 0.0 {
        return 5e-324;
    }
    let b = x.to_bits();
    f64::from_bits(if x > 0.0 { b + 1 } else { b - 1 })
}
fn next_down(x: f64) -> f64 {
    -next_up(-x)
}

fn mode(k: usize) -> ExtrapolationMode {
    match k {
        0 => ExtrapolationMode::Panic,
        1 => ExtrapolationMode::Fill(FILL_L, FILL_R),
        _ => ExtrapolationMode::Extrapolate,
    }
}
const MODES: [&str; 3] = ["Panic", "Fill", "Extrapolate"];

fn call(checked: bool, x: &[f64], y: &[f64], t: &[f64], m: usize) -> Result<Vec<f64>, String> {
    guard(|| if checked { interp1d_linear(x, y, t, mode(m)).v.clone() } else { interp1d_linear_unchecked(x, y, t, mode(m)).v.clone() })
}

/// exact value of the line through (xa,ya),(xb,yb) at t, and a rounding tolerance
fn line(xa: f64, ya: f64, xb: f64, yb: f64, t: f64) -> (f64, f64) {
    let r = (DD::new(t) - DD::new(xa)) / (DD::new(xb) - DD::new(xa));
    let v = DD::new(ya) + (DD::new(yb) - DD::new(ya)) * r;
    let stretch = r.f().abs().max((DD::ONE - r).f().abs()).max(1.0);
    (v.f(), 16.0 * U * (ya.abs() + yb.abs()) * stretch + 1e-300)
}

#[derive(Clone, Copy, PartialEq, Debug)]
enum Where {
    Knot(usize),
    Inside(usize),
    Below,
    Above,
}

fn classify(x: &[f64], t: f64) -> Where {
    let n = x.len();
    if t < x[0] {
        return Where::Below;
    }
    if t > x[n - 1] {
        return Where::Above;
    }
    for (j, &xj) in x.iter().enumerate() {
        if t == xj {
            return Where::Knot(j);
        }
    }
    for j in 0..n - 1 {
        if x[j] < t && t < x[j + 1] {
            return Where::Inside(j);
        }
    }
    unreachable!()
}

fn targets(x: &[f64]) -> Vec<f64> {
    let n = x.len();
    let mut t = Vec::new();
    for j in 0..n {
        t.push(x[j]);
        t.push(next_up(x[j]));
        t.push(next_down(x[j]));
        if j + 1 < n {
            t.push(0.5 * (x[j] + x[j + 1]));
            t.push(x[j] + 0.25 * (x[j + 1] - x[j]));
            t.push(x[j] + 0.75 * (x[j + 1] - x[j]));
        }
    }
    for d in [1.0, 1e6] {
        t.push(x[0] - d);
        t.push(x[n - 1] + d);
    }
    // a knot at zero is hit by the zero of either sign
    for j in 0..n {
        if x[j] == 0.0 {
            t.push(-x[j]);
        }
    }
    t
}

fn judge_one(run: &Run, checked: bool, m: usize, x: &[f64], y: &[f64], t: f64, res: &Result<f64, String>) {
    let n = x.len();
    let w = classify(x, t);
    let variant = if checked { "checked" } else { "unchecked" };
    let wname = match w {
        Where::Knot(_) => "knot",
        Where::Inside(_) => "inside",
        Where::Below => "below",
        Where::Above => "above",
    };
    let site = format!("{}/{}/{}", variant, MODES[m], wname);
    let desc = |extra: String| format!("x={:?} y={:?} target={:e} mode={} {}: {}", x, y, t, MODES[m], variant, extra);
    run.ok();
    match w {
        Where::Knot(j) => match res {
            Ok(g) => {
                if g.to_bits() != y[j].to_bits() && !(*g == 0.0 && y[j] == 0.0) {
                    run.outcome(&(&site, "bad"));
                    run.violate(&format!("{}/not-exact", site), || desc(format!("got {:e}, knot ordinate {:e}", g, y[j])));
                } else {
                    run.outcome(&(&site, "ok", j == 0, j == n - 1));
                    run.regime("knot-exact");
                }
            }
            Err(p) => run.violate(&format!("{}/panic", site), || desc(format!("panicked: {}", p))),
        },
        Where::Inside(j) => match res {
            Ok(g) => {
                let (v, tol) = line(x[j], y[j], x[j + 1], y[j + 1], t);
                let (lo, hi) = (y[j].min(y[j + 1]) - tol, y[j].max(y[j + 1]) + tol);
                if !((g - v).abs() <= tol) {
                    run.outcome(&(&site, "bad"));
                    run.violate(&format!("{}/off-the-line", site), || desc(format!("got {:e}, line value {:e} (tol {:e})", g, v, tol)));
                } else if !(lo <= *g && *g <= hi) {
                    run.violate(&format!("{}/outside-ordinates", site), || desc(format!("got {:e}, not in [{:e},{:e}]", g, lo, hi)));
                } else {
                    run.outcome(&(&site, "ok", j == 0, j + 2 == n));
                    run.regime("inside-on-line");
                }
            }
            Err(p) => run.violate(&format!("{}/panic", site), || desc(format!("panicked: {}", p))),
        },
        Where::Below | Where::Above => {
            let below = w == Where::Below;
            match m {
                0 => match res {
                    Ok(g) => {
                        run.outcome(&(&site, "no-panic"));
                        run.violate(&format!("{}/no-panic", site), || desc(format!("returned {:e} instead of panicking", g)))
                    }
                    Err(_) => {
                        run.outcome(&(&site, "panic"));
                        run.regime(if below { "panic-below" } else { "panic-above" })
                    }
                },
                1 => match res {
                    Ok(g) => {
                        let want = if below { FILL_L } else { FILL_R };
                        if g.to_bits() != want.to_bits() {
                            run.outcome(&(&site, "bad"));
                            run.violate(&format!("{}/wrong-fill", site), || desc(format!("got {:e}, want fill value {:e}", g, want)));
                        } else {
                            run.outcome(&(&site, "ok"));
                            run.regime(if below { "fill-below" } else { "fill-above" });
                        }
                    }
                    Err(p) => run.violate(&format!("{}/panic", site), || desc(format!("panicked: {}", p))),
                },
                _ => match res {
                    Ok(g) => {
                        let (a, b) = if below { (0, 1) } else { (n - 2, n - 1) };
                        let (v, tol) = line(x[a], y[a], x[b], y[b], t);
                        if !((g - v).abs() <= tol) {
                            run.outcome(&(&site, "bad"));
                            run.violate(&format!("{}/off-the-line", site), || desc(format!("got {:e}, extrapolated line value {:e} (tol {:e})", g, v, tol)));
                        } else {
                            run.outcome(&(&site, "ok"));
                            run.regime(if below { "extrapolate-below" } else { "extrapolate-above" });
                        }
                    }
                    Err(p) => run.violate(&format!("{}/panic", site), || desc(format!("panicked: {}", p))),
                },
            }
        }
    }
}

fn explore(run: &Run, x: &[f64], y: &[f64]) {
    let ts = targets(x);
    let (inr, out): (Vec<f64>, Vec<f64>) = ts.iter().partition(|&&t| !matches!(classify(x, t), Where::Below | Where::Above));
    for checked in [true, false] {
        for m in 0..3 {
            // in-range targets in one call
            run.case();
            run.tr();
            run.nontrivial(1);
            match call(checked, x, y, &inr, m) {
                Ok(v) if v.len() == inr.len() => {
                    for (t, g) in inr.iter().zip(v) {
                        judge_one(run, checked, m, x, y, *t, &Ok(g));
                    }
                }
                Ok(v) => run.violate("wrong-output-length", || format!("x={:?} targets={:?}: {} outputs", x, inr, v.len())),
                Err(p) => {
                    // find the offending target one by one
                    for &t in &inr {
                        run.tr();
                        let r = call(checked, x, y, &[t], m).map(|v| v.get(0).copied().unwrap_or(f64::NAN));
                        judge_one(run, checked, m, x, y, t, &r);
                    }
                    let _ = p;
                }
            }
            for &t in &out {
                run.case();
                run.tr();
                let r = call(checked, x, y, &[t], m).and_then(|v| if v.len() == 1 { Ok(v[0]) } else { Err(format!("returned {} values for one target", v.len())) });
                judge_one(run, checked, m, x, y, t, &r);
            }
        }
    }
}

pub fn run(run: &Run) {
    run.rule("every strictly increasing knot set of 2..=6 abscissae from {-4,-1,0,.5,1,3,10,1e6} × ordinate assignments over {-2,0,1,5} (all for ≤4 knots, patterned beyond) × targets {each knot, ±1 ulp, mid/quarter points, beyond both ends by 1 ulp / 1 / 1e6} × {Panic, Fill, Extrapolate} × {checked, unchecked}; knot sets with equal end steps and an uneven interior, zeros of either sign as knots and targets; regular and geometric grids of every length 2..=200; permutations and length mismatches must be rejected by the checked variant; every case is non-trivial");
    let mut sets: Vec<Vec<f64>> = Vec::new();
    for k in 2..=6 {
        combinations(LATTICE.len(), k, |c| sets.push(c.iter().map(|&i| LATTICE[i]).collect()));
    }
    run.bound("knot sets", format!("{} subsets of an 8-point lattice; grids of length 2..={}", sets.len(), run.tier.pick(200, 1200)));
    sets.par_iter().for_each(|x| {
        let n = x.len();
        if n <= 4 {
            let total = 4usize.pow(n as u32);
            for code in 0..total {
                let y: Vec<f64> = (0..n).map(|i| YS[(code / 4usize.pow(i as u32)) % 4]).collect();
                explore(run, x, &y);
            }
        } else {
            for pat in 0..6 {
                let y: Vec<f64> = (0..n).map(|i| YS[(i * (pat + 1) + pat) % 4] + if pat == 5 { 0.1 * i as f64 } else { 0.0 }).collect();
                explore(run, x, &y);
            }
        }
    });
    // knot sets that look evenly spaced from their ends (first step = last step = mean step) but are not,
    // and zeros of either sign as first / last / interior knots
    let special: Vec<Vec<f64>> = vec![
        vec![0.0, 1.0, 1.1, 1.2, 1.3, 5.0, 6.0],
        vec![0.0, 2.0, 2.5, 3.0, 9.5, 10.0, 12.0],
        vec![-3.0, -2.0, -1.75, 0.5, 0.75, 2.0, 3.0],
        vec![10.0, 10.5, 10.625, 12.0, 12.5],
        vec![0.0, 1.0, 1.5, 3.0, 4.0],
        vec![0.0, 1.0, 3.0],
        vec![-0.0, 1.0, 3.0],
        vec![-4.0, -1.0, 0.0],
        vec![-4.0, -1.0, -0.0],
        vec![-1.0, -0.0, 2.0],
    ];
    // the same sets on a microscopic axis: scaled by 2^-60 (exact) and by 1e-17 (knot spacing below machine epsilon in
    // absolute terms; the rule is scale-free)
    let mut special = special;
    for x in special.clone().iter().take(6).chain([vec![0.0, 3.0, 6.0, 12.0, 18.0], vec![1.0, 2.0, 4.0, 7.0]].iter()) {
        special.push(x.iter().map(|v| v * 2f64.powi(-60)).collect());
        let t: Vec<f64> = x.iter().map(|v| v * 1e-17).collect();
        if t.windows(2).all(|w| w[0] < w[1]) {
            special.push(t);
        }
    }
    special.par_iter().for_each(|x| {
        let n = x.len();
        for pat in 0..6 {
            let y: Vec<f64> = (0..n).map(|i| YS[(i * (pat + 1) + pat) % 4] + if pat >= 4 { 0.1 * i as f64 } else { 0.0 }).collect();
            explore(run, x, &y);
        }
        let yi: Vec<f64> = (0..n).map(|i| 10.0 * i as f64).collect();
        explore(run, x, &yi);
    });
    run.sample(|| format!("x={:?} y=[-2,5,0] targets={:?} × 3 modes × checked/unchecked", &sets[30], targets(&sets[30])));
    // grids of every length
    let maxlen = run.tier.pick(200usize, 1200usize);
    (2..=maxlen).into_par_iter().for_each(|n| {
        let reg: Vec<f64> = (0..n).map(|i| -2.0 + 0.25 * i as f64).collect();
        let y: Vec<f64> = (0..n).map(|i| ((i * i) % 7) as f64 - 3.0 + 0.5 * (i % 2) as f64).collect();
        explore(run, &reg, &y);
        if n <= 60 {
            let geo: Vec<f64> = (0..n).map(|i| 2f64.powi(i as i32 - 20)).collect();
            explore(run, &geo, &y);
        }
        let third: Vec<f64> = (0..n).map(|i| i as f64 / 3.0).collect();
        explore(run, &third, &y);
    });
    // batches: one call with many targets returns, position by position, what the one-target call returns
    // (those are judged above); an out-of-range target anywhere in a Panic-mode batch panics
    let batch_sizes: Vec<usize> = run.tier.pick(vec![1025, 4097, 65_537, 100_000, 100_001, 262_145], vec![1025, 4097, 65_537, 100_000, 100_001, 262_145, 1_048_577, 3_000_001]);
    let batch_sets: Vec<Vec<f64>> = vec![vec![0.0, 1.0, 3.0], special[0].clone(), (0..200).map(|i| -2.0 + 0.25 * i as f64).collect(), (0..33).map(|i| 2f64.powi(i - 16)).collect()];
    run.bound("batch sizes", format!("{:?} targets in one call on {} knot sets", batch_sizes, batch_sets.len()));
    batch_sets.par_iter().for_each(|x| {
        let n = x.len();
        let y: Vec<f64> = (0..n).map(|i| ((i * i) % 7) as f64 - 3.0 + 0.5 * (i % 2) as f64).collect();
        let ts = targets(x);
        let (inr, out): (Vec<f64>, Vec<f64>) = ts.iter().partition(|&&t| !matches!(classify(x, t), Where::Below | Where::Above));
        for checked in [true, false] {
            for m in 0..3 {
                let pool: Vec<f64> = if m == 0 { inr.clone() } else { ts.clone() };
                let singles: Vec<Result<f64, String>> = pool.iter().map(|&t| call(checked, x, &y, &[t], m).map(|v| v[0])).collect();
                for &b in &batch_sizes {
                    run.case();
                    run.tr();
                    run.ok();
                    run.nontrivial(1);
                    // every pool entry at many positions, the last knot at the very end as well
                    let idx = |i: usize| if i + 1 == b { pool.iter().position(|t| *t == x[n - 1]).unwrap() } else { (i * 7 + i / pool.len()) % pool.len() };
                    let batch: Vec<f64> = (0..b).map(|i| pool[idx(i)]).collect();
                    match call(checked, x, &y, &batch, m) {
                        Ok(v) if v.len() == b => {
                            if let Some(i) = (0..b).find(|&i| match &singles[idx(i)] {
                                Ok(w) => v[i].to_bits() != w.to_bits(),
                                Err(_) => true,
                            }) {
                                run.violate(&format!("batch/{}/differs-from-single-call", MODES[m]), || format!("{} knots, {} targets, mode {} {}: output #{} for target {:e} is {:e}, the one-target call gives {:?}", n, b, MODES[m], if checked { "checked" } else { "unchecked" }, i, batch[i], v[i], singles[idx(i)]));
                            }
                            run.outcome(&("batch", m, "ok"));
                        }
                        Ok(v) => run.violate("wrong-output-length", || format!("{} targets: {} outputs", b, v.len())),
                        Err(p) => run.violate(&format!("batch/{}/panic", MODES[m]), || format!("{} knots, {} in-range targets, mode {} {}: {}", n, b, MODES[m], if checked { "checked" } else { "unchecked" }, p)),
                    }
                    if m == 0 && b <= 262_145 {
                        for (k, &o) in out.iter().enumerate() {
                            let mut bad = batch.clone();
                            let at = (k * 7919 + b / 2) % b;
                            bad[at] = o;
                            run.tr();
                            if call(checked, x, &y, &bad, 0).is_ok() {
                                run.violate("batch/Panic/out-of-range-accepted", || format!("{} knots, {} targets with {:e} at #{}: no panic", n, b, o, at));
                            }
                        }
                    }
                }
            }
        }
    });
    // a descent of one or two ulps anywhere in the abscissae is still unsorted
    for base in [vec![0.5, 1.3, 2.9, 7.7], vec![-1e6, -3.0, 1e-3, 2.0, 5e8], (0..40).map(|i| 0.1 * i as f64 + 1.0).collect::<Vec<f64>>(), vec![1e-300, 2e-300, 5e-300], vec![1e300, 2e300, 4e300]] {
        let n = base.len();
        let y: Vec<f64> = (0..n + 1).map(|i| i as f64).collect();
        for pos in 1..n {
            for ulps in [1u64, 2, 5] {
                let mut x = base.clone();
                // insert a knot that lies `ulps` below its left neighbour
                let left = x[pos - 1];
                let lower = f64::from_bits(if left > 0.0 { left.to_bits() - ulps } else { left.to_bits() + ulps });
                x.insert(pos, lower);
                for m in 0..3 {
                    run.case();
                    run.tr();
                    run.ok();
                    run.nontrivial(1);
                    let t = [0.5 * (base[0] + base[1])];
                    match call(true, &x, &y, &t, m) {
                        Ok(v) => run.violate("checked/unsorted-accepted", || format!("abscissae {:?} (knot {} lies {} ulp below knot {}) accepted in mode {}: {:?}", x, pos, ulps, pos - 1, MODES[m], v)),
                        Err(_) => run.regime("checked: ulp-sized descent rejected"),
                    }
                }
            }
        }
    }
    // fill values that are themselves infinite or NaN (log-density tables filled with -inf): the fill mode returns
    // the left or the right one, as it is
    for (fl, fr) in [(f64::NEG_INFINITY, f64::NEG_INFINITY), (f64::NAN, 0.0), (1.0, f64::INFINITY), (f64::INFINITY, -2.5), (0.0, f64::NAN), (f64::NAN, f64::NAN)] {
        for x in [vec![0.0, 1.0, 3.0], vec![-2.0, -1.0, 0.5, 4.0, 9.0], (0..50).map(|i| i as f64 * 0.5).collect::<Vec<f64>>()] {
            let n = x.len();
            let y: Vec<f64> = (0..n).map(|i| ((i * i) % 7) as f64 - 3.0).collect();
            for checked in [true, false] {
                let ts = [x[0] - 1.0, x[0] - 1e-9, x[n - 1] + 1e-9, x[n - 1] + 100.0, x[0], x[n - 1], 0.5 * (x[0] + x[1])];
                run.case();
                run.tr();
                run.ok();
                run.nontrivial(1);
                let r = guard(|| if checked { interp1d_linear(&x, &y, &ts, ExtrapolationMode::Fill(fl, fr)).v.clone() } else { interp1d_linear_unchecked(&x, &y, &ts, ExtrapolationMode::Fill(fl, fr)).v.clone() });
                let same = |a: f64, b: f64| a.to_bits() == b.to_bits() || (a.is_nan() && b.is_nan());
                match r {
                    Ok(v) if v.len() == ts.len() => {
                        let want = [fl, fl, fr, fr, y[0], y[n - 1], 0.5 * (y[0] + y[1])];
                        if let Some(i) = (0..ts.len()).find(|&i| !same(v[i], want[i]) && !(i == 6 && (v[i] - want[i]).abs() <= 1e-12)) {
                            run.violate("Fill/non-finite-fill-values", || format!("{} knots, Fill({:e}, {:e}), {}: target {:e} gives {:e}, expected {:e}", n, fl, fr, if checked { "checked" } else { "unchecked" }, ts[i], v[i], want[i]));
                        } else {
                            run.regime("non-finite-fill-values");
                        }
                    }
                    Ok(v) => run.violate("wrong-output-length", || format!("{} outputs for {} targets", v.len(), ts.len())),
                    Err(p) => run.violate("Fill/panic", || format!("Fill({:e}, {:e}): {}", fl, fr, p)),
                }
            }
        }
    }
    // rejection: permutations of 3- and 4-knot sets
    for k in [3usize, 4] {
        let base: Vec<f64> = LATTICE[1..1 + k].to_vec();
        let y: Vec<f64> = (0..k).map(|i| YS[i % 4]).collect();
        permutations(k, |p| {
            let x: Vec<f64> = p.iter().map(|&i| base[i]).collect();
            let ascending = x.windows(2).all(|w| w[0] < w[1]);
            run.case();
            run.tr();
            run.ok();
            run.nontrivial(1);
            let t = [0.5 * (base[0] + base[1])];
            let r = call(true, &x, &y, &t, 2);
            match (ascending, r) {
                (true, Err(p)) => run.violate("checked/ascending-rejected", || format!("x={:?}: panicked: {}", x, p)),
                (false, Ok(v)) => {
                    run.outcome(&("unsorted", "accepted"));
                    run.violate("checked/unsorted-accepted", || format!("x={:?} (not ascending) accepted, returned {:?}", x, v))
                }
                (false, Err(_)) => {
                    run.outcome(&("unsorted", "rejected"));
                    run.regime("unsorted-rejected")
                }
                _ => run.outcome(&("sorted", "accepted")),
            }
        });
    }
    for nx in 1..=5usize {
        for ny in 1..=5usize {
            if nx == ny {
                continue;
            }
            let x: Vec<f64> = (0..nx).map(|i| i as f64).collect();
            let y: Vec<f64> = (0..ny).map(|i| i as f64).collect();
            for checked in [true, false] {
                run.case();
                run.tr();
                run.ok();
                run.nontrivial(1);
                match call(checked, &x, &y, &[0.5], 2) {
                    Ok(v) => run.violate(&format!("{}/length-mismatch-accepted", if checked { "checked" } else { "unchecked" }), || format!("{} abscissae, {} ordinates: returned {:?}", nx, ny, v)),
                    Err(_) => run.regime("mismatch-rejected"),
                }
            }
        }
    }
    for r in ["knot-exact", "inside-on-line", "panic-below", "fill-below", "extrapolate-below", "extrapolate-above", "unsorted-rejected", "mismatch-rejected"] {
        run.require_regime(r);
    }
    run.assume("reference line evaluated in double-double on the f64 inputs; tolerance 16u(|ya|+|yb|)·max(1,|ratio|)");
    run.assume("a target equal to the first or last abscissa counts as inside the range (knot)");
}
