//! C17 — statistical transforms and combinatorics satisfy their defining identities.
//! Engine E3: f32 lattice sweeps in increasing order (logistic monotonicity on consecutive
//! points), all small softmax vectors over an extreme-value alphabet, a Box–Cox parameter lattice
//! and all (n,k) for the binomial coefficient against a u128 Pascal triangle.
use crate::common::enumerate::par_words;
use crate::common::refmath::{c_expm1, c_log1p, U};
use crate::common::{guard, Run};
use compute::functions::{binom_coeff, binom_coeff_alt, boxcox, boxcox_shifted, logistic, logit, softmax};
use rayon::prelude::*;

fn logistic_block(run: &Run, start: u32, end: u32, neg: bool, stride: u32) -> u64 {
    // consecutive lattice points in increasing |x|; for negative x the function must be
    // non-increasing in |x|
    let mut prev: Option<(f64, f64)> = if start > 0 {
        let v = f32::from_bits(start - 1) as f64;
        let v = if neg { -v } else { v };
        Some((v, logistic(v)))
    } else {
        None
    };
    let mut n = 0u64;
    let mut b = start;
    while b <= end {
        let x = f32::from_bits(b) as f64;
        let x = if neg { -x } else { x };
        let y = logistic(x);
        n += 1;
        if !(0.0..=1.0).contains(&y) {
            run.violate("logistic/range", || format!("logistic({:e}) = {:e} outside [0,1]", x, y));
        }
        if let Some((px, py)) = prev {
            let bad = if neg { y > py } else { y < py };
            if bad && stride == 1 {
                run.violate("logistic/monotone", || format!("logistic({:e}) = {:e} but logistic({:e}) = {:e}", px, py, x, y));
            } else if bad {
                run.violate("logistic/monotone", || format!("logistic({:e}) = {:e} but logistic({:e}) = {:e} (strided)", px, py, x, y));
            }
        }
        let m = logistic(-x);
        if !((m - (1.0 - y)).abs() <= 4.0 * U) {
            run.violate("logistic/reflection", || format!("logistic(-{:e}) = {:e} but 1 - logistic(x) = {:e}", x, m, 1.0 - y));
        }
        prev = Some((x, y));
        b = match b.checked_add(stride) {
            Some(v) => v,
            None => break,
        };
    }
    n
}

fn softmax_props(run: &Run, x: &[f64], tag: &str) {
    run.case();
    run.tr();
    run.ok();
    let n = x.len();
    let big = x.iter().any(|v| v.abs() > 700.0);
    let cls = if big { "large-magnitude" } else { "moderate" };
    match guard(|| softmax(x)) {
        Err(p) => run.violate(&format!("softmax/{}/panic", cls), || format!("{} softmax({:?}) panicked: {}", tag, short(x), p)),
        Ok(s) => {
            if s.len() != n {
                run.violate("softmax/length", || format!("{} softmax of {} values returned {}", tag, n, s.len()));
                return;
            }
            if s.iter().any(|v| !v.is_finite() || *v < 0.0) {
                run.outcome(&("softmax", cls, "nonfinite"));
                run.violate(&format!("softmax/{}/non-finite-or-negative", cls), || format!("{} softmax({:?}) = {:?}", tag, short(x), short(&s)));
                return;
            }
            let sum: f64 = s.iter().sum();
            if !((sum - 1.0).abs() <= (n as f64 + 2.0) * 2.0 * U) {
                run.violate(&format!("softmax/{}/sum", cls), || format!("{} softmax({:?}) sums to {:e}", tag, short(x), sum));
            }
            for i in 0..n {
                for j in 0..n {
                    if (x[i] < x[j] && s[i] > s[j]) || (x[i] == x[j] && s[i] != s[j]) {
                        run.violate(&format!("softmax/{}/order", cls), || format!("{} x[{}]={:e} x[{}]={:e} but s={:e},{:e}", tag, i, x[i], j, x[j], s[i], s[j]));
                    }
                }
            }
            // reference: exp(x - max)/Σ
            let m = x.iter().cloned().fold(f64::NEG_INFINITY, f64::max);
            let e: Vec<f64> = x.iter().map(|v| (v - m).exp()).collect();
            let t: f64 = e.iter().sum();
            for i in 0..n {
                let w = e[i] / t;
                if !((s[i] - w).abs() <= 8.0 * (n as f64 + 4.0) * U * w + 1e-300) {
                    run.violate(&format!("softmax/{}/value", cls), || format!("{} softmax({:?})[{}] = {:e}, want {:e}", tag, short(x), i, s[i], w));
                    break;
                }
            }
            run.outcome(&("softmax", cls, "ok", n.min(8)));
            run.regime(&format!("softmax-{}", cls));
            // shift invariance
            for &c in &[1.0, -1.0, 700.0, -700.0] {
                let xs: Vec<f64> = x.iter().map(|v| v + c).collect();
                run.tr();
                if let Ok(s2) = guard(|| softmax(&xs)) {
                    let scale = 8.0 * U * (2.0 + c.abs() + x.iter().fold(0.0f64, |a, b| a.max(b.abs())));
                    for i in 0..n {
                        if !((s2[i] - s[i]).abs() <= scale * s[i].max(s2[i]) + 1e-290) {
                            run.violate(&format!("softmax/{}/shift-invariance", cls), || format!("{} softmax({:?})[{}] = {:e} but after adding {} it is {:e}", tag, short(x), i, s[i], c, s2[i]));
                            break;
                        }
                    }
                } else {
                    run.violate(&format!("softmax/{}/panic", cls), || format!("{} softmax({:?} + {}) panicked", tag, short(x), c));
                }
            }
        }
    }
}
fn short(x: &[f64]) -> Vec<f64> {
    x.iter().cloned().take(8).collect()
}

/// ln q − ln(1−q) through glibc's log/log1p (1−q is exact for q ≥ 1/2)
fn logit_ref(q: f64) -> f64 {
    if q >= 0.5 {
        c_log1p(-(1.0 - q)) - (1.0 - q).ln()
    } else {
        q.ln() - c_log1p(-q)
    }
}

pub fn run(run: &Run) {
    run.rule("logistic: f32 lattice in ±745 in increasing order (every point thorough, every 16th quick), range, reflection and monotonicity on consecutive points; logistic∘logit on an f32 lattice of [0,1] and logit∘logistic on an f32 lattice of [-700,20], rejection outside; softmax: every vector of length 1..=5 over {-1e4,-745,-1,0,1,709,710,1e4} plus shifts and structured vectors up to length 1000; Box–Cox lattice x × λ (incl. |λ|<1e-8) × shifts; binom_coeff on all 0≤k≤n≤67 and all n≤4000,k≤32 with C(n,k)<2^64 against a u128 Pascal triangle; every case distinct and non-trivial");
    let stride: u32 = if run.thorough() { 1 } else { 16 };
    let offset = (run.seed % stride as u64) as u32;
    if !run.thorough() {
        run.not_exhaustive();
    }
    run.bound("f32 stride", format!("{} (offset {})", stride, offset));
    // ---- logistic ----------------------------------------------------------------------------
    let top = 745.0f32.to_bits();
    let blocks: Vec<u32> = (0..=top).step_by(1 << 16).collect();
    for neg in [false, true] {
        blocks.par_iter().for_each(|&b0| {
            let end = b0.saturating_add((1 << 16) - 1).min(top);
            let first = b0 + (offset.wrapping_sub(b0) % stride);
            let n = logistic_block(run, first, end, neg, stride);
            run.cases(n);
            run.trs(2 * n);
            run.oks(n);
            run.nontrivial(n);
        });
    }
    run.outcome(&"logistic-sweep");
    run.sample(|| format!("logistic(0.5) = {:e}, logistic(-745) = {:e}, logistic(745) = {:e}", logistic(0.5), logistic(-745.0), logistic(745.0)));
    // ---- logit -------------------------------------------------------------------------------
    let one = 1.0f32.to_bits();
    let pblocks: Vec<u32> = (0..=one).step_by(1 << 16).collect();
    let pstride = stride.max(4);
    pblocks.par_iter().for_each(|&b0| {
        let end = b0.saturating_add((1 << 16) - 1).min(one);
        let mut b = b0 + (offset.wrapping_sub(b0) % pstride);
        let mut n = 0u64;
        while b <= end {
            let p = f32::from_bits(b) as f64;
            for q in [p, 1.0 - p] {
                // the inverse of the logistic function is ln q − ln(1−q): value against an independent evaluation
                if q > 0.0 && q < 1.0 {
                    let want = logit_ref(q);
                    match guard(|| logit(q)) {
                        Ok(g) if (g - want).abs() <= 1e-13 * want.abs().max(1.0) => {}
                        Ok(g) => run.violate("logit/value", || format!("logit({:e}) = {:e}, ln q - ln(1-q) = {:e}", q, g, want)),
                        Err(_) => {}
                    }
                }
                match guard(|| logistic(logit(q))) {
                    Ok(r) => {
                        if !((r - q).abs() <= 4.0 * U) {
                            run.violate("logit/inverse", || format!("logistic(logit({:e})) = {:e}", q, r));
                        }
                    }
                    Err(e) => run.violate("logit/panic-in-domain", || format!("logit({:e}) panicked: {}", q, e)),
                }
                n += 1;
            }
            b += pstride;
        }
        run.cases(n);
        run.trs(n);
        run.oks(n);
        run.nontrivial(n);
    });
    // towards both ends on a geometric lattice: q = t and q = 1 − t for t = m·10^−k and powers of two down to 2^−53
    {
        let mut ts: Vec<f64> = Vec::new();
        for k in 1..=300 {
            for &m in &[1.0, 2.5, 7.0] {
                ts.push(m * 10f64.powi(-k));
            }
        }
        for k in 1..=1074 {
            ts.push(2f64.powi(-k));
            ts.push(3.0 * 2f64.powi(-k - 2));
        }
        for &t in &ts {
            for q in [t, 1.0 - t] {
                if !(q > 0.0 && q < 1.0) {
                    continue;
                }
                run.case();
                run.tr();
                run.ok();
                run.nontrivial(1);
                let want = logit_ref(q);
                match guard(|| logit(q)) {
                    Ok(g) if (g - want).abs() <= 1e-13 * want.abs().max(1.0) => run.regime("logit-value-tails"),
                    Ok(g) => run.violate("logit/value", || format!("logit({:e}) [1 - q = {:e}] = {:e}, ln q - ln(1-q) = {:e}", q, 1.0 - q, g, want)),
                    Err(e) => run.violate("logit/panic-in-domain", || format!("logit({:e}) panicked: {}", q, e)),
                }
            }
        }
    }
    // the other composition: logit(logistic(x)) = x wherever logistic(x) is representable away from
    // 0 and 1 — all the way down the lower tail (logistic(x) ≈ e^x is an ordinary f64 to x = -708),
    // and up to x = 20 (beyond, 1 - logistic(x) is lost to rounding: allowance 8u·e^x)
    {
        let lo = 20.0f32.to_bits();
        let hi = 700.0f32.to_bits();
        let tiny = 1e-6f32.to_bits();
        let blocks: Vec<(u32, u32, bool)> = (tiny..=hi).step_by(1 << 16).map(|b| (b, hi, true)).chain((tiny..=lo).step_by(1 << 16).map(|b| (b, lo, false))).collect();
        blocks.par_iter().for_each(|&(b0, top, neg)| {
            let end = b0.saturating_add((1 << 16) - 1).min(top);
            let mut b = b0 + (offset.wrapping_sub(b0) % pstride);
            let mut n = 0u64;
            while b <= end {
                let x = if neg { -(f32::from_bits(b) as f64) } else { f32::from_bits(b) as f64 };
                match guard(|| logit(logistic(x))) {
                    Ok(r) => {
                        let tol = 1e-13 * x.abs().max(1.0) + 8.0 * U * x.exp();
                        if !((r - x).abs() <= tol) {
                            run.violate("logit/does-not-invert-logistic", || format!("logit(logistic({:e})) = {:e} (logistic = {:e})", x, r, logistic(x)));
                        }
                    }
                    Err(e) => run.violate("logit/panic-in-domain", || format!("logit(logistic({:e})) panicked: {}", x, e)),
                }
                n += 1;
                b += pstride;
            }
            run.cases(n);
            run.trs(2 * n);
            run.oks(n);
            run.nontrivial(n);
        });
    }
    for &p in &[-1e-300, -0.5, -1.0, 1.0 + 2.3e-16, 1.5, 1e300, f64::NAN, f64::INFINITY, f64::NEG_INFINITY, -5e-324] {
        run.case();
        run.tr();
        run.ok();
        match guard(|| logit(p)) {
            Ok(v) => run.violate("logit/accepts-outside-domain", || format!("logit({:e}) returned {:e}", p, v)),
            Err(_) => {
                run.outcome(&"logit-rejects");
                run.regime("logit-rejects")
            }
        }
    }
    // ---- softmax -----------------------------------------------------------------------------
    let al = [-1e4, -745.0, -1.0, 0.0, 1.0, 709.0, 710.0, 1e4];
    for n in 1..=5usize {
        par_words(8, n, |w| {
            let x: Vec<f64> = w.iter().map(|&i| al[i]).collect();
            softmax_props(run, &x, "alphabet");
            run.nontrivial(1);
        });
    }
    let lens: Vec<usize> = if run.thorough() { (6..=1000).collect() } else { (6..=64).chain([100, 255, 256, 1000]).collect() };
    lens.par_iter().for_each(|&n| {
        for &(sc, sh) in &[(1.0, 0.0), (0.01, 5.0), (100.0, 0.0), (1.0, 1e4), (1.0, -1e4), (20.0, 0.0)] {
            let x: Vec<f64> = (0..n).map(|i| ((i * 37) % 101) as f64 * sc - 50.0 * sc + sh).collect();
            softmax_props(run, &x, "structured");
        }
        run.nontrivial(1);
    });
    run.sample(|| "softmax([1000, 1000]) must be [0.5, 0.5]; softmax([710, -745, 1e4])".to_string());
    // ---- Box–Cox -----------------------------------------------------------------------------
    let mut xs = Vec::new();
    for j in 0..=48 {
        xs.push(1e-6 * 10f64.powf(j as f64 / 4.0));
    }
    // arguments next to 1, where x^λ − 1 cancels for every λ (the value is small, not its accuracy)
    for d in [1.1102230246251565e-16, 2.220446049250313e-16, 1e-12, 1e-9, 1e-6, 1e-4, 1e-2] {
        xs.push(1.0 + d);
        xs.push(1.0 - d);
    }
    let lams: [f64; 17] = [0.0, 1e-12, -1e-12, 1e-9, -1e-9, 1e-4, -1e-4, 0.5, -0.5, 1.0, -1.0, 2.0, -2.0, 5.0, -5.0, 0.3, -3.3];
    let shifts: [f64; 6] = [-0.5, 0.0, 0.5, 10.0, -3.0, 1.0];
    let bc_ref = |x: f64, lam: f64| -> f64 {
        if lam == 0.0 {
            x.ln()
        } else {
            c_expm1(lam * x.ln()) / lam
        }
    };
    for &lam in &lams {
        let lcls = if lam == 0.0 { "lambda=0" } else if lam.abs() < 1e-8 { "|lambda|<1e-8" } else { "lambda" };
        for &x in &xs {
            run.case();
            run.tr();
            run.ok();
            run.nontrivial(1);
            let want = bc_ref(x, lam);
            // eight digits, relative to the value (which is small next to x = 1)
            let tol = 1e-9 * want.abs() + 1e-300;
            match guard(|| boxcox(x, lam)) {
                Ok(g) => {
                    if !((g - want).abs() <= tol) {
                        run.outcome(&("boxcox", lcls, "bad"));
                        run.violate(&format!("boxcox/{}", lcls), || format!("boxcox({:e}, {:e}) = {:e}, want {:e}", x, lam, g, want));
                    } else {
                        run.outcome(&("boxcox", lcls, "ok"));
                    }
                }
                Err(p) => run.violate(&format!("boxcox/{}/panic", lcls), || format!("boxcox({:e}, {:e}) panicked: {}", x, lam, p)),
            }
            for &sh in &shifts {
                for xv in [x, -x, x - sh] {
                    run.case();
                    run.tr();
                    run.ok();
                    let in_domain = xv + sh > 0.0;
                    let dcls = if in_domain && xv <= sh { "in-domain,x<=shift" } else if in_domain { "in-domain" } else if xv > sh { "outside,x>shift" } else { "outside" };
                    match (in_domain, guard(|| boxcox_shifted(xv, lam, sh))) {
                        (true, Ok(g)) => {
                            let want = bc_ref(xv + sh, lam);
                            let tol = 1e-9 * want.abs() + 1e-300;
                            if !((g - want).abs() <= tol) {
                                run.violate(&format!("boxcox_shifted/{}/value", lcls), || format!("boxcox_shifted({:e}, {:e}, {}) = {:e}, want {:e}", xv, lam, sh, g, want));
                            } else {
                                run.outcome(&("bcs", dcls, lcls));
                                run.regime(&format!("boxcox_shifted:{}", dcls));
                            }
                        }
                        (true, Err(p)) => {
                            run.outcome(&("bcs", dcls, "rejected"));
                            run.violate(&format!("boxcox_shifted/rejects-domain/{}", dcls), || format!("boxcox_shifted({:e}, {:e}, {}) with x+shift = {:e} > 0 panicked: {}", xv, lam, sh, xv + sh, p))
                        }
                        (false, Ok(g)) => {
                            // outside the stated domain: a finite value is a wrong answer
                            if g.is_finite() {
                                run.violate(&format!("boxcox_shifted/accepts-outside-domain/{}", dcls), || format!("boxcox_shifted({:e}, {:e}, {}) with x+shift = {:e} <= 0 returned {:e}", xv, lam, sh, xv + sh, g));
                            }
                            run.outcome(&("bcs", dcls, "value"));
                        }
                        (false, Err(_)) => {
                            run.outcome(&("bcs", dcls, "rejected"));
                            run.regime("boxcox_shifted:outside-rejected");
                        }
                    }
                }
            }
        }
    }
    for &x in &[0.0, -1.0, -1e-300] {
        run.case();
        run.tr();
        run.ok();
        if let Ok(g) = guard(|| boxcox(x, 0.5)) {
            if g.is_finite() {
                run.violate("boxcox/accepts-outside-domain", || format!("boxcox({:e}, 0.5) = {:e}", x, g));
            }
        }
    }
    // ---- binomial coefficient ----------------------------------------------------------------
    // Pascal triangle in u128 (saturating far above 2^64)
    let nmax = 4000usize;
    let kmax = 33usize;
    let cap: u128 = 1u128 << 100;
    let mut row: Vec<u128> = vec![1];
    let mut tri: Vec<Vec<u128>> = Vec::with_capacity(nmax + 1);
    for n in 0..=nmax {
        if n > 0 {
            let mut next = vec![1u128; (n + 1).min(if n <= 67 { n + 1 } else { kmax + 1 })];
            for k in 1..next.len() {
                let a = row.get(k - 1).copied().unwrap_or(0);
                let b = if k < row.len() { row[k] } else if k == n { 0 } else { cap };
                next[k] = (a + b).min(cap);
            }
            if n <= 67 {
                next[n] = 1;
            }
            row = next;
        }
        tri.push(row.clone());
    }
    let full = |n: usize, k: usize| -> Option<u128> {
        // exact C(n,k) if known to the table
        if k > n {
            return None;
        }
        if n <= 67 {
            Some(tri[n][k])
        } else {
            let kk = k.min(n - k);
            if kk < tri[n].len() {
                Some(tri[n][kk])
            } else {
                None
            }
        }
    };
    let judge_binom = |n: usize, k: usize| {
        let want = match full(n, k) {
            Some(w) if w < (1u128 << 64) => w as u64,
            _ => return,
        };
        run.case();
        run.tr();
        run.ok();
        run.nontrivial(1);
        let cls = if n <= 67 { "n<=67" } else { "n>67" };
        match guard(|| binom_coeff(n as u64, k as u64)) {
            Ok(g) => {
                if g != want {
                    run.outcome(&("binom", cls, "bad"));
                    run.violate(&format!("binom_coeff/{}/wrong", cls), || format!("binom_coeff({}, {}) = {}, exact {}", n, k, g, want));
                } else {
                    run.outcome(&("binom", cls, "ok"));
                }
            }
            Err(p) => {
                run.outcome(&("binom", cls, "panic"));
                run.violate(&format!("binom_coeff/{}/panic", cls), || format!("binom_coeff({}, {}) (exact {}) panicked: {}", n, k, want, p))
            }
        }
    };
    // Box-Cox with a shift that nearly cancels x: y = x + shift is tiny but exactly representable (the difference of
    // two nearby floats is exact), and the transform is that of y
    for &x in &[0.375, 2.5, 1e3, 1.0, 7.25e-3] {
        let ts: Vec<f64> = (20..=60).step_by(4).map(|k| 2f64.powi(-k) * x).chain([1e-12 * x, 3.0 * 2f64.powi(-54) * x, 1e-9 * x, 1e-6 * x]).collect();
        for &t in &ts {
            let sh = -x + t;
            let y = x + sh;
            if !(y > 0.0) {
                continue;
            }
            for &lam in &[0.0, 1e-9, 0.5, -0.5, -2.0, 1.0, 2.0] {
                run.case();
                run.tr();
                run.ok();
                run.nontrivial(1);
                let want = bc_ref(y, lam);
                match guard(|| boxcox_shifted(x, lam, sh)) {
                    Ok(g) if (g - want).abs() <= 1e-9 * want.abs() + 1e-300 => run.regime("boxcox_shifted:nearly-cancelling-shift"),
                    Ok(g) => run.violate("boxcox_shifted/nearly-cancelling-shift", || format!("boxcox_shifted({:e}, {:e}, {:e}) with x + shift = {:e}: got {:e}, want {:e}", x, lam, sh, y, g, want)),
                    Err(p) => run.violate("boxcox_shifted/rejects-domain/nearly-cancelling-shift", || format!("boxcox_shifted({:e}, {:e}, {:e}) with x + shift = {:e} > 0 panicked: {}", x, lam, sh, y, p)),
                }
            }
        }
    }
    // call history: a call whose value does not fit (it may return anything or panic) followed by fitting calls on
    // other rows; rows visited in descending and interleaved order
    for &(bn, bk) in &[(70u64, 35u64), (100, 50), (68, 34), (80, 40), (1000, 500), (67, 33)] {
        let _ = guard(|| binom_coeff(bn, bk));
        for &(n, k) in &[(50usize, 1usize), (50, 25), (67, 33), (10, 3), (1000, 3), (4000, 2), (66, 30), (5, 5), (5, 0)] {
            judge_binom(n, k);
        }
        // a row, the non-fitting call, the same row again
        for &n in &[50usize, 10, 67, 1000, 30, 2] {
            judge_binom(n, 2.min(n));
            let _ = guard(|| binom_coeff(bn, bk));
            for k in [0usize, 1, 2, 3, n / 2, n - 1, n] {
                if k <= n {
                    judge_binom(n, k);
                }
            }
        }
        run.regime("binom-after-non-fitting-call");
    }
    for n in (0..=67).rev() {
        for k in [0, n / 3, n / 2, n] {
            judge_binom(n, k);
            judge_binom(67 - n, (67 - n) / 2);
        }
    }
    for n in 0..=67 {
        for k in 0..=n {
            judge_binom(n, k);
            if n <= 45 {
                run.tr();
                match guard(|| binom_coeff_alt(n as u64, k as u64)) {
                    Ok(g) if g as u128 == tri[n][k] => {}
                    Ok(g) => run.violate("binom_coeff_alt/n<=45", || format!("binom_coeff_alt({}, {}) = {}, exact {}", n, k, g, tri[n][k])),
                    Err(p) => run.violate("binom_coeff_alt/panic", || format!("binom_coeff_alt({}, {}): {}", n, k, p)),
                }
            }
        }
    }
    let nlist: Vec<usize> = (68..=nmax).collect();
    nlist.par_iter().for_each(|&n| {
        for k in 0..=32usize.min(n) {
            judge_binom(n, k);
            judge_binom(n, n - k);
        }
    });
    run.bound("binomial", "all 0<=k<=n<=67; all 68<=n<=4000 with k or n-k <= 32 and C(n,k) < 2^64");
    for r in ["logit-rejects", "softmax-large-magnitude", "softmax-moderate", "boxcox_shifted:in-domain", "boxcox_shifted:outside-rejected"] {
        run.require_regime(r);
    }
    run.assume("Box–Cox reference expm1(λ ln x)/λ with tolerance 1e-9·max(1,|value|): rounding-level agreement is not demanded, an 8-digit loss for |λ|<1e-8 is");
    run.assume("softmax order preservation is non-strict (ties where exp underflows or rounds equal)");
}
