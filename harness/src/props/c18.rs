//! C18 — distributions are a pure function of current parameters and the RNG seed.
//! Engine E2: one explicit-state search per univariate law over its complete mutation API
//! (every setter and `update`, arguments from a finite lattice mixing valid values on both
//! sides of the current ones, boundary and invalid values). The lattice is finite, so the
//! search runs to closure. Model = the parameter tuple; validity = what the constructor accepts.
//! State invariant: the object is observationally identical to a freshly constructed twin
//! (density/mass on a lattice, mean, variance, seeded sample streams).
use crate::common::seqx::{explore, explore_stateright, Seq};
use crate::common::{guard, Run};
use compute::distributions::*;
use std::hash::{Hash, Hasher};
use std::sync::Arc;

const SEEDS: [u64; 3] = [1, 42, (1u64 << 63) + 5];
const NSAMP: usize = 16;
/// thorough tier: 50 seeds x 32 samples per observation, denser parameter lattices
static THOROUGH: std::sync::atomic::AtomicBool = std::sync::atomic::AtomicBool::new(false);
fn thorough() -> bool {
    THOROUGH.load(std::sync::atomic::Ordering::Relaxed)
}
fn seeds() -> Vec<u64> {
    if thorough() {
        (0..50u64).map(|k| if k < 3 { SEEDS[k as usize] } else { k.wrapping_mul(0x9E37_79B9_7F4A_7C15) | 1 }).collect()
    } else {
        SEEDS.to_vec()
    }
}
fn nsamp() -> usize {
    if thorough() {
        32
    } else {
        NSAMP
    }
}
const NAN: f64 = f64::NAN;

pub trait DObj: Send + Sync {
    fn set(&mut self, i: usize, v: f64);
    fn upd(&mut self, p: &[f64]);
    fn density(&self, x: f64) -> f64;
    /// log-density (continuous laws; discrete laws have no such method and return a constant)
    fn ln_density(&self, x: f64) -> f64;
    fn mean_var(&self) -> (f64, f64);
    fn draw(&self) -> f64;
    fn draw_n(&self, n: usize) -> Vec<f64>;
    fn dbg(&self) -> String;
    fn boxed(&self) -> Box<dyn DObj>;
}

macro_rules! dobj {
    ($t:ty, cont, [$($i:tt => $setter:ident as $cast:ty),*]) => {
        impl DObj for $t {
            fn set(&mut self, i: usize, v: f64) { match i { $($i => { self.$setter(v as $cast); })* _ => unreachable!() } }
            fn upd(&mut self, p: &[f64]) { Distribution1D::update(self, p) }
            fn density(&self, x: f64) -> f64 { self.pdf(x) }
            fn ln_density(&self, x: f64) -> f64 { self.ln_pdf(x) }
            fn mean_var(&self) -> (f64, f64) { (self.mean(), self.var()) }
            fn draw(&self) -> f64 { self.sample() }
            fn draw_n(&self, n: usize) -> Vec<f64> { self.sample_n(n).to_vec() }
            fn dbg(&self) -> String { format!("{:?}", self) }
            fn boxed(&self) -> Box<dyn DObj> { Box::new(*self) }
        }
    };
    ($t:ty, disc, [$($i:tt => $setter:ident as $cast:ty),*]) => {
        impl DObj for $t {
            fn set(&mut self, i: usize, v: f64) { match i { $($i => { self.$setter(v as $cast); })* _ => unreachable!() } }
            fn upd(&mut self, p: &[f64]) { Distribution1D::update(self, p) }
            fn density(&self, x: f64) -> f64 { self.pmf(x as i64) }
            fn ln_density(&self, _x: f64) -> f64 { 0.0 }
            fn mean_var(&self) -> (f64, f64) { (self.mean(), self.var()) }
            fn draw(&self) -> f64 { self.sample() }
            fn draw_n(&self, n: usize) -> Vec<f64> { self.sample_n(n).to_vec() }
            fn dbg(&self) -> String { format!("{:?}", self) }
            fn boxed(&self) -> Box<dyn DObj> { Box::new(*self) }
        }
    };
}
dobj!(Normal, cont, [0 => set_mu as f64, 1 => set_sigma as f64]);
dobj!(Gamma, cont, [0 => set_alpha as f64, 1 => set_beta as f64]);
dobj!(Beta, cont, [0 => set_alpha as f64, 1 => set_beta as f64]);
dobj!(ChiSquared, cont, [0 => set_dof as usize]);
dobj!(T, cont, [0 => set_dof as f64]);
dobj!(Pareto, cont, [0 => set_alpha as f64, 1 => set_minval as f64]);
dobj!(Gumbel, cont, [0 => set_mu as f64, 1 => set_beta as f64]);
dobj!(Exponential, cont, [0 => set_lambda as f64]);
dobj!(Uniform, cont, [0 => set_lower as f64, 1 => set_upper as f64]);
dobj!(Poisson, disc, [0 => set_lambda as f64]);
dobj!(Binomial, disc, [0 => set_n as u64, 1 => set_p as f64]);
dobj!(Bernoulli, disc, [0 => set_p as f64]);
dobj!(DiscreteUniform, disc, [0 => set_lower as i64, 1 => set_upper as i64]);

pub struct Law {
    pub name: &'static str,
    pub setters: &'static [&'static str],
    pub lattice: Vec<Vec<f64>>,
    pub make: fn(&[f64]) -> Box<dyn DObj>,
    pub points: Vec<f64>,
    /// parameters are cast to integers by the API (so the model stores the cast value)
    pub int_params: &'static [bool],
    /// the law's `Default` object and the parameters it stands for
    pub default: fn() -> (Box<dyn DObj>, Vec<f64>),
}

pub fn laws() -> Vec<Law> {
    let mut v = laws_base();
    {
        // extreme values (valid or not is decided by each constructor; setters and updates must agree with it)
        let extreme: Vec<(&str, Vec<Vec<f64>>)> = vec![
            ("Normal", vec![vec![], vec![1e-300, 1e300]]),
            ("Gamma", vec![vec![1e-17], vec![1e-17, 1e300]]),
            ("Beta", vec![vec![1e-17], vec![]]),
            ("T", vec![vec![1e-17, 1e300]]),
            ("Pareto", vec![vec![1e-17], vec![1e-300]]),
            ("Gumbel", vec![vec![], vec![1e-300]]),
            ("Exponential", vec![vec![1e-17, 1e-300]]),
            ("Uniform", vec![vec![-1e300], vec![1e300]]),
            ("Poisson", vec![vec![1e-17, 1e-300]]),
            ("Binomial", vec![vec![], vec![1e-300]]),
            ("Bernoulli", vec![vec![1e-300, 5e-324]]),
        ];
        for (name, add) in extreme {
            if let Some(l) = v.iter_mut().find(|l| l.name == name) {
                for (i, a) in add.into_iter().enumerate() {
                    l.lattice[i].extend(a);
                }
            }
        }
    }
    // NaN is in no parameter domain: every real-valued parameter is offered one
    for l in v.iter_mut() {
        for (i, lat) in l.lattice.iter_mut().enumerate() {
            if !l.int_params[i] && !lat.iter().any(|x| x.is_nan()) {
                lat.push(NAN);
            }
        }
    }
    if thorough() {
        // denser lattices crossing every algorithm regime of the samplers and densities
        let extra: Vec<(&str, Vec<Vec<f64>>)> = vec![
            ("Normal", vec![vec![1e3, 0.5], vec![1e-3, 1e3]]),
            ("Gamma", vec![vec![0.2, 0.9, 150.0], vec![1e-3, 1e3]]),
            ("Beta", vec![vec![0.2, 20.0, 60.0], vec![0.2, 20.0]]),
            ("ChiSquared", vec![vec![3.0, 4.0, 8.0, 200.0]]),
            ("T", vec![vec![1.5, 3.0, 200.0]]),
            ("Pareto", vec![vec![1.5, 3.0, 20.0], vec![1e-3, 1e3]]),
            ("Gumbel", vec![vec![-1.0, 1e3], vec![1e-3, 1e3]]),
            ("Exponential", vec![vec![1e-2, 0.1, 10.0, 100.0]]),
            ("Uniform", vec![vec![-1e3, 0.5], vec![0.5, 1e3]]),
            ("Poisson", vec![vec![9.9, 10.0, 149.0, 150.0, 500.0, 1e-3]]),
            ("Binomial", vec![vec![30.0, 100.0, 1000.0], vec![0.01, 0.99]]),
            ("Bernoulli", vec![vec![0.75, 1e-3]]),
            ("DiscreteUniform", vec![vec![-40.0, 40.0], vec![-40.0, 40.0]]),
        ];
        for (name, add) in extra {
            if let Some(l) = v.iter_mut().find(|l| l.name == name) {
                for (i, a) in add.into_iter().enumerate() {
                    l.lattice[i].extend(a);
                }
            }
        }
    }
    v
}

fn laws_base() -> Vec<Law> {
    let cont_pts: Vec<f64> = vec![-1e3, -7.5, -2.0, -1.0, -0.5, -1e-9, 0.0, 1e-9, 0.1, 0.25, 0.5, 0.75, 0.9, 1.0, 1.5, 2.0, 2.5, 3.0, 4.5, 5.0, 5.5, 6.0, 10.0, 64.3, 1e3];
    let disc_pts: Vec<f64> = vec![-6.0, -5.0, -3.0, -1.0, 0.0, 1.0, 2.0, 3.0, 4.0, 5.0, 6.0, 7.0, 8.0, 10.0, 14.0, 15.0, 16.0, 20.0, 35.0, 42.0, 69.0, 70.0, 71.0, 100.0, 1000.0];
    vec![
        Law { name: "Normal", setters: &["set_mu", "set_sigma"], lattice: vec![vec![-1e3, -1.0, 0.0, 2.5], vec![0.0, 0.5, 1.0, 20.0, -1.0, NAN]], make: |p| Box::new(Normal::new(p[0], p[1])), points: cont_pts.clone(), int_params: &[false, false], default: || (Box::new(Normal::default()), vec![0.0, 1.0]) },
        Law { name: "Gamma", setters: &["set_alpha", "set_beta"], lattice: vec![vec![0.5, 1.0, 3.0, 20.0, 0.0, -1.0], vec![0.5, 1.0, 4.0, 0.0, -2.0]], make: |p| Box::new(Gamma::new(p[0], p[1])), points: cont_pts.clone(), int_params: &[false, false], default: || (Box::new(Gamma::default()), vec![1.0, 1.0]) },
        Law { name: "Beta", setters: &["set_alpha", "set_beta"], lattice: vec![vec![0.5, 1.0, 2.0, 4.0, 0.0, -1.0], vec![0.5, 1.0, 4.0, 7.5, 0.0, -1.0]], make: |p| Box::new(Beta::new(p[0], p[1])), points: cont_pts.clone(), int_params: &[false, false], default: || (Box::new(Beta::default()), vec![1.0, 1.0]) },
        Law { name: "ChiSquared", setters: &["set_dof"], lattice: vec![vec![1.0, 2.0, 5.0, 50.0, 0.0, 2.7, -1.0]], make: |p| Box::new(ChiSquared::new(p[0] as usize)), points: cont_pts.clone(), int_params: &[true], default: || (Box::new(ChiSquared::default()), vec![1.0]) },
        Law { name: "T", setters: &["set_dof"], lattice: vec![vec![0.5, 1.0, 2.0, 5.0, 30.0, 0.0, -1.0, NAN]], make: |p| Box::new(T::new(p[0])), points: cont_pts.clone(), int_params: &[false], default: || (Box::new(T::default()), vec![1.0]) },
        Law { name: "Pareto", setters: &["set_alpha", "set_minval"], lattice: vec![vec![0.5, 1.0, 2.0, 4.0, 0.0, -1.0], vec![0.5, 1.0, 4.0, 0.0, -1.0]], make: |p| Box::new(Pareto::new(p[0], p[1])), points: cont_pts.clone(), int_params: &[false, false], default: || (Box::new(Pareto::default()), vec![1.0, 1.0]) },
        Law { name: "Gumbel", setters: &["set_mu", "set_beta"], lattice: vec![vec![-1e3, 0.0, 1.0], vec![0.5, 1.0, 10.0, 0.0, -1.0]], make: |p| Box::new(Gumbel::new(p[0], p[1])), points: cont_pts.clone(), int_params: &[false, false], default: || (Box::new(Gumbel::default()), vec![0.0, 1.0]) },
        Law { name: "Exponential", setters: &["set_lambda"], lattice: vec![vec![1e-3, 1.0, 5.0, 1e3, 0.0, -1.0]], make: |p| Box::new(Exponential::new(p[0])), points: cont_pts.clone(), int_params: &[false], default: || (Box::new(Exponential::default()), vec![1.0]) },
        Law { name: "Uniform", setters: &["set_lower", "set_upper"], lattice: vec![vec![-5.0, 0.0, 1.0, 2.0, 5.0, 6.0], vec![-5.0, 0.0, 1.0, 2.0, 5.0, 6.0]], make: |p| Box::new(Uniform::new(p[0], p[1])), points: cont_pts.clone(), int_params: &[false, false], default: || (Box::new(Uniform::default()), vec![0.0, 1.0]) },
        Law { name: "Poisson", setters: &["set_lambda"], lattice: vec![vec![0.5, 3.0, 10.0, 42.0, 0.0, -1.0]], make: |p| Box::new(Poisson::new(p[0])), points: disc_pts.clone(), int_params: &[false], default: || (Box::new(Poisson::default()), vec![1.0]) },
        Law { name: "Binomial", setters: &["set_n", "set_p"], lattice: vec![vec![0.0, 1.0, 15.0, 70.0, 400.0], vec![0.0, 0.3, 0.5, 0.7, 1.0, 0.25, 0.75, -0.1, 1.5, NAN]], make: |p| Box::new(Binomial::new(p[0] as u64, p[1])), points: disc_pts.clone(), int_params: &[true, false], default: || (Box::new(Binomial::default()), vec![1.0, 0.5]) },
        Law { name: "Bernoulli", setters: &["set_p"], lattice: vec![vec![0.0, 0.25, 0.5, 1.0, -0.1, 1.5, NAN]], make: |p| Box::new(Bernoulli::new(p[0])), points: disc_pts.clone(), int_params: &[false], default: || (Box::new(Bernoulli::default()), vec![0.5]) },
        Law { name: "DiscreteUniform", setters: &["set_lower", "set_upper"], lattice: vec![vec![-5.0, 0.0, 1.0, 2.0, 5.0, 6.0], vec![-5.0, 0.0, 1.0, 2.0, 5.0, 6.0]], make: |p| Box::new(DiscreteUniform::new(p[0] as i64, p[1] as i64)), points: disc_pts.clone(), int_params: &[true, true], default: || (Box::new(DiscreteUniform::default()), vec![0.0, 1.0]) },
    ]
}

fn bits(x: f64) -> u64 {
    if x.is_nan() {
        0x7ff8_0000_0000_0000
    } else {
        x.to_bits()
    }
}

/// the complete observation of an object: density lattice, moments, seeded streams
pub fn observe(o: &dyn DObj, pts: &[f64]) -> Vec<u64> {
    let (sds, ns) = (seeds(), nsamp());
    let mut v = Vec::with_capacity(pts.len() + 2 + sds.len() * ns);
    for &x in pts {
        v.push(match guard(|| o.density(x)) {
            Ok(d) => bits(d),
            Err(_) => 0xdead_0000_0000_0001,
        });
    }
    for &x in pts {
        v.push(match guard(|| o.ln_density(x)) {
            Ok(d) => bits(d),
            Err(_) => 0xdead_0000_0000_0005,
        });
    }
    match guard(|| o.mean_var()) {
        Ok((m, s)) => {
            v.push(bits(m));
            v.push(bits(s));
        }
        Err(_) => v.extend([0xdead_0000_0000_0002, 0xdead_0000_0000_0002]),
    }
    for &seed in &sds {
        alea::set_seed(seed);
        alea::script::reset_draws();
        alea::script::set_draw_limit(Some(200_000));
        let r = guard(|| (0..ns).map(|_| o.draw()).collect::<Vec<f64>>());
        alea::script::set_draw_limit(None);
        match r {
            Ok(s) => v.extend(s.iter().map(|x| bits(*x))),
            Err(e) => v.extend(std::iter::repeat(if e.contains("livelock") { 0xdead_0000_0000_0004 } else { 0xdead_0000_0000_0003 }).take(ns)),
        }
    }
    v
}

fn describe_diff(a: &[u64], b: &[u64], npts: usize) -> String {
    for i in 0..a.len().min(b.len()) {
        if a[i] != b[i] {
            let what = if i < npts {
                format!("density at lattice point #{}", i)
            } else if i < 2 * npts {
                format!("log-density at lattice point #{}", i - npts)
            } else if i == 2 * npts {
                "mean".to_string()
            } else if i == 2 * npts + 1 {
                "variance".to_string()
            } else {
                let k = i - 2 * npts - 2;
                format!("sample #{} after set_seed({})", k % nsamp(), seeds()[k / nsamp()])
            };
            return format!("{}: object {:e} vs fresh twin {:e}", what, f64::from_bits(a[i]), f64::from_bits(b[i]));
        }
    }
    "identical".into()
}

#[derive(Clone, Debug, PartialEq)]
pub enum Op {
    Set(usize, f64),
    Update(Vec<f64>),
}
impl Op {
    fn show(&self, law: &Law) -> String {
        match self {
            Op::Set(i, v) => format!("{}({})", law.setters[*i], v),
            Op::Update(p) => format!("update({:?})", p),
        }
    }
}

pub struct DState {
    key: String,
    model: Vec<u64>,
    obj: Box<dyn DObj>,
    params: Vec<f64>,
}
impl Clone for DState {
    fn clone(&self) -> Self {
        DState { key: self.key.clone(), model: self.model.clone(), obj: self.obj.boxed(), params: self.params.clone() }
    }
}
impl std::fmt::Debug for DState {
    fn fmt(&self, f: &mut std::fmt::Formatter) -> std::fmt::Result {
        write!(f, "{} model={:?}", self.key, self.params)
    }
}
impl Hash for DState {
    fn hash<H: Hasher>(&self, h: &mut H) {
        self.key.hash(h);
        self.model.hash(h);
    }
}
impl PartialEq for DState {
    fn eq(&self, o: &Self) -> bool {
        self.key == o.key && self.model == o.model
    }
}

fn norm_params(law: &Law, p: &[f64]) -> Vec<f64> {
    p.iter().enumerate().map(|(i, v)| if law.int_params[i] { if law.name == "DiscreteUniform" { (*v as i64) as f64 } else { (*v as u64) as f64 } } else { *v }).collect()
}
fn accepts(law: &Law, p: &[f64]) -> bool {
    // independent of the constructor: NaN is out of every parameter's domain
    if p.iter().enumerate().any(|(i, x)| !law.int_params[i] && x.is_nan()) {
        return false;
    }
    let mk = law.make;
    guard(|| {
        mk(p);
    })
    .is_ok()
}
fn mkstate(law: &Law, obj: Box<dyn DObj>, p: &[f64]) -> DState {
    let p = norm_params(law, p);
    DState { key: obj.dbg(), model: p.iter().map(|x| bits(*x)).collect(), obj, params: p }
}

fn explore_law(run: &'static Run, law: Arc<Law>) {
    // initial states: every tuple of the lattice the constructor accepts
    let mut inits = Vec::new();
    let mut tuples: Vec<Vec<f64>> = vec![vec![]];
    for l in &law.lattice {
        let mut next = Vec::new();
        for t in &tuples {
            for &v in l {
                let mut u = t.clone();
                u.push(v);
                next.push(u);
            }
        }
        tuples = next;
    }
    let mk = law.make;
    let mut n_valid = 0;
    for t in &tuples {
        run.tr();
        if t.iter().enumerate().any(|(i, x)| !law.int_params[i] && x.is_nan()) {
            if let Ok(o) = guard(|| mk(t)) {
                run.violate(&format!("{}/new/NaN-accepted", law.name), || format!("{}::new({:?}) succeeds and holds a NaN parameter: {}", law.name, t, o.dbg()));
            }
            continue;
        }
        if let Ok(o) = guard(|| mk(t)) {
            n_valid += 1;
            // start the search from two representative objects only; the others are reached
            if inits.len() < 2 {
                inits.push(mkstate(&law, o, t));
            }
        }
    }
    // the Default object is a constructed object like any other: histories start from it as well
    match guard(|| (law.default)()) {
        Ok((o, p)) => inits.push(mkstate(&law, o, &p)),
        Err(e) => run.violate(&format!("{}/default/panic", law.name), || e),
    }
    run.regimes(&format!("{}:valid-tuples", law.name), n_valid);
    let all_tuples = Arc::new(tuples);
    let law_a = Arc::clone(&law);
    let acts = move |_s: &DState, out: &mut Vec<Op>| {
        for (i, l) in law_a.lattice.iter().enumerate() {
            for &v in l {
                out.push(Op::Set(i, v));
            }
        }
        for t in all_tuples.iter() {
            out.push(Op::Update(t.clone()));
        }
    };
    let law_s = Arc::clone(&law);
    let step = move |s: &DState, op: &Op, pathf: &dyn Fn() -> Vec<Op>| -> Option<DState> {
        let law = &law_s;
        run.evals(1);
        run.tr();
        run.ok();
        let mut target = s.params.clone();
        match op {
            Op::Set(i, v) => target[*i] = *v,
            Op::Update(p) => target = p.clone(),
        }
        let target = norm_params(law, &target);
        let should_accept = accepts(law, &target);
        let mut obj = s.obj.boxed();
        let res = {
            let o = &mut obj;
            guard(move || match op {
                Op::Set(i, v) => o.set(*i, *v),
                Op::Update(p) => o.upd(p),
            })
        };
        let hist = || format!("{} after {:?} from new({:?})", op.show(law), pathf().iter().map(|o| o.show(law)).collect::<Vec<_>>(), "initial");
        let kind = match op {
            Op::Set(i, _) => law.setters[*i].to_string(),
            Op::Update(_) => "update".to_string(),
        };
        match (res, should_accept) {
            (Ok(()), true) => {
                run.outcome(&(law.name, &kind, "accepted"));
                run.regime(&format!("{}:{}:accepted", law.name, kind));
                Some(mkstate(law, obj, &target))
            }
            (Ok(()), false) => {
                run.outcome(&(law.name, &kind, "invalid-accepted"));
                run.violate(&format!("{}/{}/invalid-accepted", law.name, kind), || format!("{} on params {:?}: accepted although {}::new({:?}) panics; object now {}", hist(), s.params, law.name, target, obj.dbg()));
                None
            }
            (Err(p), true) => {
                run.outcome(&(law.name, &kind, "valid-rejected"));
                let side = match op {
                    Op::Update(t) if t.len() == 2 && (t[0] > s.params[1] || t[1] < s.params[0]) => "/disjoint-from-old-interval",
                    _ => "",
                };
                run.violate(&format!("{}/{}/valid-rejected{}", law.name, kind, side), || format!("{} on params {:?}: panicked ({}) although {}::new({:?}) succeeds", hist(), s.params, p, law.name, target));
                None
            }
            (Err(_), false) => {
                run.outcome(&(law.name, &kind, "rejected"));
                run.regime(&format!("{}:rejected", law.name));
                // the object must still be some in-domain tuple: the old one or a partial update
                let mut cands: Vec<Vec<f64>> = vec![s.params.clone()];
                if let Op::Update(p) = op {
                    let mut part = s.params.clone();
                    for i in 0..p.len() {
                        part[i] = p[i];
                        cands.push(norm_params(law, &part));
                    }
                }
                // several in-domain tuples can be observationally identical (Binomial(0,0) and
                // Binomial(1,0)); prefer the one whose twin has the same internal fields
                for c in &cands {
                    if accepts(law, c) && (law.make)(c).dbg() == obj.dbg() {
                        return Some(mkstate(law, obj, c));
                    }
                }
                let obs = observe(&*obj, &law.points);
                for c in &cands {
                    if accepts(law, c) {
                        let twin = (law.make)(c);
                        if observe(&*twin, &law.points) == obs {
                            return Some(mkstate(law, obj, c));
                        }
                    }
                }
                run.violate(&format!("{}/{}/out-of-domain-after-rejection", law.name, kind), || format!("{} on params {:?}: rejected, but the object ({}) equals no in-domain tuple among {:?}", hist(), s.params, obj.dbg(), cands));
                None
            }
        }
    };
    let law_v = Arc::clone(&law);
    let visit = move |s: &DState, pathf: &dyn Fn() -> Vec<Op>| {
        let law = &law_v;
        run.trs(2);
        run.ok();
        let twin = (law.make)(&s.params);
        let a = observe(&*s.obj, &law.points);
        let b = observe(&*twin, &law.points);
        if a != b {
            run.outcome(&(law.name, "differs"));
            let i = a.iter().zip(&b).position(|(x, y)| x != y).unwrap();
            let np = law.points.len();
            let part = if i < np { "density" } else if i < 2 * np { "log-density" } else if i < 2 * np + 2 { "moments" } else { "seeded-stream" };
            run.violate(&format!("{}/twin-differs/{}", law.name, part), || format!("after {:?} the object {} differs from {}::new({:?}): {}", pathf().iter().map(|o| o.show(law)).collect::<Vec<_>>(), s.key, law.name, s.params, describe_diff(&a, &b, law.points.len())));
        } else {
            run.outcome(&(law.name, "same", s.model.len()));
        }
        // the same observation made on a thread that has never sampled anything: nothing may depend on what other
        // objects did on this thread before
        {
            let (mk, params, pts) = (law.make, s.params.clone(), law.points.clone());
            let d = std::thread::scope(|sc| sc.spawn(move || observe(&*mk(&params), &pts)).join()).unwrap_or_default();
            if d != a {
                run.violate(&format!("{}/depends-on-thread-history", law.name), || format!("state {} after {:?}: differs from {}::new({:?}) observed on a fresh thread: {}", s.key, pathf().iter().map(|o| o.show(law)).collect::<Vec<_>>(), law.name, s.params, describe_diff(&a, &d, law.points.len())));
            }
        }
        // reproducibility of the seeded stream
        let c = observe(&*s.obj, &law.points);
        if c != a {
            run.violate(&format!("{}/not-reproducible", law.name), || format!("{}: two observations with the same seeds differ: {}", s.key, describe_diff(&a, &c, law.points.len())));
        }
        if run.want_sample() {
            run.sample(|| format!("{} state {} reached by {:?}: 25 density points, mean, var and 3x16 seeded samples equal those of new({:?})", law.name, s.key, pathf().iter().map(|o| o.show(law)).collect::<Vec<_>>(), s.params));
        }
    };
    let m = Seq { inits, acts: Arc::new(acts), step: Arc::new(step), visit: Some(Arc::new(visit)) };
    let st = explore(&m, None, Some(200_000), Some(300));
    run.add_states(st.unique_states as u64);
    run.nontrivial(st.unique_states as u64);
    run.extra(&format!("bfs_{}", law.name), serde_json::json!({"unique_states": st.unique_states, "generated": st.generated, "max_depth": st.max_depth, "closed": st.closed, "per_level": st.per_level}));
    if !st.closed {
        run.cap(&format!("{}: search not closed: {:?}", law.name, st.cap_hit));
    }
    if run.thorough() {
        // cross-check the closure size with stateright's BFS checker (1 and 16 threads)
        let n1 = explore_stateright(&m, 1);
        let n16 = explore_stateright(&m, 16);
        if n1 != st.unique_states || n16 != st.unique_states {
            run.machinery_error(format!("{}: unique-state counts disagree: own BFS {}, stateright(1) {}, stateright(16) {}", law.name, st.unique_states, n1, n16));
        }
        run.extra(&format!("stateright_{}", law.name), serde_json::json!({"threads1": n1, "threads16": n16}));
    }
}

pub fn run(run: &Run) {
    THOROUGH.store(run.thorough(), std::sync::atomic::Ordering::Relaxed);
    run.rule("per law: BFS to closure over {every setter × its value lattice, update × every tuple of the lattices} from constructed objects; transition oracle: the call succeeds iff the constructor accepts the resulting tuple (after a rejection the object must equal the twin of the old or a partially updated in-domain tuple); state invariant: density/mass on 25 points, mean, var and 16 samples from each of 3 seeds (32 from each of 50 seeds and denser parameter lattices in the thorough tier) are bitwise those of a freshly constructed twin; bulk draws of 1..20000 from a seed are repeatable and equal to the twin's; non-trivial = every distinct reachable state");
    let run_s: &'static Run = unsafe { &*(run as *const Run) };
    for law in laws() {
        explore_law(run_s, Arc::new(law));
    }
    // bulk draws: from the same seed the same stream, whatever the size of the request (a bulk path
    // may switch strategy for large requests), for the object, for a repeat and for a fresh twin
    for l in laws() {
        let tuples: Vec<Vec<f64>> = [0usize, 1].iter().map(|&k| l.lattice.iter().map(|v| v[k.min(v.len() - 1)]).collect::<Vec<f64>>()).filter(|t| accepts(&l, t)).collect();
        for t in tuples {
            let obj = (l.make)(&t);
            for &n in &[1usize, 100, 4095, 4096, 5000, 20_000] {
                run.case();
                run.trs(3);
                run.ok();
                run.nontrivial(1);
                let bulk = |o: &dyn DObj| -> Result<Vec<u64>, String> {
                    alea::set_seed(SEEDS[0]);
                    alea::script::reset_draws();
                    alea::script::set_draw_limit(Some(2_000_000 + 2000 * n as u64));
                    let r = guard(|| o.draw_n(n));
                    alea::script::set_draw_limit(None);
                    r.map(|v| v.iter().map(|x| bits(*x)).collect())
                };
                let twin = (l.make)(&t);
                match (bulk(&*obj), bulk(&*obj), bulk(&*twin)) {
                    (Ok(a), Ok(b), Ok(c)) => {
                        if a.len() != n {
                            run.violate(&format!("{}/bulk/length", l.name), || format!("{}::new({:?}).sample_n({}) returned {} draws", l.name, t, n, a.len()));
                        } else if a != b {
                            run.violate(&format!("{}/bulk/not-reproducible", l.name), || format!("{}::new({:?}).sample_n({}) from seed {} twice: the streams differ (first difference at draw {})", l.name, t, n, SEEDS[0], a.iter().zip(&b).position(|(x, y)| x != y).unwrap_or(0)));
                        } else if a != c {
                            run.violate(&format!("{}/bulk/twin-differs", l.name), || format!("{}::new({:?}).sample_n({}) from seed {}: a fresh twin gives another stream", l.name, t, n, SEEDS[0]));
                        } else {
                            run.outcome(&("bulk", n));
                            run.regime("bulk-reproducible");
                        }
                    }
                    (a, _, _) => {
                        if let Err(e) = a {
                            if !e.contains("livelock") {
                                run.violate(&format!("{}/bulk/panic", l.name), || format!("{}::new({:?}).sample_n({}): {}", l.name, t, n, e));
                            }
                        }
                    }
                }
            }
        }
    }
    run.require_regime("bulk-reproducible");
    // "does not depend on how many other distribution objects exist": every ordered pair (first, second) of valid
    // parameter tuples of a law — the second object is observed right after the first one was sampled on this
    // thread, and must look exactly as it does on a thread that never sampled anything
    for l in laws() {
        let mut tuples: Vec<Vec<f64>> = vec![vec![]];
        for lat in &l.lattice {
            tuples = tuples.iter().flat_map(|t| lat.iter().map(move |v| { let mut u = t.clone(); u.push(*v); u })).collect();
        }
        let tuples: Vec<Vec<f64>> = tuples.into_iter().filter(|t| accepts(&l, t)).collect();
        let fresh: Vec<Vec<u64>> = tuples.iter().map(|t| { let (mk, t, pts) = (l.make, t.clone(), l.points.clone()); std::thread::scope(|sc| sc.spawn(move || observe(&*mk(&t), &pts)).join()).unwrap_or_default() }).collect();
        let cap = if run.thorough() { usize::MAX } else { 48 };
        for (i, t1) in tuples.iter().enumerate().take(cap) {
            for (j, t2) in tuples.iter().enumerate().take(cap) {
                run.case();
                run.trs(2);
                run.ok();
                run.nontrivial(1);
                let _ = observe(&*(l.make)(t1), &l.points[..1]);
                let o = observe(&*(l.make)(t2), &l.points);
                if o != fresh[j] {
                    run.violate(&format!("{}/depends-on-other-objects", l.name), || format!("{}::new({:?}) observed right after {}::new({:?}) was sampled on the same thread differs from the same object on a fresh thread: {}", l.name, t2, l.name, t1, describe_diff(&o, &fresh[j], l.points.len())));
                } else {
                    run.regime("independent-of-other-objects");
                }
                let _ = i;
            }
        }
    }
    run.require_regime("independent-of-other-objects");
    // construction of other objects consumes no randomness
    for &seed in &seeds() {
        run.case();
        run.tr();
        run.ok();
        let base = {
            alea::set_seed(seed);
            let n = Normal::new(0.0, 1.0);
            (0..8).map(|_| n.sample().to_bits()).collect::<Vec<_>>()
        };
        alea::set_seed(seed);
        alea::script::reset_draws();
        let n = Normal::new(0.0, 1.0);
        let mut others: Vec<Box<dyn DObj>> = Vec::new();
        for l in laws() {
            for t in [l.lattice.iter().map(|v| v[0]).collect::<Vec<_>>(), l.lattice.iter().map(|v| v[1]).collect::<Vec<_>>()] {
                if accepts(&l, &t) {
                    others.push((l.make)(&t));
                }
            }
        }
        let used = alea::script::draws();
        let with: Vec<u64> = (0..8).map(|_| n.sample().to_bits()).collect();
        if used != 0 {
            run.violate("construction-consumes-randomness", || format!("constructing {} objects consumed {} generator words", others.len(), used));
        }
        if with != base {
            run.violate("stream-depends-on-other-objects", || format!("seed {}: stream changed after constructing {} other objects", seed, others.len()));
        } else {
            run.outcome(&("independent", seed));
        }
    }
    run.bound("histories", "closure of the reachable state set for each of the 13 laws (histories of every length)");
    run.assume("validity of a parameter tuple is defined by the law's own constructor (nothing is demanded that `new` does not demand), except that NaN is in no parameter's domain");
    run.assume("seeded streams are compared through the pass-through alea shim (upstream generator); a sampler that draws more than 200000 words for 16 samples is recorded as a livelock observation");
}
