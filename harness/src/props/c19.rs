//! C19 — resampling never invents, loses or unpairs data.
//! Engine E1 on the index generator: the bounded-integer answers of `alea` are scripted and
//! enumerated exhaustively (small n) or within a deviation bound of the all-zero script
//! (n up to 40); jackknife by plain enumeration of every length.
use crate::common::{guard, Run};
use alea::script::{self, Ans, Kind};
use compute::validation::{bootstrap, jackknife, shuffle, shuffle_two};
use rayon::prelude::*;

fn labels(n: usize, kind: usize) -> Vec<f64> {
    match kind {
        0 => (0..n).map(|i| 10.0 + i as f64).collect(),                                       // distinct
        1 => (0..n).map(|i| (i % 2) as f64 + 5.0).collect(),                                   // repeats
        _ => (0..n).map(|i| [f64::NAN, -0.0, 0.0, f64::INFINITY, 1.5][i % 5]).collect(),        // specials
    }
}
fn beq(a: &[f64], b: &[f64]) -> bool {
    a.len() == b.len() && a.iter().zip(b).all(|(x, y)| x.to_bits() == y.to_bits())
}

/// run `f` under the script `answers` (all bounded-integer answers); returns (result, report)
fn scripted<T>(answers: &[u64], f: impl FnOnce() -> T) -> (Result<T, String>, script::Report) {
    script::install(answers.iter().map(|&a| Ans::Below(a)).collect(), 64);
    let r = guard(f);
    let rep = script::uninstall();
    (r, rep)
}

fn check_trace(run: &Run, site: &str, rep: &script::Report, expect_calls: usize, n: usize, desc: &dyn Fn() -> String) -> bool {
    // every request must be a bounded integer over exactly n values, and exactly the expected number of them
    if n == 1 && rep.trace.is_empty() {
        return true; // a single-element input needs no randomness
    }
    let bad_kind = rep.trace.iter().find(|k| **k != Kind::Below(n as u64));
    if let Some(k) = bad_kind {
        run.violate(&format!("{}/index-range", site), || format!("{}: an index was drawn as {:?}, expected a uniform integer over exactly {} values", desc(), k, n));
        return false;
    }
    if rep.trace.len() != expect_calls || rep.defaults > 0 {
        run.violate(&format!("{}/draw-count", site), || format!("{}: {} index draws, expected {}", desc(), rep.trace.len(), expect_calls));
        return false;
    }
    true
}

fn bootstrap_case(run: &Run, data: &[f64], r: usize, answers: &[u64], cls: &str) {
    let n = data.len();
    run.case();
    run.tr();
    run.ok();
    let desc = || format!("bootstrap(data={:?}, {}) with index answers {:?}", data, r, answers);
    let site = format!("bootstrap/{}", cls);
    let (res, rep) = scripted(answers, || bootstrap(data, r));
    match res {
        Err(p) => {
            run.outcome(&(&site, "panic"));
            run.violate(&format!("{}/panic", site), || format!("{}: panicked: {}", desc(), p))
        }
        Ok(out) => {
            if !check_trace(run, &site, &rep, n * r, n, &desc) {
                return;
            }
            if out.len() != r || out.iter().any(|v| v.len() != n) {
                run.violate(&format!("{}/shape", site), || format!("{}: returned {} resamples of lengths {:?}", desc(), out.len(), out.iter().map(|v| v.len()).collect::<Vec<_>>()));
                return;
            }
            for k in 0..r {
                let want: Vec<f64> = (0..n).map(|i| data[answers[k * n + i] as usize]).collect();
                if !beq(&out[k], &want) {
                    run.outcome(&(&site, "bad"));
                    run.violate(&format!("{}/selection", site), || format!("{}: resample {} = {:?}, want {:?}", desc(), k, out[k], want));
                    return;
                }
            }
            run.outcome(&(&site, "ok", n.min(5), r.min(3)));
            run.regime("bootstrap-ok");
        }
    }
}

fn shuffle_case(run: &Run, data: &[f64], data2: &[f64], answers: &[u64], cls: &str) {
    let n = data.len();
    let mut perm: Vec<usize> = (0..n).collect();
    for t in 0..2 * n {
        perm.swap(answers[2 * t] as usize, answers[2 * t + 1] as usize);
    }
    let want1: Vec<f64> = perm.iter().map(|&i| data[i]).collect();
    let want2: Vec<f64> = perm.iter().map(|&i| data2[i]).collect();
    for which in 0..2 {
        run.case();
        run.tr();
        run.ok();
        let site = format!("{}/{}", if which == 0 { "shuffle" } else { "shuffle_two" }, cls);
        let desc = || format!("{}(data={:?}{}) with index answers {:?}", if which == 0 { "shuffle" } else { "shuffle_two" }, data, if which == 1 { format!(", {:?}", data2) } else { String::new() }, answers);
        if which == 0 {
            let (res, rep) = scripted(answers, || shuffle(data));
            match res {
                Err(p) => run.violate(&format!("{}/panic", site), || format!("{}: panicked: {}", desc(), p)),
                Ok(out) => {
                    if !check_trace(run, &site, &rep, 4 * n, n, &desc) {
                        continue;
                    }
                    let mut a: Vec<u64> = out.iter().map(|x| x.to_bits()).collect();
                    let mut b: Vec<u64> = data.iter().map(|x| x.to_bits()).collect();
                    a.sort();
                    b.sort();
                    if a != b {
                        run.violate(&format!("{}/not-a-permutation", site), || format!("{}: returned {:?}", desc(), out));
                    } else if !beq(&out, &want1) {
                        run.violate(&format!("{}/wrong-permutation", site), || format!("{}: returned {:?}, composition of the drawn transpositions gives {:?}", desc(), out, want1));
                    } else {
                        run.outcome(&(&site, "ok", perm == (0..n).collect::<Vec<_>>()));
                        run.regime("shuffle-ok");
                    }
                }
            }
        } else {
            let (res, rep) = scripted(answers, || shuffle_two(data, data2));
            match res {
                Err(p) => run.violate(&format!("{}/panic", site), || format!("{}: panicked: {}", desc(), p)),
                Ok((o1, o2)) => {
                    if !check_trace(run, &site, &rep, 4 * n, n, &desc) {
                        continue;
                    }
                    if !beq(&o1, &want1) || !beq(&o2, &want2) {
                        // distinguish "unpaired" from "wrong"
                        let paired = o1.len() == n && o2.len() == n && (0..n).all(|i| (0..n).any(|j| o1[i].to_bits() == data[j].to_bits() && o2[i].to_bits() == data2[j].to_bits()));
                        let key = if paired { "wrong-permutation" } else { "unpaired" };
                        run.violate(&format!("{}/{}", site, key), || format!("{}: returned {:?} / {:?}, want {:?} / {:?}", desc(), o1, o2, want1, want2));
                    } else {
                        run.outcome(&(&site, "ok"));
                        run.regime("shuffle_two-ok");
                    }
                }
            }
        }
    }
}

fn words(base: usize, len: usize, idx: u64) -> Vec<u64> {
    let mut v = Vec::with_capacity(len);
    let mut i = idx;
    for _ in 0..len {
        v.push(i % base as u64);
        i /= base as u64;
    }
    v
}

pub fn run(run: &Run) {
    run.rule("bootstrap: all index-answer sequences for (n,resamples) in {(1,1..3),(2,1..3),(3,1..2),(4,1)} and all sequences within ≤2 (n≤12) / ≤1 (n≤40) deviations of the all-zero script for 1..=3 resamples; shuffle/shuffle_two: all 4n answers for n≤3 (3^12), ≤2 deviations for n≤8, ≤1 for n≤40; three label patterns (distinct, repeats, NaN/±0/inf by bits); jackknife for every length 1..=64 (200 thorough); non-trivial = at least one non-zero answer");
    // ---- bootstrap, exhaustive small ---------------------------------------------------------
    let small: &[(usize, usize)] = &[(1, 1), (1, 2), (1, 3), (2, 1), (2, 2), (2, 3), (3, 1), (3, 2), (4, 1)];
    for &(n, r) in small {
        let total = (n as u64).pow((n * r) as u32);
        (0..total).into_par_iter().for_each(|idx| {
            let ans = words(n, n * r, idx);
            for kind in 0..3 {
                bootstrap_case(run, &labels(n, kind), r, &ans, if n == 1 { "length-1" } else { "small-exhaustive" });
            }
            if idx != 0 {
                run.nontrivial(3);
            }
        });
    }
    run.sample(|| "bootstrap(data=[10,11,12], 2) with index answers [2,0,0,1,1,2] must be [[12,10,10],[11,11,12]]".to_string());
    // ---- bootstrap, deviation-bounded --------------------------------------------------------
    let nmax = run.tier.pick(40usize, 120usize);
    let n2 = run.tier.pick(12usize, 20usize);
    run.bound("bootstrap deviations", format!("≤2 deviations for n≤{}, ≤1 for n≤{}, resamples 1..=3", n2, nmax));
    (2..=nmax).into_par_iter().for_each(|n| {
        for r in 1..=3usize {
            let len = n * r;
            let data = labels(n, 0);
            let zero = vec![0u64; len];
            bootstrap_case(run, &data, r, &zero, "deviation-bounded");
            for p in 0..len {
                for v in 1..n as u64 {
                    let mut a = zero.clone();
                    a[p] = v;
                    bootstrap_case(run, &data, r, &a, "deviation-bounded");
                    run.nontrivial(1);
                    if n <= n2 && r <= 2 {
                        for q in (p + 1)..len {
                            for w in [1u64, n as u64 - 1] {
                                let mut b = a.clone();
                                b[q] = w;
                                bootstrap_case(run, &data, r, &b, "deviation-bounded");
                                run.nontrivial(1);
                            }
                        }
                    }
                }
            }
        }
    });
    // ---- shuffle, exhaustive small ------------------------------------------------------------
    for n in 1..=3usize {
        let total = (n as u64).pow(4 * n as u32);
        (0..total).into_par_iter().for_each(|idx| {
            let ans = words(n, 4 * n, idx);
            let kind = (idx % 3) as usize;
            let d1 = labels(n, kind);
            let d2: Vec<f64> = (0..n).map(|i| 100.0 + i as f64).collect();
            shuffle_case(run, &d1, &d2, &ans, if n == 1 { "length-1" } else { "small-exhaustive" });
            if idx != 0 {
                run.nontrivial(2);
            }
        });
    }
    run.sample(|| "shuffle_two([10,11,12],[100,101,102]) with answers [0,2, 1,1, 2,1, 0,0, 1,0, 2,2]: both arrays must undergo the same composition of swaps".to_string());
    let smax = run.tier.pick(40usize, 100usize);
    let s2 = run.tier.pick(8usize, 12usize);
    run.bound("shuffle deviations", format!("all answers for n≤3; ≤2 deviations for n≤{}, ≤1 for n≤{}", s2, smax));
    (2..=smax).into_par_iter().for_each(|n| {
        let len = 4 * n;
        let d1 = labels(n, 0);
        let d2: Vec<f64> = (0..n).map(|i| 100.0 + i as f64).collect();
        // base script: a fixed non-trivial one (cyclic swaps) and the all-zero one
        for base in [vec![0u64; len], (0..len).map(|t| ((t * 7 + t / 2) % n) as u64).collect::<Vec<u64>>()] {
            shuffle_case(run, &d1, &d2, &base, "deviation-bounded");
            for p in 0..len {
                for v in 0..n as u64 {
                    if v == base[p] {
                        continue;
                    }
                    let mut a = base.clone();
                    a[p] = v;
                    shuffle_case(run, &d1, &d2, &a, "deviation-bounded");
                    run.nontrivial(2);
                    if n <= s2 {
                        for q in (p + 1)..len {
                            let w = (base[q] + 1) % n as u64;
                            let mut b = a.clone();
                            b[q] = w;
                            shuffle_case(run, &d1, &d2, &b, "deviation-bounded");
                            run.nontrivial(2);
                        }
                    }
                }
            }
        }
    });
    // ---- long inputs (lengths up to 2000, many resamples): structured scripts -----------------------
    let longs: Vec<usize> = if run.thorough() { vec![63, 64, 65, 127, 128, 129, 255, 257, 513, 1000, 1024, 1025, 2000] } else { vec![64, 65, 129, 257, 1000, 1025, 2000] };
    longs.par_iter().for_each(|&n| {
        let data = labels(n, 0);
        let d2: Vec<f64> = (0..n).map(|i| 5000.0 + i as f64).collect();
        for r in [1usize, 3, 200] {
            if r == 200 && n > 300 {
                continue;
            }
            for pat in 0..4u64 {
                let ans: Vec<u64> = (0..n * r).map(|t| match pat {
                    0 => 0,
                    1 => n as u64 - 1,
                    2 => (t as u64 * 7 + 3) % n as u64,
                    _ => (n as u64 - 1) - (t as u64 % n as u64),
                }).collect();
                bootstrap_case(run, &data, r, &ans, "long");
            }
        }
        for pat in 0..3u64 {
            let ans: Vec<u64> = (0..4 * n).map(|t| match pat {
                0 => (t as u64 * 5 + 1) % n as u64,
                1 => if t % 2 == 0 { n as u64 - 1 } else { (t as u64 / 2) % n as u64 },
                _ => (t as u64 * t as u64 + 7) % n as u64,
            }).collect();
            shuffle_case(run, &data, &d2, &ans, "long");
        }
        run.nontrivial(24);
    });
    // ---- jackknife ------------------------------------------------------------------------------
    let jmax = run.tier.pick(64usize, 200usize);
    run.bound("jackknife lengths", format!("1..={}", jmax));
    for n in 1..=jmax {
        for kind in 0..3 {
            let data = labels(n, kind);
            run.case();
            run.tr();
            run.ok();
            run.nontrivial(1);
            script::reset_draws();
            match guard(|| jackknife(&data)) {
                Ok(out) => {
                    let good = out.len() == n
                        && (0..n).all(|i| {
                            let want: Vec<f64> = data.iter().enumerate().filter(|(j, _)| *j != i).map(|(_, v)| *v).collect();
                            beq(&out[i], &want)
                        });
                    if !good {
                        run.violate("jackknife/wrong", || format!("jackknife of {} labelled values: got {} vectors, first {:?}", n, out.len(), out.get(0)));
                    } else {
                        run.outcome(&("jackknife", n.min(3)));
                    }
                    if script::draws() != 0 {
                        run.violate("jackknife/uses-randomness", || format!("n={}: {} draws", n, script::draws()));
                    }
                }
                Err(p) => run.violate("jackknife/panic", || format!("n={}: {}", n, p)),
            }
        }
    }
    // ---- supplementary: real seeded streams (sampled, not deciding) ------------------------------
    let nseeds = run.tier.pick(100u64, 10_000u64);
    let mut sampled = 0u64;
    for seed in 0..nseeds {
        alea::set_seed(seed * 2 + 1);
        for &n in &[2usize, 5, 17] {
            let d = labels(n, 0);
            sampled += 2;
            if let Ok(b) = guard(|| bootstrap(&d, 2)) {
                if b.len() != 2 || b.iter().any(|v| v.len() != n || v.iter().any(|x| !d.contains(x))) {
                    run.violate("bootstrap/real-stream", || format!("seed {} n {}: {:?}", seed * 2 + 1, n, b));
                }
            }
            if let Ok(s) = guard(|| shuffle(&d)) {
                let mut t = s.clone();
                t.sort_by(|a, b| a.partial_cmp(b).unwrap());
                if t != d {
                    run.violate("shuffle/real-stream", || format!("seed {} n {}: {:?}", seed * 2 + 1, n, s));
                }
            }
        }
    }
    run.extra("sampled_real_seed_runs", serde_json::json!(sampled));
    for r in ["bootstrap-ok", "shuffle-ok", "shuffle_two-ok"] {
        run.require_regime(r);
    }
    run.assume("the index generator is alea's bounded integer; a position selected by one uniform answer over exactly n values through the identity map is 'equally likely' — the kind and range of every draw is checked");
    run.assume("the real-seed runs are a sampled supplement and decide nothing");
}
