//! C19 — resampling never invents, loses or unpairs data.
//! Engine E1, stateless exploration of the generator's answers with *dynamic* request kinds: the
//! subject is run on a script, the trace says what it asked for (bounded integer, unit float or
//! raw word), and every alternative answer at every request is explored — exhaustively for small
//! inputs, within a deviation bound of two base scripts for inputs up to 40 (120) elements. What is
//! judged on every execution is only what the property states (shape, membership, multiset,
//! pairing, order of the jackknife); how the subject turns draws into indices is not prescribed.
//! "Every position equally likely" is decided exactly for small inputs (the law of every output
//! position by exhaustive enumeration of bounded-integer / unit-float answers with exact masses,
//! engine `envx`), by construction where the draw structure is the identity selection, and by a
//! Bernstein-bounded frequency test on real streams for the long inputs.
use crate::common::envx::{Decl, Explorer};
use crate::common::{guard, Run};
use alea::script::{self, Ans, Kind};
use compute::validation::{bootstrap, jackknife, shuffle, shuffle_two};
use rayon::prelude::*;

fn labels(n: usize, kind: usize) -> Vec<f64> {
    match kind {
        0 => (0..n).map(|i| 10.0 + i as f64).collect(),                                       // distinct
        1 => (0..n).map(|i| (i % 2) as f64 + 5.0).collect(),                                   // repeats
        _ => (0..n).map(|i| [f64::NAN, -0.0, 0.0, f64::INFINITY, 1.5][i % 5]).collect(),        // specials
    }
}
fn beq(a: &[f64], b: &[f64]) -> bool {
    a.len() == b.len() && a.iter().zip(b).all(|(x, y)| x.to_bits() == y.to_bits())
}
fn sorted_bits(a: &[f64]) -> Vec<u64> {
    let mut v: Vec<u64> = a.iter().map(|x| x.to_bits()).collect();
    v.sort();
    v
}

// ---- the explorer --------------------------------------------------------------------------------

/// one execution: what was returned, what was asked for, what was answered
struct Exec<T> {
    res: Result<T, String>,
    kinds: Vec<Kind>,
    used: Vec<Ans>,
    livelock: bool,
}

/// draws granted to one scripted execution before the script is given up as one the subject rejects
/// forever: 64 times what one draw per element and resample, or four per element, would need
fn budget_for(n: usize, r: usize) -> usize {
    64 * (n * r + 4 * n) + 4096
}

/// answer given by a base script to the t-th request of kind k
type Policy = dyn Fn(usize, Kind) -> Ans + Sync;

fn zero_policy(_t: usize, k: Kind) -> Ans {
    match k {
        Kind::Below(_) => Ans::Below(0),
        Kind::Unit => Ans::Unit(0.0),
        Kind::Word => Ans::Word(0),
    }
}
/// a fixed non-trivial base script
fn mixed_policy(t: usize, k: Kind) -> Ans {
    match k {
        Kind::Below(m) => Ans::Below(((t * 7 + t / 2) as u64) % m.max(1)),
        Kind::Unit => Ans::Unit(((t * 37 + 11) % 64) as f64 / 64.0),
        Kind::Word => Ans::Word((t as u64 + 1).wrapping_mul(0x9E37_79B9_7F4A_7C15)),
    }
}

/// run `f` on `prefix`, every later request answered by `policy` (the request kinds are discovered
/// by running: the script is extended and re-run until no request is left to a default)
fn run_with<T>(prefix: &[Ans], policy: &Policy, budget: usize, f: &(dyn Fn() -> T + Sync)) -> Exec<T> {
    let mut script_v = prefix.to_vec();
    for _round in 0..64 {
        script::install_with_defaults(script_v.clone(), budget, 0, 0.0);
        let r = guard(|| f());
        let rep = script::uninstall();
        if rep.livelock {
            return Exec { res: Err(format!("no result after {} draws", budget)), kinds: rep.trace, used: script_v, livelock: true };
        }
        if rep.defaults == 0 {
            script_v.truncate(rep.consumed);
            return Exec { res: r, kinds: rep.trace, used: script_v, livelock: false };
        }
        let mut same_as_default = true;
        script_v.truncate(rep.consumed);
        for t in script_v.len()..rep.trace.len() {
            let a = policy(t, rep.trace[t]);
            if a != zero_policy(t, rep.trace[t]) {
                same_as_default = false;
            }
            script_v.push(a);
        }
        if same_as_default {
            // the defaults of the seam are the zero policy: this run already is the policy run
            return Exec { res: r, kinds: rep.trace, used: script_v, livelock: false };
        }
    }
    Exec { res: Err("draw structure did not settle after 64 script extensions".into()), kinds: vec![], used: script_v, livelock: true }
}

fn alternatives(k: Kind) -> Vec<Ans> {
    match k {
        Kind::Below(m) if m <= 48 => (0..m).map(Ans::Below).collect(),
        Kind::Below(m) => vec![Ans::Below(0), Ans::Below(1), Ans::Below(m / 2), Ans::Below(m - 2), Ans::Below(m - 1)],
        Kind::Unit => vec![Ans::Unit(0.0), Ans::Unit(0.25), Ans::Unit(0.5), Ans::Unit(0.75), Ans::Unit(1.0 - f64::EPSILON / 2.0)],
        Kind::Word => vec![Ans::Word(0), Ans::Word(u64::MAX), Ans::Word(1 << 63), Ans::Word(0x5555_5555_5555_5555), Ans::Word(0x0123_4567_89ab_cdef)],
    }
}

/// every script within `max_dev` deviations of the policy's script (usize::MAX: every script over
/// the alternatives), each visited exactly once; `judge` sees every execution
/// `max_len` bounds the request positions at which answers are varied: a subject with a rejection loop
/// asks again after a rejected answer, so its script tree is infinite; positions beyond the length
/// of the base execution plus two further requests keep the base answer (rejection bound 2).
struct Limits {
    max_dev: usize,
    max_len: std::sync::atomic::AtomicUsize,
    runs: std::sync::atomic::AtomicU64,
    max_runs: u64,
}
impl Limits {
    fn new(max_dev: usize) -> Self {
        Limits { max_dev, max_len: std::sync::atomic::AtomicUsize::new(usize::MAX), runs: std::sync::atomic::AtomicU64::new(0), max_runs: 6_000_000 }
    }
}

fn explore<T: Send>(prefix: Vec<Ans>, devs: usize, max_dev: usize, policy: &Policy, budget: usize, f: &(dyn Fn() -> T + Sync), judge: &(dyn Fn(&Exec<T>, usize) + Sync)) {
    let lim = Limits::new(max_dev);
    explore_in(prefix, devs, &lim, policy, budget, f, judge);
    if lim.runs.load(std::sync::atomic::Ordering::Relaxed) >= lim.max_runs {
        CAPPED.store(true, std::sync::atomic::Ordering::Relaxed);
    }
}
static CAPPED: std::sync::atomic::AtomicBool = std::sync::atomic::AtomicBool::new(false);

fn explore_in<T: Send>(prefix: Vec<Ans>, devs: usize, lim: &Limits, policy: &Policy, budget: usize, f: &(dyn Fn() -> T + Sync), judge: &(dyn Fn(&Exec<T>, usize) + Sync)) {
    use std::sync::atomic::Ordering::Relaxed;
    if lim.runs.fetch_add(1, Relaxed) >= lim.max_runs {
        return;
    }
    let max_dev = lim.max_dev;
    let x = run_with(&prefix, policy, budget, f);
    judge(&x, devs);
    if prefix.is_empty() {
        lim.max_len.store(x.used.len() + 2, Relaxed);
    }
    if devs >= max_dev || x.livelock {
        return;
    }
    let mut kids: Vec<Vec<Ans>> = Vec::new();
    for i in prefix.len()..x.used.len().min(x.kinds.len()).min(lim.max_len.load(Relaxed)) {
        for alt in alternatives(x.kinds[i]) {
            if alt != x.used[i] {
                let mut c = x.used[..i].to_vec();
                c.push(alt);
                kids.push(c);
            }
        }
    }
    drop(x);
    if kids.len() >= 8 && prefix.len() < 6 {
        kids.into_par_iter().for_each(|c| explore_in(c, devs + 1, lim, policy, budget, f, judge));
    } else {
        for c in kids {
            explore_in(c, devs + 1, lim, policy, budget, f, judge);
        }
    }
}

// ---- judges: only what the property states ----------------------------------------------------------

fn fmt_ans(a: &[Ans]) -> String {
    let v: Vec<String> = a.iter().take(48).map(|x| match x {
        Ans::Below(i) => format!("{}", i),
        Ans::Unit(u) => format!("u{}", u),
        Ans::Word(w) => format!("w{:#x}", w),
    }).collect();
    format!("[{}{}]", v.join(","), if a.len() > 48 { ",…" } else { "" })
}

/// A fixed script on which the subject keeps asking (a rejection loop that this particular answer
/// sequence never satisfies) is a probability-zero stream, not a verdict: termination is decided on
/// the real streams, under a draw watchdog.
fn gave_up(run: &Run) {
    run.skip("scripted stream on which the subject keeps drawing (rejection loop never satisfied by this script)");
    run.regime("script given up");
}

fn bootstrap_judge(run: &Run, data: &[f64], r: usize, cls: &str, x: &Exec<Vec<Vec<f64>>>, devs: usize) {
    let n = data.len();
    run.case();
    run.tr();
    run.ok();
    if devs > 0 {
        run.nontrivial(1);
    }
    let site = format!("bootstrap/{}", cls);
    let desc = || format!("bootstrap(data={:?}, {}) with generator answers {}", &data[..n.min(24)], r, fmt_ans(&x.used));
    match &x.res {
        Err(_) if x.livelock => gave_up(run),
        Err(p) => {
            run.outcome(&(&site, "panic"));
            run.violate(&format!("{}/panic", site), || format!("{}: {}", desc(), p));
        }
        Ok(out) => {
            if out.len() != r || out.iter().any(|v| v.len() != n) {
                run.violate(&format!("{}/shape", site), || format!("{}: returned {} resamples of lengths {:?}", desc(), out.len(), out.iter().take(8).map(|v| v.len()).collect::<Vec<_>>()));
                return;
            }
            let have: std::collections::HashSet<u64> = data.iter().map(|v| v.to_bits()).collect();
            for (k, v) in out.iter().enumerate() {
                if let Some(bad) = v.iter().find(|e| !have.contains(&e.to_bits())) {
                    run.outcome(&(&site, "foreign"));
                    run.violate(&format!("{}/foreign-element", site), || format!("{}: resample {} contains {:?}, which is not an element of the data", desc(), k, bad));
                    return;
                }
            }
            // how the indices were drawn (reported, never judged): one bounded integer over exactly n values
            // per output position, selected through the identity map, is equally likely by construction
            let identity = x.kinds.len() == n * r
                && x.kinds.iter().all(|k| *k == Kind::Below(n as u64))
                && (0..r).all(|k| (0..n).all(|i| matches!(x.used[k * n + i], Ans::Below(a) if data[a as usize].to_bits() == out[k][i].to_bits())));
            if identity || (n == 1 && x.kinds.is_empty()) {
                run.regime("bootstrap: identity selection of one uniform index per position");
            } else {
                run.regime("bootstrap: other draw structure");
            }
            run.outcome(&(&site, "ok", n.min(5), r.min(3), identity));
            run.regime("bootstrap-ok");
        }
    }
}

fn shuffle_judge(run: &Run, data: &[f64], cls: &str, x: &Exec<Vec<f64>>, devs: usize) {
    let n = data.len();
    run.case();
    run.tr();
    run.ok();
    if devs > 0 {
        run.nontrivial(1);
    }
    let site = format!("shuffle/{}", cls);
    let desc = || format!("shuffle(data={:?}) with generator answers {}", &data[..n.min(24)], fmt_ans(&x.used));
    match &x.res {
        Err(_) if x.livelock => gave_up(run),
        Err(p) => run.violate(&format!("{}/panic", site), || format!("{}: {}", desc(), p)),
        Ok(out) => {
            if sorted_bits(out) != sorted_bits(data) {
                run.outcome(&(&site, "bad"));
                run.violate(&format!("{}/not-a-permutation", site), || format!("{}: returned {:?}", desc(), &out[..out.len().min(24)]));
            } else {
                run.outcome(&(&site, "ok", beq(out, data)));
                run.regime("shuffle-ok");
                if !beq(out, data) {
                    run.regime("shuffle: order changed");
                }
            }
        }
    }
}

fn shuffle_two_judge(run: &Run, d1: &[f64], d2: &[f64], cls: &str, x: &Exec<(Vec<f64>, Vec<f64>)>, devs: usize) {
    let n = d1.len();
    run.case();
    run.tr();
    run.ok();
    if devs > 0 {
        run.nontrivial(1);
    }
    let site = format!("shuffle_two/{}", cls);
    let desc = || format!("shuffle_two({:?}, {:?}) with generator answers {}", &d1[..n.min(24)], &d2[..n.min(24)], fmt_ans(&x.used));
    match &x.res {
        Err(_) if x.livelock => gave_up(run),
        Err(p) => run.violate(&format!("{}/panic", site), || format!("{}: {}", desc(), p)),
        Ok((o1, o2)) => {
            if sorted_bits(o1) != sorted_bits(d1) || sorted_bits(o2) != sorted_bits(d2) {
                run.violate(&format!("{}/not-a-permutation", site), || format!("{}: returned {:?} / {:?}", desc(), &o1[..o1.len().min(24)], &o2[..o2.len().min(24)]));
                return;
            }
            // one common permutation: the multiset of pairs is unchanged
            let mut pin: Vec<(u64, u64)> = d1.iter().zip(d2).map(|(a, b)| (a.to_bits(), b.to_bits())).collect();
            let mut pout: Vec<(u64, u64)> = o1.iter().zip(o2).map(|(a, b)| (a.to_bits(), b.to_bits())).collect();
            pin.sort();
            pout.sort();
            if pin != pout {
                run.outcome(&(&site, "unpaired"));
                run.violate(&format!("{}/unpaired", site), || format!("{}: returned {:?} / {:?}: the pairs (x_i, y_i) are not those of the input", desc(), &o1[..n.min(24)], &o2[..n.min(24)]));
            } else {
                run.outcome(&(&site, "ok", beq(o1, d1)));
                run.regime("shuffle_two-ok");
            }
        }
    }
}

// ---- "every position equally likely": exact law of every output position (small inputs) ---------------

fn marginals(run: &Run, n: usize, r: usize) {
    let data = labels(n, 0);
    for k in 0..r {
        for i in 0..n {
            run.case();
            run.tr();
            let d = data.clone();
            let f = move || {
                let out = bootstrap(&d, r);
                out[k][i] - 10.0
            };
            // bounded integers: every value; unit floats: split at every jump of the output; raw words
            // cannot be weighed exactly by this enumeration and leave the case to the frequency test
            let decl = Decl { max_words: 0, max_units: 4 * n * r, jb: 1, jw: 1, gu: [1, 1, 1, 1], gw: 1, discrete: true, max_leaves: 2_000_000, max_runs: 50_000_000 };
            let ex = Explorer::new(&f, decl).explore();
            if !ex.panics.is_empty() {
                let (m, s) = &ex.panics[0];
                run.violate("bootstrap/small-exhaustive/panic", || format!("bootstrap(data={:?}, {}) on answers {}: {}", data, r, fmt_ans(s), m));
                continue;
            }
            if !ex.livelocks.is_empty() || !ex.structure_errors.is_empty() || ex.rejected > 1e-12 || ex.accepted < 0.5 {
                run.skip("draw structure outside exact enumeration (raw words or unbounded draws): position law left to the frequency test");
                run.regime("position-law: undecided by enumeration");
                continue;
            }
            run.ok();
            run.nontrivial(1);
            let mut mass = vec![0.0f64; n];
            let mut stray = 0.0;
            for l in &ex.leaves {
                let v = l.lo;
                if l.lo == l.hi && v.fract() == 0.0 && v >= 0.0 && (v as usize) < n {
                    mass[v as usize] += l.mass / ex.accepted;
                } else {
                    stray += l.mass / ex.accepted;
                }
            }
            let worst = mass.iter().map(|m| (m - 1.0 / n as f64).abs()).fold(stray, f64::max);
            if worst > 1e-9 {
                run.outcome(&("position-law", "bad"));
                run.violate("bootstrap/position-not-equally-likely/exact", || format!("bootstrap(data={:?}, {}): output position {} of resample {} takes the data positions with probabilities {:?} (exact enumeration of {} generator-answer paths); each must be 1/{}", data, r, i, k, mass, ex.leaves.len(), n));
            } else {
                run.outcome(&("position-law", "ok", n, ex.leaves.len().min(1 << 12)));
                run.regime("position-law: exactly uniform");
            }
        }
    }
}

/// data whose elements are all alike except one marked element (a NaN among equal numbers, a -0.0 among +0.0): every
/// output slot holds the marked element with probability 1/n. The indicator "slot holds the marked element" is not
/// monotone in a generator answer, which the exact engine's partition needs, so this is judged on seeded streams
/// (Bernstein bound per slot, total false-alarm probability 1e-12) - sampled, like the other frequency tests
fn marked_frequencies(run: &Run) {
    let ns = [2usize, 3, 4, 5, 8, 17, 64];
    let cells: f64 = 2.0 * ns.iter().map(|&n| n as f64).sum::<f64>();
    let l = (2.0 * cells / 1e-12).ln();
    for kind in 0..2usize {
        ns.par_iter().for_each(|&n| {
            let m = n / 2;
            let data: Vec<f64> = (0..n).map(|i| if i == m { if kind == 0 { f64::NAN } else { -0.0 } } else if kind == 0 { 7.0 } else { 0.0 }).collect();
            let mark = data[m].to_bits();
            let (seeds, per) = (40usize, 1500usize);
            let mut count = vec![0u64; n];
            let mut total = 0u64;
            for sd in 0..seeds {
                alea::set_seed(77 + 2 * sd as u64 + 1000 * n as u64 + kind as u64);
                script::reset_draws();
                script::set_draw_limit(Some(1000 * (n * per) as u64 + 100_000));
                let res = guard(|| bootstrap(&data, per));
                script::set_draw_limit(None);
                match res {
                    Ok(out) if out.len() == per && out.iter().all(|v| v.len() == n) => {
                        for v in &out {
                            for (i, e) in v.iter().enumerate() {
                                if e.to_bits() == mark {
                                    count[i] += 1;
                                }
                            }
                        }
                        total += per as u64;
                    }
                    Ok(_) => {
                        run.violate("bootstrap/real-stream/shape", || format!("data {:?}, {} resamples", data, per));
                        return;
                    }
                    Err(p) => {
                        run.violate(if p.contains("livelock") { "bootstrap/real-stream/does-not-terminate" } else { "bootstrap/real-stream/panic" }, || format!("data {:?}: {}", data, p));
                        return;
                    }
                }
            }
            run.cases(seeds as u64);
            run.trs(total * n as u64);
            run.oks(seeds as u64);
            run.nontrivial(seeds as u64);
            let p = 1.0 / n as f64;
            let t = bernstein_t(total as f64, p, l);
            match count.iter().enumerate().find(|(_, &c)| (c as f64 - total as f64 * p).abs() > t) {
                Some((i, &c)) => run.violate("bootstrap/position-not-equally-likely/marked-element", || format!("bootstrap(data={:?}): in {} resamples on {} seeded streams slot {} held the marked element (data position {}) {} times, expected {:.1} ± {:.1}; counts per slot {:?}", data, total, seeds, i, m, c, total as f64 * p, t, count)),
                None => run.regime("marked element: slot frequencies uniform"),
            }
        });
    }
}

/// Bernstein: P(|X − Np| ≥ t) ≤ 2·exp(−t²/(2(Np(1−p)+t/3))) ≤ alpha_cell
fn bernstein_t(nn: f64, p: f64, l: f64) -> f64 {
    let v = nn * p * (1.0 - p);
    l / 3.0 + (l * l / 9.0 + 2.0 * v * l).sqrt()
}

/// long inputs on real streams: frequency of every data position among the draws
fn frequencies(run: &Run) {
    let ns: Vec<usize> = vec![2, 3, 4, 5, 8, 9, 16, 17, 33, 64, 65, 100, 129, 257, 700, 1000, 1025, 1999, 2000];
    let total = run.tier.pick(1_000_000usize, 8_000_000usize);
    let seeds = run.tier.pick(100usize, 10_000usize);
    // cells tested: per n, n label totals and (n ≤ 17) n² position × label cells
    let cells: f64 = ns.iter().map(|&n| (n + n.min(32) + if n <= 17 { n * n } else { 0 }) as f64).sum();
    let l = (2.0 * cells / 1e-12).ln();
    run.bound("frequency test", format!("{} draws per length over {} seeds, lengths {:?}, {} cells, Bernstein bound per cell and Pearson statistic per length, total false-alarm probability 1e-12; lengths >= 1000 get 20 times the draws", total, seeds, ns, cells));
    ns.par_iter().for_each(|&n| {
        let data = labels(n, 0);
        // the long inputs get 20 times as many draws: a bias of relative size n/65536 per position
        // (a 16-bit index generator, say) is only visible in the aggregate
        let total = if n >= 1000 { 20 * total } else { total };
        let per_seed = (total / seeds).max(1);
        let r = (per_seed + n - 1) / n;
        let mut tot = vec![0u64; n];
        let mut pos = vec![0u64; if n <= 17 { n * n } else { 0 }];
        let mut draws = 0u64;
        // slot-by-position cells for every length, pooled along diagonals: output slot i took data position i + d (mod n)
        let nd = n.min(32);
        let mut diag = vec![0u64; nd];
        for s in 0..seeds {
            alea::set_seed((s as u64) * 2 + 1 + (n as u64) * 1_000_003);
            // termination on real streams: a watchdog of 1000 draws per requested element
            script::reset_draws();
            script::set_draw_limit(Some(1000 * (n * r) as u64 + 100_000));
            let res = guard(|| bootstrap(&data, r));
            script::set_draw_limit(None);
            let out = match res {
                Ok(o) => o,
                Err(p) => {
                    let key = if p.contains("livelock") { "bootstrap/real-stream/does-not-terminate" } else { "bootstrap/real-stream/panic" };
                    run.violate(key, || format!("seed {} n {} resamples {}: {}", s * 2 + 1, n, r, p));
                    return;
                }
            };
            if out.len() != r || out.iter().any(|v| v.len() != n) {
                run.violate("bootstrap/real-stream/shape", || format!("n {} resamples {}: {} resamples returned", n, r, out.len()));
                return;
            }
            for v in &out {
                for (i, e) in v.iter().enumerate() {
                    let j = e - 10.0;
                    if !(j >= 0.0 && j < n as f64 && j.fract() == 0.0) {
                        run.violate("bootstrap/real-stream/foreign-element", || format!("n {}: {:?} is not an element of the data", n, e));
                        return;
                    }
                    tot[j as usize] += 1;
                    let d = (j as usize + n - i % n) % n;
                    if d < nd {
                        diag[d] += 1;
                    }
                    if n <= 17 {
                        pos[i * n + j as usize] += 1;
                    }
                    draws += 1;
                }
            }
        }
        run.cases(seeds as u64);
        run.trs(draws);
        run.oks(seeds as u64);
        let p = 1.0 / n as f64;
        let t = bernstein_t(draws as f64, p, l);
        let mut ok = true;
        for (j, &c) in tot.iter().enumerate() {
            if (c as f64 - draws as f64 * p).abs() > t {
                ok = false;
                run.violate("bootstrap/position-not-equally-likely/frequencies", || format!("bootstrap of {} elements, {} draws on {} seeded streams: data position {} was drawn {} times, expected {:.1} ± {:.1} (Bernstein, 1e-12 overall); counts {:?}", n, draws, seeds, j, c, draws as f64 * p, t, &tot[..n.min(20)]));
                break;
            }
        }
        if ok {
            for (d, &c) in diag.iter().enumerate() {
                if (c as f64 - draws as f64 * p).abs() > t {
                    ok = false;
                    run.violate("bootstrap/position-not-equally-likely/slot-and-position", || format!("bootstrap of {} elements, {} draws on {} seeded streams: output slot i took data position i+{} (mod n) {} times, expected {:.1} ± {:.1} (every slot draws every position with probability 1/n)", n, draws, seeds, d, c, draws as f64 * p, t));
                    break;
                }
            }
        }
        if n <= 17 && ok {
            let dn = draws as f64 / n as f64;
            let t2 = bernstein_t(dn, p, l);
            for i in 0..n {
                for j in 0..n {
                    if ok && (pos[i * n + j] as f64 - dn * p).abs() > t2 {
                        ok = false;
                        run.violate("bootstrap/position-not-equally-likely/frequencies", || format!("bootstrap of {} elements: output position {} took data position {} in {} of {} draws, expected {:.1} ± {:.1}", n, i, j, pos[i * n + j], dn, dn * p, t2));
                    }
                }
            }
        }
        // aggregate: Pearson's statistic over the data positions. Under equal likelihood it is
        // chi-square with n-1 degrees of freedom up to an error that is negligible at expected counts
        // of 500 and more; bound P(X - k >= 2 sqrt(k x) + 2x) <= e^-x (Laurent-Massart), x = ln(17e12)
        if ok && n >= 8 {
            let e = draws as f64 * p;
            let chi: f64 = tot.iter().map(|&c| (c as f64 - e) * (c as f64 - e) / e).sum();
            let k = (n - 1) as f64;
            let x = (17.0f64 * 1e12).ln();
            let limit = k + 2.0 * (k * x).sqrt() + 2.0 * x + 0.02 * k; // + 2 % for the approximation
            run.extra(&format!("pearson_n{}", n), serde_json::json!({"draws": draws, "statistic": chi, "dof": n - 1, "limit": limit}));
            if chi > limit {
                ok = false;
                run.violate("bootstrap/position-not-equally-likely/frequencies", || format!("bootstrap of {} elements, {} draws on {} seeded streams: Pearson statistic over the data positions {:.1}, expected {} ± {:.0}, limit {:.1} (false-alarm probability 1e-12 overall)", n, draws, seeds, chi, n - 1, (2.0 * k).sqrt(), limit));
            }
        }
        if ok {
            run.regime("position-frequencies-ok");
            run.outcome(&("freq", n));
        }
    });
}

pub fn run(run: &Run) {
    run.rule("generator answers are explored with dynamic request kinds (bounded integer: every value up to 48, else 5 representatives; unit float and raw word: 5 representatives): bootstrap — every script for (n,resamples) in {(1,1..3),(2,1..3),(3,1..2),(4,1)}, every script within ≤2 (n≤12) / ≤1 (n≤40) deviations of the all-zero and of a mixed base script for 1..=3 resamples, fixed scripts for lengths to 2000 and 200 resamples; shuffle / shuffle_two — every script for n≤3, ≤2 deviations for n≤8, ≤1 for n≤40, fixed scripts to 2000; judged on every execution: shape, membership, multiset, pairing; the law of every output position of bootstrap exactly for n≤5 (6) by enumeration with exact masses, and by a Bernstein-bounded frequency test on seeded streams for 17 lengths to 2000; three label patterns (distinct, repeats, NaN/±0/inf by bits); jackknife for every length 1..=64 (200 thorough); non-trivial = a script with at least one deviation");
    let zero: &Policy = &zero_policy;
    let mixed: &Policy = &mixed_policy;
    // ---- bootstrap, every script on small inputs -------------------------------------------------
    let small: &[(usize, usize)] = &[(1, 1), (1, 2), (1, 3), (2, 1), (2, 2), (2, 3), (3, 1), (3, 2), (4, 1)];
    for &(n, r) in small {
        for kind in 0..3 {
            let data = labels(n, kind);
            let d = data.clone();
            let f = move || bootstrap(&d, r);
            let cls = if n == 1 { "length-1" } else { "small-exhaustive" };
            explore(vec![], 0, usize::MAX, zero, budget_for(n, r), &f, &|x, devs| bootstrap_judge(run, &data, r, cls, x, devs));
        }
    }
    run.sample(|| "bootstrap(data=[10,11,12], 2): every one of the 3^6 answer scripts of its six bounded-integer requests; each result must be 2 resamples of 3 elements of the data".to_string());
    // ---- the law of every output position, exactly -------------------------------------------------
    let amax = run.tier.pick(5usize, 6usize);
    run.bound("exact position law", format!("n = 1..={} (1 resample), n ≤ 3 also 2 resamples", amax));
    (1..=amax).into_par_iter().for_each(|n| {
        marginals(run, n, 1);
        if n <= 3 {
            marginals(run, n, 2);
        }
    });
    marked_frequencies(run);
    // ---- bootstrap, deviation-bounded ------------------------------------------------------------
    let nmax = run.tier.pick(40usize, 120usize);
    let n2 = run.tier.pick(12usize, 20usize);
    run.bound("bootstrap deviations", format!("≤2 deviations for n≤{} (≤2 resamples), ≤1 for n≤{}, resamples 1..=3, two base scripts", n2, nmax));
    (2..=nmax).into_par_iter().for_each(|n| {
        for r in 1..=3usize {
            let data = labels(n, 0);
            let d = data.clone();
            let f = move || bootstrap(&d, r);
            let dev = if n <= n2 && r <= 2 { 2 } else { 1 };
            explore(vec![], 0, dev, zero, budget_for(n, r), &f, &|x, devs| bootstrap_judge(run, &data, r, "deviation-bounded", x, devs));
            explore(vec![], 0, 1, mixed, budget_for(n, r), &f, &|x, devs| bootstrap_judge(run, &data, r, "deviation-bounded", x, devs));
        }
    });
    // ---- shuffle, every script on small inputs ------------------------------------------------------
    for n in 1..=3usize {
        for kind in 0..3 {
            let d1 = labels(n, kind);
            let d2: Vec<f64> = (0..n).map(|i| 100.0 + i as f64).collect();
            let cls = if n == 1 { "length-1" } else { "small-exhaustive" };
            if kind == 0 || n < 3 {
                let d = d1.clone();
                let f = move || shuffle(&d);
                explore(vec![], 0, usize::MAX, zero, budget_for(n, 1), &f, &|x, devs| shuffle_judge(run, &d1, cls, x, devs));
            }
            if kind != 0 || n < 3 {
                let (a, b) = (d1.clone(), d2.clone());
                let f2 = move || shuffle_two(&a, &b);
                explore(vec![], 0, usize::MAX, zero, budget_for(n, 1), &f2, &|x, devs| shuffle_two_judge(run, &d1, &d2, cls, x, devs));
            }
        }
    }
    {
        // n = 3 with distinct labels in both arrays (pairing fully determined)
        let d1 = labels(3, 0);
        let d2: Vec<f64> = vec![100.0, 101.0, 102.0];
        let (a, b) = (d1.clone(), d2.clone());
        let f2 = move || shuffle_two(&a, &b);
        explore(vec![], 0, run.tier.pick(4, usize::MAX), zero, budget_for(3, 1), &f2, &|x, devs| shuffle_two_judge(run, &d1, &d2, "small-exhaustive", x, devs));
    }
    run.sample(|| "shuffle_two([10,11,12],[100,101,102]): every answer script of its requests; both outputs must be permutations and the pairs (x_i,y_i) those of the input".to_string());
    let smax = run.tier.pick(40usize, 100usize);
    let s2 = run.tier.pick(8usize, 12usize);
    run.bound("shuffle deviations", format!("every script for n≤3; ≤2 deviations for n≤{}, ≤1 for n≤{}, two base scripts", s2, smax));
    (2..=smax).into_par_iter().for_each(|n| {
        let d1 = labels(n, 0);
        let d2: Vec<f64> = (0..n).map(|i| 100.0 + i as f64).collect();
        let dev = if n <= s2 { 2 } else { 1 };
        let d = d1.clone();
        let f = move || shuffle(&d);
        let (a, b) = (d1.clone(), d2.clone());
        let f2 = move || shuffle_two(&a, &b);
        for (pol, dv) in [(zero, dev), (mixed, dev)] {
            explore(vec![], 0, dv, pol, budget_for(n, 1), &f, &|x, devs| shuffle_judge(run, &d1, "deviation-bounded", x, devs));
            explore(vec![], 0, dv, pol, budget_for(n, 1), &f2, &|x, devs| shuffle_two_judge(run, &d1, &d2, "deviation-bounded", x, devs));
        }
        // repeated labels in the first array: pairing is still decided by the second
        let e1 = labels(n, 1);
        let (a, b) = (e1.clone(), d2.clone());
        let f3 = move || shuffle_two(&a, &b);
        explore(vec![], 0, 1, mixed, budget_for(n, 1), &f3, &|x, devs| shuffle_two_judge(run, &e1, &d2, "deviation-bounded", x, devs));
    });
    // ---- long inputs (lengths up to 2000, many resamples): fixed scripts ----------------------------
    let longs: Vec<usize> = if run.thorough() { vec![63, 64, 65, 127, 128, 129, 255, 257, 513, 1000, 1024, 1025, 2000] } else { vec![64, 65, 129, 257, 1000, 1025, 2000] };
    longs.par_iter().for_each(|&n| {
        let data = labels(n, 0);
        let d2: Vec<f64> = (0..n).map(|i| 5000.0 + i as f64).collect();
        let pols: [&Policy; 4] = [
            &zero_policy,
            &mixed_policy,
            &|_t, k| match k {
                Kind::Below(m) => Ans::Below(m - 1),
                Kind::Unit => Ans::Unit(1.0 - f64::EPSILON / 2.0),
                Kind::Word => Ans::Word(u64::MAX),
            },
            &|t, k| match k {
                Kind::Below(m) => Ans::Below((m - 1) - (t as u64 % m)),
                Kind::Unit => Ans::Unit(1.0 - ((t % 97) as f64 + 0.5) / 97.0),
                Kind::Word => Ans::Word(!(t as u64).wrapping_mul(0x2545_f491_4f6c_dd1d)),
            },
        ];
        for r in [1usize, 3, 200] {
            if r == 200 && n > 300 {
                continue;
            }
            let d = data.clone();
            let f = move || bootstrap(&d, r);
            for pol in pols {
                let x = run_with(&[], pol, budget_for(n, r), &f);
                bootstrap_judge(run, &data, r, "long", &x, 1);
            }
        }
        let d = data.clone();
        let f = move || shuffle(&d);
        let (a, b) = (data.clone(), d2.clone());
        let f2 = move || shuffle_two(&a, &b);
        for pol in pols {
            let x = run_with(&[], pol, budget_for(n, 1), &f);
            shuffle_judge(run, &data, "long", &x, 1);
            let x2 = run_with(&[], pol, budget_for(n, 1), &f2);
            shuffle_two_judge(run, &data, &d2, "long", &x2, 1);
        }
    });
    // ---- jackknife ------------------------------------------------------------------------------
    let jmax = run.tier.pick(64usize, 200usize);
    run.bound("jackknife lengths", format!("1..={}", jmax));
    for n in 1..=jmax {
        for kind in 0..3 {
            let data = labels(n, kind);
            run.case();
            run.tr();
            run.ok();
            run.nontrivial(1);
            match guard(|| jackknife(&data)) {
                Ok(out) => {
                    let good = out.len() == n
                        && (0..n).all(|i| {
                            let want: Vec<f64> = data.iter().enumerate().filter(|(j, _)| *j != i).map(|(_, v)| *v).collect();
                            beq(&out[i], &want)
                        });
                    if !good {
                        run.violate("jackknife/wrong", || format!("jackknife of {} labelled values: got {} vectors, first {:?}", n, out.len(), out.get(0)));
                    } else {
                        run.outcome(&("jackknife", n.min(3)));
                        run.regime("jackknife-ok");
                    }
                }
                Err(p) => run.violate("jackknife/panic", || format!("n={}: {}", n, p)),
            }
        }
    }
    // ---- long inputs, position frequencies on real streams -------------------------------------------
    frequencies(run);
    // shuffle on real streams: permutation and pairing for every seed (sampled supplement)
    let nseeds = run.tier.pick(100u64, 10_000u64);
    let mut sampled = 0u64;
    for seed in 0..nseeds {
        alea::set_seed(seed * 2 + 1);
        for &n in &[1usize, 2, 5, 17, 64] {
            let d = labels(n, 0);
            let d2: Vec<f64> = (0..n).map(|i| 100.0 + i as f64).collect();
            sampled += 2;
            script::reset_draws();
            script::set_draw_limit(Some(100_000 * n as u64 + 100_000));
            let x = Exec { res: guard(|| shuffle(&d)), kinds: vec![], used: vec![], livelock: false };
            let x2 = Exec { res: guard(|| shuffle_two(&d, &d2)), kinds: vec![], used: vec![], livelock: false };
            script::set_draw_limit(None);
            for (name, e) in [("shuffle", x.res.as_ref().err()), ("shuffle_two", x2.res.as_ref().err())] {
                if let Some(p) = e {
                    if p.contains("livelock") {
                        run.violate(&format!("{}/real-stream/does-not-terminate", name), || format!("seed {} n {}: {}", seed * 2 + 1, n, p));
                    }
                }
            }
            shuffle_judge(run, &d, "real-stream", &x, 1);
            shuffle_two_judge(run, &d, &d2, "real-stream", &x2, 1);
        }
    }
    run.extra("sampled_real_seed_shuffles", serde_json::json!(sampled));
    if CAPPED.load(std::sync::atomic::Ordering::Relaxed) {
        run.cap("an exploration reached 6e6 executions and was cut there (the subject's request tree is larger than the identity-selection one)");
    }
    for r in ["bootstrap-ok", "shuffle-ok", "shuffle: order changed", "shuffle_two-ok", "jackknife-ok", "position-frequencies-ok"] {
        run.require_regime(r);
    }
    run.assume("what is judged is what the property states; the draw structure (which generator calls, how many) is reported as a regime, not prescribed. 'Equally likely' is exact for n ≤ 5 (6) when the subject draws bounded integers or unit floats (exact masses 1/m, interval lengths); an identity selection of one uniform index per position is equally likely by construction at every length; otherwise and in addition the long lengths are decided by the frequency test");
    run.assume("the frequency test treats alea's generator as an ideal source; its total false-alarm probability is 1e-12 (Bernstein bound, union over all cells)");
}
