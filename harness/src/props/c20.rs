//! C20 — covariance kernels are valid positive-definite kernels, scalar and matrix form.
//! Engine E3: parameter lattice × all ordered point tuples from a lattice × argument kinds,
//! closed-form oracle, LDLᵀ in double-double and exhaustive {-1,0,1}^n quadratic forms for PSD.
use crate::common::dd::DD;
use crate::common::enumerate::{combinations, par_words};
use crate::common::refmath::U;
use crate::common::{guard, Run};
use compute::linalg::{Matrix, Vector};
use compute::predict::{Kernel, RBFKernel, RQKernel};
use rayon::prelude::*;

const PARAMS: [f64; 5] = [1e-2, 0.5, 1.0, 3.0, 1e2];
const PTS: [f64; 8] = [-1e3, -2.0, -1.0, 0.0, 0.5, 1.0, 3.0, 1e3];

#[derive(Clone, Copy, Debug)]
enum K {
    Rbf { var: f64, l: f64 },
    Rq { var: f64, alpha: f64, l: f64 },
}
impl K {
    fn name(&self) -> &'static str {
        match self {
            K::Rbf { .. } => "RBF",
            K::Rq { .. } => "RQ",
        }
    }
    fn var(&self) -> f64 {
        match self {
            K::Rbf { var, .. } | K::Rq { var, .. } => *var,
        }
    }
    /// closed form and its relative rounding allowance for distance d
    fn closed(&self, d: f64) -> (f64, f64) {
        match *self {
            K::Rbf { var, l } => {
                let z = d * d / (2.0 * l * l);
                (var * (-z).exp(), (16.0 + 4.0 * z) * U)
            }
            K::Rq { var, alpha, l } => {
                let b = 1.0 + d * d / (2.0 * alpha * l * l);
                (var * b.powf(-alpha), 16.0 * (1.0 + alpha) * U)
            }
        }
    }
    fn scalar(&self, x: f64, y: f64, by_ref: bool) -> f64 {
        match *self {
            K::Rbf { var, l } => {
                let k = RBFKernel::new(var, l);
                if by_ref {
                    <RBFKernel as Kernel<&f64, f64>>::forward(&k, &x, &y)
                } else {
                    <RBFKernel as Kernel<f64, f64>>::forward(&k, x, y)
                }
            }
            K::Rq { var, alpha, l } => {
                let k = RQKernel::new(var, alpha, l);
                if by_ref {
                    <RQKernel as Kernel<&f64, f64>>::forward(&k, &x, &y)
                } else {
                    <RQKernel as Kernel<f64, f64>>::forward(&k, x, y)
                }
            }
        }
    }
    /// matrix form through one of the four argument kinds
    fn matrix(&self, x: &[f64], y: &[f64], kind: usize) -> Matrix {
        let (vx, vy) = (Vector::new(x.to_vec()), Vector::new(y.to_vec()));
        let (mx, my) = (Matrix::new(x.to_vec(), x.len() as i32, 1), Matrix::new(y.to_vec(), 1, y.len() as i32));
        match *self {
            K::Rbf { var, l } => {
                let k = RBFKernel::new(var, l);
                match kind {
                    0 => <RBFKernel as Kernel<Vector, Matrix>>::forward(&k, vx, vy),
                    1 => <RBFKernel as Kernel<&Vector, Matrix>>::forward(&k, &vx, &vy),
                    2 => <RBFKernel as Kernel<Matrix, Matrix>>::forward(&k, mx, my),
                    _ => <RBFKernel as Kernel<&Matrix, Matrix>>::forward(&k, &mx, &my),
                }
            }
            K::Rq { var, alpha, l } => {
                let k = RQKernel::new(var, alpha, l);
                match kind {
                    0 => <RQKernel as Kernel<Vector, Matrix>>::forward(&k, vx, vy),
                    1 => <RQKernel as Kernel<&Vector, Matrix>>::forward(&k, &vx, &vy),
                    2 => <RQKernel as Kernel<Matrix, Matrix>>::forward(&k, mx, my),
                    _ => <RQKernel as Kernel<&Matrix, Matrix>>::forward(&k, &mx, &my),
                }
            }
        }
    }
    /// relative allowance of the matrix form (‖x‖²+‖y‖²−2xy cancellation) at a pair
    fn matrix_tol(&self, x: f64, y: f64) -> f64 {
        let d = x - y;
        match *self {
            K::Rbf { l, .. } => 8.0 * U * (x * x + y * y) / (2.0 * l * l) + self.closed(d).1,
            K::Rq { alpha, l, .. } => {
                let b = 1.0 + d * d / (2.0 * alpha * l * l);
                alpha * 8.0 * U * (x * x + y * y) / (2.0 * alpha * l * l) / b + self.closed(d).1
            }
        }
    }
}

fn kernels(run: &Run) -> Vec<K> {
    let mut v = Vec::new();
    for &var in &PARAMS {
        for &l in &PARAMS {
            v.push(K::Rbf { var, l });
            for &alpha in &PARAMS {
                v.push(K::Rq { var, alpha, l });
            }
        }
    }
    let _ = run;
    v
}

fn scalar_suite(run: &Run, k: &K) {
    let name = k.name();
    let mut dists: Vec<(f64, f64)> = Vec::new(); // (distance, value)
    for &x in &PTS {
        for &y in &PTS {
            for by_ref in [false, true] {
                run.case();
                run.tr();
                run.ok();
                let desc = || format!("{:?} k({}, {})", k, x, y);
                match guard(|| (k.scalar(x, y, by_ref), k.scalar(y, x, by_ref))) {
                    Ok((v, w)) => {
                        let (want, rel) = k.closed(x - y);
                        if v.to_bits() != w.to_bits() {
                            run.violate(&format!("{}/scalar/asymmetric", name), || format!("{}: {:e} vs {:e}", desc(), v, w));
                        }
                        if x == y && v != k.var() {
                            run.violate(&format!("{}/scalar/zero-distance-not-variance", name), || format!("{}: {:e}, variance {:e}", desc(), v, k.var()));
                        }
                        if !(v >= 0.0) || (want > 1e-290 && !(v > 0.0)) {
                            run.violate(&format!("{}/scalar/not-positive", name), || format!("{}: {:e}", desc(), v));
                        }
                        if v > k.var() {
                            run.outcome(&(name, "exceeds"));
                            run.violate(&format!("{}/scalar/exceeds-variance", name), || format!("{}: {:e} > variance {:e}", desc(), v, k.var()));
                        }
                        if !((v - want).abs() <= rel * want + 1e-300) {
                            run.outcome(&(name, "formula"));
                            run.violate(&format!("{}/scalar/closed-form", name), || format!("{}: {:e}, closed form {:e}", desc(), v, want));
                        } else {
                            run.outcome(&(name, "scalar-ok", x == y));
                        }
                        if !by_ref {
                            dists.push(((x - y).abs(), v));
                        }
                    }
                    Err(p) => run.violate(&format!("{}/scalar/panic", name), || format!("{}: {}", desc(), p)),
                }
            }
        }
    }
    // non-increasing in the distance over all pairs of lattice distances
    dists.sort_by(|a, b| a.0.partial_cmp(&b.0).unwrap());
    for w in dists.windows(2) {
        if w[1].0 > w[0].0 && w[1].1 > w[0].1 * (1.0 + 64.0 * U) {
            run.violate(&format!("{}/scalar/increases-with-distance", name), || format!("{:?}: k at distance {} is {:e} but at distance {} it is {:e}", k, w[0].0, w[0].1, w[1].0, w[1].1));
            break;
        }
    }
}

fn matrix_suite(run: &Run, k: &K, x: &[f64], y: &[f64], kinds: &[usize]) {
    let name = k.name();
    for &kind in kinds {
        run.case();
        run.tr();
        run.ok();
        let desc = || format!("{:?} forward(x={:?}, y={:?}) argument kind {}", k, x, y, ["Vector", "&Vector", "Matrix", "&Matrix"][kind]);
        match guard(|| k.matrix(x, y, kind)) {
            Ok(m) => {
                if m.shape() != [x.len(), y.len()] || m.data.len() != x.len() * y.len() {
                    run.outcome(&(name, "shape"));
                    run.violate(&format!("{}/matrix/shape", name), || format!("{}: shape {:?}", desc(), m.shape()));
                    continue;
                }
                let mut ok = true;
                for i in 0..x.len() {
                    for j in 0..y.len() {
                        let s = k.scalar(x[i], y[j], false);
                        let g = m[[i, j]];
                        let tol = k.matrix_tol(x[i], y[j]);
                        let (want, _) = k.closed(x[i] - y[j]);
                        if !((g - want).abs() <= tol * want.max(g.abs()) + 1e-300) && !((g - s).abs() <= tol * s.abs() + 1e-300) {
                            run.outcome(&(name, "entry"));
                            run.violate(&format!("{}/matrix/entry-differs-from-scalar-form", name), || format!("{}: entry ({},{}) = {:e}, scalar form {:e}, closed form {:e}", desc(), i, j, g, s, want));
                            ok = false;
                            break;
                        }
                        if g > k.var() * (1.0 + tol) {
                            run.violate(&format!("{}/matrix/exceeds-variance", name), || format!("{}: entry ({},{}) = {:e} > variance", desc(), i, j, g));
                            ok = false;
                            break;
                        }
                    }
                    if !ok {
                        break;
                    }
                }
                if ok {
                    run.outcome(&(name, "matrix-ok", kind, x.len() == y.len()));
                    run.regime("matrix-form-ok");
                }
            }
            Err(p) => run.violate(&format!("{}/matrix/panic", name), || format!("{}: {}", desc(), p)),
        }
    }
}

fn gram_suite(run: &Run, k: &K, pts: &[f64]) {
    let n = pts.len();
    let name = k.name();
    run.case();
    run.tr();
    run.ok();
    let desc = || format!("{:?} Gram matrix of {:?}", k, pts);
    let g = match guard(|| k.matrix(pts, pts, 1)) {
        Ok(g) => g,
        Err(p) => {
            run.violate(&format!("{}/gram/panic", name), || format!("{}: {}", desc(), p));
            return;
        }
    };
    if g.shape() != [n, n] {
        run.violate(&format!("{}/gram/shape", name), || format!("{}: {:?}", desc(), g.shape()));
        return;
    }
    for i in 0..n {
        for j in 0..i {
            if g[[i, j]].to_bits() != g[[j, i]].to_bits() {
                run.violate(&format!("{}/gram/asymmetric", name), || format!("{}: K[{}][{}] = {:e}, K[{}][{}] = {:e}", desc(), i, j, g[[i, j]], j, i, g[[j, i]]));
                return;
            }
        }
    }
    let var = k.var();
    // rounding allowance of the entries (cancellation in the matrix form)
    let eps: f64 = (0..n).map(|i| (0..n).map(|j| k.matrix_tol(pts[i], pts[j]) * g[[i, j]].abs()).fold(0.0, f64::max)).fold(0.0, f64::max);
    // exhaustive quadratic forms z ∈ {-1,0,1}^n
    let mut worst = 0.0f64;
    let mut wz = vec![0i32; n];
    for code in 0..3usize.pow(n as u32) {
        let z: Vec<f64> = (0..n).map(|i| ((code / 3usize.pow(i as u32)) % 3) as f64 - 1.0).collect();
        let mut q = DD::ZERO;
        for i in 0..n {
            for j in 0..n {
                q = q + DD::new(z[i] * z[j]) * DD::new(g[[i, j]]);
            }
        }
        if q.f() < worst {
            worst = q.f();
            wz = z.iter().map(|v| *v as i32).collect();
        }
    }
    let tolq = (n * n) as f64 * (U * var + eps) * 4.0;
    if worst < -tolq {
        run.outcome(&(name, "not-psd"));
        run.violate(&format!("{}/gram/not-positive-semidefinite", name), || format!("{}: z^T K z = {:e} for z = {:?} (K = {:?})", desc(), worst, wz, g.data.v));
        return;
    }
    // smallest eigenvalue by cyclic Jacobi rotations in double-double. (An LDLᵀ pivot test was
    // tried first and is unsound here: for a nearly singular Gram matrix whose smallest
    // eigenvalue is −1e-16, i.e. within rounding of PSD, the last pivot can be −5e-13.)
    let lam_min = jacobi_min_eig(&g.data.iter().map(|v| DD::new(*v)).collect::<Vec<_>>(), n);
    let tol_eig = (n as f64) * (U * var + eps) * 4.0;
    if lam_min < -tol_eig {
        run.outcome(&(name, "not-psd"));
        run.violate(&format!("{}/gram/not-positive-semidefinite", name), || format!("{}: smallest eigenvalue {:e} < -{:e} (K = {:?})", desc(), lam_min, tol_eig, g.data.v));
        return;
    }
    run.outcome(&(name, "gram-ok", n));
    run.regime("gram-psd");
}

pub fn run(run: &Run) {
    run.rule("RBF (25) and rational-quadratic (125) kernels over the parameter lattice {1e-2,.5,1,3,1e2}; scalar form on all 64 ordered pairs of an 8-point lattice in ±1e3 × {f64,&f64}; matrix form on every ordered tuple of 1..=2 (3 thorough) first-argument points × 1..=3 second-argument points for 6 kernels × 4 argument kinds and on fixed n≠m tuples and a set of nearly coincident points (1–3 ulps apart) for all kernels, and on every pair of point-set sizes from {1,2,7,8,9,16,17,31,32,33,40,59,60} (every pair of sizes 1..=60 thorough) for 6 kernels; Gram matrices of every point set of size 1..=5 (6 thorough) from the lattice; non-trivial = distinct points");
    // self-test of the eigenvalue oracle
    let e1 = jacobi_min_eig(&[2.0, -1.0, -1.0, 2.0].map(DD::new), 2);
    let e2 = jacobi_min_eig(&[1.0, 2.0, 0.0, 2.0, 1.0, 2.0, 0.0, 2.0, 1.0].map(DD::new), 3);
    if (e1 - 1.0).abs() > 1e-25 || (e2 - (1.0 - 2.0 * 2f64.sqrt())).abs() > 1e-14 {
        run.machinery_error(format!("Jacobi eigenvalue self-test failed: {:e} {:e}", e1, e2));
    }
    let ks = kernels(run);
    ks.par_iter().for_each(|k| {
        scalar_suite(run, k);
        run.nontrivial(64);
        // fixed tuples with n != m for every kernel and every argument kind
        matrix_suite(run, k, &[-2.0, 0.5, 3.0], &[0.0, 1.0], &[0, 1, 2, 3]);
        // the same pair with the arguments exchanged, right after (and back)
        matrix_suite(run, k, &[0.0, 1.0], &[-2.0, 0.5, 3.0], &[3, 2, 1, 0]);
        matrix_suite(run, k, &[-2.0, 0.5, 3.0], &[0.0, 1.0], &[2]);
        matrix_suite(run, k, &[1.0, 4.0, -3.0], &[0.5, 2.0, 7.0], &[0, 1]);
        matrix_suite(run, k, &[0.5, 2.0, 7.0], &[1.0, 4.0, -3.0], &[0, 1]);
        matrix_suite(run, k, &[1.0], &[-1.0, 0.0, 0.5, 1e3], &[0, 1, 2, 3]);
        matrix_suite(run, k, &[-1e3, 1e3, 0.5, 0.5, 3.0], &[3.0, -1e3], &[1, 3]);
        // nearly coincident points (a few ulps apart): the ‖x‖²+‖y‖²−2xy form cancels to ±rounding there
        let s27: f64 = (0..27).map(|_| 0.1).sum();
        let near = [2.7, s27, f64::from_bits(2.7f64.to_bits() + 1), f64::from_bits(2.7f64.to_bits() - 3), 0.3, 0.1 + 0.2, 1e3, f64::from_bits(1e3f64.to_bits() + 1), -7.1, f64::from_bits((-7.1f64).to_bits() + 2)];
        matrix_suite(run, k, &near, &near, &[0, 1, 2, 3]);
        matrix_suite(run, k, &near[..4], &near[4..], &[1, 2]);
        gram_suite(run, k, &near[..6]);
        // distinct points at relative separations 1e-5 .. 1e-8, far from the origin relative to the length scale
        let apart = [750.3, 750.30148, 750.30075, 750.300001, -40.7, -40.699889, -40.6999, 1e3, 1e3 + 1e-3, 1e3 + 1e-4, 1e3 + 2e-5];
        matrix_suite(run, k, &apart, &apart, &[0, 1, 2, 3]);
        matrix_suite(run, k, &apart[..4], &apart[4..], &[1, 2]);
    });
    run.sample(|| "RQ{var=1,alpha=1,l=1}: k(0,2) must be (1+2)^-1 = 1/3 <= k(0,0) = 1; forward([-2,.5,3],[0,1]) is 3x2 and equals the scalar form entry by entry".to_string());
    // all ordered tuples for a subset of kernels
    let sub: Vec<K> = vec![
        K::Rbf { var: 1.0, l: 1.0 },
        K::Rbf { var: 3.0, l: 0.5 },
        K::Rbf { var: 1e-2, l: 1e2 },
        K::Rq { var: 1.0, alpha: 1.0, l: 1.0 },
        K::Rq { var: 0.5, alpha: 3.0, l: 3.0 },
        K::Rq { var: 1e2, alpha: 1e-2, l: 0.5 },
    ];
    let xmax = run.tier.pick(2usize, 3usize);
    run.bound("matrix-form tuples", format!("all ordered tuples of 1..={} points × 1..=3 points from an 8-point lattice, 6 kernels × 4 argument kinds", xmax));
    for k in &sub {
        for nx in 1..=xmax {
            for ny in 1..=3usize {
                par_words(8, nx + ny, |w| {
                    let x: Vec<f64> = w[..nx].iter().map(|&i| PTS[i]).collect();
                    let y: Vec<f64> = w[nx..].iter().map(|&i| PTS[i]).collect();
                    let kinds: &[usize] = if nx + ny <= 3 { &[0, 1, 2, 3] } else { &[1, 3] };
                    matrix_suite(run, k, &x, &y, kinds);
                    if nx >= 2 && ny >= 2 {
                        matrix_suite(run, k, &y, &x, &kinds[..1]);
                    }
                    run.nontrivial(1);
                });
            }
        }
    }
    // the same point set as both arguments (K(x,x)): every ordered tuple of 4..=5 (6) points from a 6-point
    // lattice - sorted, unsorted, with repeats, evenly spaced, and evenly spaced at the ends only
    let same_lat = [-1.0, 0.0, 1.0, 1.5, 3.0, 4.0];
    let same_max = run.tier.pick(5usize, 6usize);
    run.bound("same-set tuples", format!("all ordered tuples of 4..={} points from a 6-point lattice as both arguments, 6 kernels × 4 argument kinds; 12 structured sets", same_max));
    for k in &sub {
        for n in 4..=same_max {
            par_words(same_lat.len(), n, |w| {
                let x: Vec<f64> = w.iter().map(|&i| same_lat[i]).collect();
                let kinds: &[usize] = if w[0] % 2 == 0 { &[0, 3] } else { &[1, 2] };
                matrix_suite(run, k, &x, &x, kinds);
                run.nontrivial(1);
            });
        }
        let structured: Vec<Vec<f64>> = vec![
            vec![0.0, 1.0, 1.5, 3.0, 4.0],
            vec![3.0, 2.0, 2.0, -1.0, -1.0, 0.0, -1.0],
            vec![0.0, 1.0, 1.1, 1.2, 1.3, 5.0, 6.0],
            vec![0.0, 2.0, 2.5, 3.0, 9.5, 10.0, 12.0],
            vec![10.0, 10.5, 10.625, 12.0, 12.5],
            (0..9).map(|i| 0.5 * i as f64).collect(),
            (0..9).map(|i| if i == 4 { 2.25 } else { 0.5 * i as f64 }).collect(),
            (0..33).map(|i| if i == 17 { 1.0 } else { 0.25 * i as f64 - 4.0 }).collect(),
            (0..33).map(|i| 0.25 * i as f64 - 4.0).collect(),
            (0..12).map(|i| 4.0 - (i as f64) / 3.0).collect(),
            vec![1.0; 6],
            vec![-2.0, -2.0, 0.0, 2.0, 2.0],
        ];
        for x in &structured {
            matrix_suite(run, k, x, x, &[0, 1, 2, 3]);
            let shifted: Vec<f64> = x.iter().map(|v| v + 100.0).collect();
            matrix_suite(run, k, &shifted, &shifted, &[1, 3]);
            run.nontrivial(2);
        }
    }
    // every shape: point sets of 1..60 points on either side (sizes straddling 8, 16, 32 where a
    // product underneath may change its blocking), dyadic points, both argument kinds per shape
    let sizes: Vec<usize> = if run.thorough() { (1..=60).collect() } else { vec![1, 2, 7, 8, 9, 16, 17, 31, 32, 33, 40, 59, 60] };
    run.bound("matrix-form shapes", format!("{} × {} point-set sizes up to 60 × 6 kernels", sizes.len(), sizes.len()));
    let shape_jobs: Vec<(usize, usize)> = sizes.iter().flat_map(|&a| sizes.iter().map(move |&b| (a, b))).collect();
    shape_jobs.par_iter().for_each(|&(nx, ny)| {
        let x: Vec<f64> = (0..nx).map(|i| -3.0 + 0.125 * i as f64).collect();
        let y: Vec<f64> = (0..ny).map(|j| 2.5 - 0.0625 * (j * 3 % 61) as f64).collect();
        for (ki, k) in sub.iter().enumerate() {
            let kinds: &[usize] = if (nx + ny + ki) % 2 == 0 { &[0, 3] } else { &[1, 2] };
            matrix_suite(run, k, &x, &y, kinds);
            run.nontrivial(1);
        }
    });
    // Gram matrices of every point set
    let gmax = run.tier.pick(5usize, 8usize);
    run.bound("Gram point sets", format!("every subset of size 1..={} of the 8-point lattice (plus a 60-point dyadic grid in thorough) for all 150 kernels", gmax));
    let mut sets: Vec<Vec<f64>> = Vec::new();
    for sz in 1..=gmax {
        combinations(PTS.len(), sz, |c| sets.push(c.iter().map(|&i| PTS[i]).collect()));
    }
    ks.par_iter().for_each(|k| {
        for s in &sets {
            gram_suite(run, k, s);
        }
        run.nontrivial(sets.len() as u64);
    });
    if run.thorough() {
        // 60 points on a dyadic grid: symmetry, diagonal, bounds and entrywise agreement
        let grid: Vec<f64> = (0..60).map(|i| -4.0 + i as f64 * 0.125).collect();
        ks.par_iter().for_each(|k| {
            matrix_suite(run, k, &grid, &grid, &[1, 3]);
            matrix_suite(run, k, &grid[..17], &grid[20..], &[0, 2]);
        });
    }
    run.require_regime("matrix-form-ok");
    run.require_regime("gram-psd");
    run.assume("matrix form: agreement with the scalar/closed form up to the cancellation error of ‖x‖²+‖y‖²−2xy, 8u(x²+y²)/(2ℓ²) in the exponent (RBF) or base (RQ)");
    run.assume("PSD is certified by z^T K z ≥ −4n²(u·var + entry rounding) for every z in {-1,0,1}^n and by an LDLᵀ factorisation in double-double");
}

/// smallest eigenvalue of a symmetric matrix by cyclic Jacobi in double-double
fn jacobi_min_eig(a: &[DD], n: usize) -> f64 {
    let mut a = a.to_vec();
    for _sweep in 0..60 {
        let mut off = 0.0f64;
        for p in 0..n {
            for q in p + 1..n {
                off = off.max(a[p * n + q].f().abs());
            }
        }
        let scale = (0..n).map(|i| a[i * n + i].f().abs()).fold(0.0, f64::max).max(1e-300);
        if off <= 1e-30 * scale {
            break;
        }
        for p in 0..n {
            for q in p + 1..n {
                let apq = a[p * n + q];
                if apq.f() == 0.0 {
                    continue;
                }
                // rotation angle: t = sign(θ)/(|θ|+sqrt(θ²+1)), θ = (aqq−app)/(2apq)
                let theta = (a[q * n + q] - a[p * n + p]) / (DD::new(2.0) * apq);
                let t = {
                    let r = (theta * theta + DD::ONE).sqrt();
                    let d = theta.abs() + r;
                    let t = DD::ONE / d;
                    if theta.f() < 0.0 {
                        -t
                    } else {
                        t
                    }
                };
                let c = DD::ONE / (t * t + DD::ONE).sqrt();
                let sn = t * c;
                for k in 0..n {
                    let akp = a[k * n + p];
                    let akq = a[k * n + q];
                    a[k * n + p] = c * akp - sn * akq;
                    a[k * n + q] = sn * akp + c * akq;
                }
                for k in 0..n {
                    let apk = a[p * n + k];
                    let aqk = a[q * n + k];
                    a[p * n + k] = c * apk - sn * aqk;
                    a[q * n + k] = sn * apk + c * aqk;
                }
            }
        }
    }
    (0..n).map(|i| a[i * n + i].f()).fold(f64::INFINITY, f64::min)
}
