//! Shared helpers for the linear-algebra properties (C01, C11, C14, C13).
use crate::common::dd::DD;
use crate::common::refmath::U;

pub fn inf_norm(a: &[f64], n: usize, m: usize) -> f64 {
    (0..n).map(|i| (0..m).map(|j| a[i * m + j].abs()).sum::<f64>()).fold(0.0, f64::max)
}

/// ‖A·X − B‖∞ (X, B are n×m row-major), evaluated in double-double
pub fn resid_inf(a: &[f64], n: usize, x: &[f64], b: &[f64], m: usize) -> f64 {
    let mut worst = 0.0f64;
    for i in 0..n {
        let mut rowsum = 0.0;
        for c in 0..m {
            let mut s = DD::new(-b[i * m + c]);
            for k in 0..n {
                s = s + DD::new(a[i * n + k]) * DD::new(x[k * m + c]);
            }
            rowsum += s.f().abs();
        }
        worst = worst.max(rowsum);
    }
    worst
}

/// normwise backward error ‖AX−B‖ / (‖A‖‖X‖+‖B‖)
pub fn backward_error(a: &[f64], n: usize, x: &[f64], b: &[f64], m: usize) -> f64 {
    let r = resid_inf(a, n, x, b, m);
    let den = inf_norm(a, n, n) * inf_norm(x, n, m) + inf_norm(b, n, m);
    if den == 0.0 {
        r
    } else {
        r / den
    }
}

pub fn solve_bound(n: usize) -> f64 {
    64.0 * (n * n) as f64 * U
}

const P61: u128 = (1u128 << 61) - 1;
fn modp(x: i128) -> u128 {
    let r = x.rem_euclid(P61 as i128);
    r as u128
}
fn powmod(mut b: u128, mut e: u128) -> u128 {
    let mut r = 1u128;
    b %= P61;
    while e > 0 {
        if e & 1 == 1 {
            r = r * b % P61;
        }
        b = b * b % P61;
        e >>= 1;
    }
    r
}
/// determinant of an integer matrix modulo 2^61−1: non-zero ⇒ the matrix is nonsingular
pub fn det_mod(a: &[i128], n: usize) -> u128 {
    let mut m: Vec<u128> = a.iter().map(|&v| modp(v)).collect();
    let mut det = 1u128;
    for c in 0..n {
        let mut p = None;
        for r in c..n {
            if m[r * n + c] != 0 {
                p = Some(r);
                break;
            }
        }
        let p = match p {
            Some(p) => p,
            None => return 0,
        };
        if p != c {
            for k in 0..n {
                m.swap(p * n + k, c * n + k);
            }
            det = (P61 - det) % P61;
        }
        det = det * m[c * n + c] % P61;
        let inv = powmod(m[c * n + c], P61 - 2);
        for r in c + 1..n {
            if m[r * n + c] != 0 {
                let f = m[r * n + c] * inv % P61;
                for k in c..n {
                    m[r * n + k] = (m[r * n + k] + P61 - f * m[c * n + k] % P61) % P61;
                }
            }
        }
    }
    det
}

/// scale a dyadic f64 matrix to integers: returns (ints, log2 scale) or None
pub fn to_ints(a: &[f64]) -> Option<(Vec<i128>, i32)> {
    // find the smallest exponent e such that every a·2^e is an integer
    let mut e = 0i32;
    for &v in a {
        if v == 0.0 {
            continue;
        }
        if !v.is_finite() {
            return None;
        }
        let mut k = 0;
        let mut w = v;
        while w.fract() != 0.0 {
            w *= 2.0;
            k += 1;
            if k > 200 {
                return None;
            }
        }
        e = e.max(k);
    }
    let s = 2f64.powi(e);
    let mut out = Vec::with_capacity(a.len());
    for &v in a {
        let w = v * s;
        if w.abs() > 1e30 {
            return None;
        }
        out.push(w as i128);
    }
    Some((out, e))
}

/// true iff the dyadic matrix is certainly nonsingular
pub fn nonsingular(a: &[f64], n: usize) -> Option<bool> {
    // scale out a common power of two first so that tiny matrices stay representable
    let mx = a.iter().fold(0.0f64, |m, v| m.max(v.abs()));
    if mx == 0.0 {
        return Some(false);
    }
    let sh = -(mx.log2().floor() as i32);
    let scaled: Vec<f64> = a.iter().map(|v| v * 2f64.powi(sh)).collect();
    let (ints, _) = to_ints(&scaled)?;
    Some(det_mod(&ints, n) != 0)
}

// ---- structured families ------------------------------------------------------------------------
pub fn minmat(n: usize) -> Vec<f64> {
    (0..n * n).map(|t| ((t / n).min(t % n) + 1) as f64).collect()
}
pub fn pascal(n: usize) -> Vec<f64> {
    let mut p = vec![0.0; n * n];
    for i in 0..n {
        for j in 0..n {
            p[i * n + j] = if i == 0 || j == 0 { 1.0 } else { p[(i - 1) * n + j] + p[i * n + j - 1] };
        }
    }
    p
}
pub fn tridiag(n: usize, lo: f64, d: f64, up: f64) -> Vec<f64> {
    let mut a = vec![0.0; n * n];
    for i in 0..n {
        a[i * n + i] = d;
        if i + 1 < n {
            a[i * n + i + 1] = up;
            a[(i + 1) * n + i] = lo;
        }
    }
    a
}
/// diagonally dominant, non-symmetric
pub fn ddom(n: usize) -> Vec<f64> {
    let mut a = vec![0.0; n * n];
    for i in 0..n {
        for j in 0..n {
            a[i * n + j] = if i == j { 4.0 * n as f64 + (i % 3) as f64 } else { ((i * 7 + j * 3) % 5) as f64 - 2.0 };
        }
    }
    a
}
/// P·D·T: permuted, scaled unit-upper-triangular integer matrix; returns (matrix, exact det)
pub fn pdt(n: usize, variant: usize) -> (Vec<f64>, f64) {
    let mut t = vec![0.0; n * n];
    for i in 0..n {
        t[i * n + i] = 1.0;
        for j in i + 1..n {
            t[i * n + j] = (((i + 2 * j + variant) % 5) as f64) - 2.0;
        }
    }
    let d: Vec<f64> = (0..n).map(|i| [2.0, -1.0, 0.5, 3.0, -4.0][(i + variant) % 5]).collect();
    // cyclic shift permutation by `variant+1` composed with a swap
    let mut perm: Vec<usize> = (0..n).map(|i| (i + variant + 1) % n).collect();
    if n > 2 {
        perm.swap(0, n - 1);
    }
    let mut a = vec![0.0; n * n];
    for i in 0..n {
        for j in 0..n {
            a[i * n + j] = d[perm[i]] * t[perm[i] * n + j];
        }
    }
    let mut det: f64 = d.iter().product();
    // sign of perm
    let mut seen = vec![false; n];
    for s in 0..n {
        if !seen[s] {
            let mut len = 0;
            let mut k = s;
            while !seen[k] {
                seen[k] = true;
                k = perm[k];
                len += 1;
            }
            if len % 2 == 0 {
                det = -det;
            }
        }
    }
    (a, det)
}
/// symmetric, positive diagonal, indefinite: 1 on the diagonal, 2 beside it
pub fn sym_indef(n: usize) -> Vec<f64> {
    tridiag(n, 2.0, 1.0, 2.0)
}
/// graded SPD: D·minmat·D with D = diag(2^(−k·i/(n−1))) — condition grows like 4^k·n²
pub fn graded(n: usize, k: i32) -> Vec<f64> {
    let m = minmat(n);
    let d: Vec<f64> = (0..n).map(|i| 2f64.powi(-((k as i64 * i as i64) / (n.max(2) as i64 - 1)) as i32)).collect();
    (0..n * n).map(|t| d[t / n] * m[t] * d[t % n]).collect()
}

pub fn perm_sign(p: &[usize]) -> i32 {
    let n = p.len();
    let mut seen = vec![false; n];
    let mut sign = 1;
    for s in 0..n {
        if !seen[s] {
            let mut len = 0;
            let mut k = s;
            while !seen[k] {
                seen[k] = true;
                k = p[k];
                len += 1;
            }
            if len % 2 == 0 {
                sign = -sign;
            }
        }
    }
    sign
}

/// κ∞(A) = ‖A‖∞‖A⁻¹‖∞ with the inverse from Gauss–Jordan elimination in double-double
/// (partial pivoting). None if a pivot vanishes in double-double.
pub fn cond_inf(a: &[f64], n: usize) -> Option<f64> {
    let mut m: Vec<DD> = a.iter().map(|&v| DD::new(v)).collect();
    let mut inv: Vec<DD> = (0..n * n).map(|t| if t / n == t % n { DD::ONE } else { DD::ZERO }).collect();
    for c in 0..n {
        let mut p = c;
        for r in c + 1..n {
            if m[r * n + c].hi.abs() > m[p * n + c].hi.abs() {
                p = r;
            }
        }
        if m[p * n + c].hi == 0.0 {
            return None;
        }
        if p != c {
            for k in 0..n {
                m.swap(p * n + k, c * n + k);
                inv.swap(p * n + k, c * n + k);
            }
        }
        let piv = m[c * n + c];
        for k in 0..n {
            m[c * n + k] = m[c * n + k] / piv;
            inv[c * n + k] = inv[c * n + k] / piv;
        }
        for r in 0..n {
            if r != c && m[r * n + c].hi != 0.0 {
                let f = m[r * n + c];
                for k in 0..n {
                    m[r * n + k] = m[r * n + k] - f * m[c * n + k];
                    inv[r * n + k] = inv[r * n + k] - f * inv[c * n + k];
                }
            }
        }
    }
    let invf: Vec<f64> = inv.iter().map(|d| d.f()).collect();
    let k = inf_norm(a, n, n) * inf_norm(&invf, n, n);
    if k.is_finite() {
        Some(k)
    } else {
        None
    }
}

/// deterministic pseudo-random dense matrix with entries that are multiples of 1/8 in [-4, 4]
pub fn lcg_dense(n: usize, m: usize, seed: u64) -> Vec<f64> {
    let mut s = seed.wrapping_mul(0x9E3779B97F4A7C15).wrapping_add(0x1234_5678_9abc_def1);
    (0..n * m)
        .map(|_| {
            s = s.wrapping_mul(6364136223846793005).wrapping_add(1442695040888963407);
            (((s >> 33) % 65) as f64 - 32.0) / 8.0
        })
        .collect()
}
/// AᵀA + I for a dense dyadic A: exactly symmetric, positive definite
pub fn gram_spd(a: &[f64], n: usize) -> Vec<f64> {
    let mut g = vec![0.0; n * n];
    for i in 0..n {
        for j in 0..n {
            g[i * n + j] = (0..n).map(|k| a[k * n + i] * a[k * n + j]).sum::<f64>() + if i == j { 1.0 } else { 0.0 };
        }
    }
    g
}
