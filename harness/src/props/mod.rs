use crate::common::run::Run;
pub mod c01;
pub mod c02;
pub mod c03;
pub mod c04;
pub mod c05;
pub mod c06;
pub mod c07;
pub mod c08;
pub mod c09;
pub mod c10;
pub mod c11;
pub mod c12;
pub mod c13;
pub mod c14;
pub mod lin;
pub mod c15;
pub mod c16;
pub mod c17;
pub mod c18;
pub mod c19;
pub mod c20;

pub fn lookup(id: &str) -> Option<fn(&Run)> {
    Some(match id {
        "C01" => c01::run,
        "C02" => c02::run,
        "C03" => c03::run,
        "C04" => c04::run,
        "C05" => c05::run,
        "C06" => c06::run,
        "C07" => c07::run,
        "C08" => c08::run,
        "C09" => c09::run,
        "C10" => c10::run,
        "C11" => c11::run,
        "C12" => c12::run,
        "C13" => c13::run,
        "C14" => c14::run,
        "C15" => c15::run,
        "C16" => c16::run,
        "C17" => c17::run,
        "C18" => c18::run,
        "C19" => c19::run,
        "C20" => c20::run,
        _ => return None,
    })
}
