use crate::common::run::Run;
pub mod c05;

pub fn lookup(id: &str) -> Option<fn(&Run)> {
    Some(match id {
        "C05" => c05::run,
        _ => return None,
    })
}
