#!/bin/bash
# Build the harness offline from files on disk; verify the alea shim is upstream + seam.
set -e
export CARGO_NET_OFFLINE=true
cd /verif
REG=$(ls -d ~/.cargo/registry/src/*/alea-0.2.2 2>/dev/null | head -1)
if [ -n "$REG" ]; then
  if ! cmp -s "$REG/src/lib.rs" shims/alea/src/upstream.rs.orig; then
    echo "setup: WARNING registry alea-0.2.2 differs from the copy the shim was derived from" >&2
  fi
fi
# the shim must be upstream + exactly the three seams
python3 - <<'PY'
import re,sys
up=open('/verif/shims/alea/src/upstream.rs.orig').read()
sh=open('/verif/shims/alea/src/lib.rs').read()
sh=sh.split('pub mod script;\n\n',1)[1]
sh=re.sub(r"        if let Some\(a\) = script::intercept\(script::Kind::\w+(\(max\))?\) \{\n            return a\.as_\w+\((max)?\);\n        \}\n","",sh)
if sh!=up:
    print("setup: alea shim is not upstream + seams", file=sys.stderr); sys.exit(1)
PY
cd /verif/harness
cargo build --release --offline

echo "setup: ok"
