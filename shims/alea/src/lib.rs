// alea 0.2.2 upstream lib.rs, verbatim, plus the three `script::intercept` seams
// (Rng::u64, Rng::f64, Rng::u64_less_than) and `pub mod script;`. See /verif/DESIGN.md §1.
pub mod script;

use std::{
    cell::Cell,
    collections::hash_map::DefaultHasher,
    hash::{Hash, Hasher},
    thread,
    time::Instant,
};

#[derive(Debug)]
/// Random number generator.
pub struct Rng(Cell<u64>);

const CF64: f64 = 1.0 / ((1u64 << 53) as f64);

impl Rng {
    #[inline]
    pub fn new() -> Self {
        Self::with_seed({
            let mut hasher = DefaultHasher::new();
            Instant::now().hash(&mut hasher);
            thread::current().id().hash(&mut hasher);
            let hash = hasher.finish();
            (hash << 1) | 1
        })
    }

    #[inline]
    pub const fn with_seed(seed: u64) -> Self {
        Self { 0: Cell::new(seed) }
    }

    #[inline]
    pub fn get_seed(&self) -> u64 {
        self.0.get()
    }

    #[inline]
    pub fn set_seed(&self, seed: u64) {
        self.0.set(seed);
    }

    #[inline]
    pub fn u64(&self) -> u64 {
        if let Some(a) = script::intercept(script::Kind::Word) {
            return a.as_word();
        }
        self.0.set(self.0.get().wrapping_add(0xa0761d6478bd642f));
        let s = self.0.get();
        let t = u128::from(s) * (u128::from(s ^ 0xe7037ed1a0b428db));
        ((t >> 64) as u64) ^ (t as u64)
    }

    #[inline]
    pub fn u32(&self) -> u32 {
        self.u64() as u32
    }

    #[inline]
    pub fn f64(&self) -> f64 {
        if let Some(a) = script::intercept(script::Kind::Unit) {
            return a.as_unit();
        }
        ((self.u64() >> 11) as f64) * CF64
    }

    #[inline]
    pub fn f32(&self) -> f32 {
        (self.u32() as f32) / (u32::MAX as f32)
    }

    #[inline]
    pub fn i64(&self) -> i64 {
        self.u64() as i64
    }

    #[inline]
    pub fn i32(&self) -> i32 {
        self.u32() as i32
    }

    #[inline]
    pub fn u64_less_than(&self, max: u64) -> u64 {
        if let Some(a) = script::intercept(script::Kind::Below(max)) {
            return a.as_below(max);
        }
        let mut r = self.u64();
        let mut hi = mul_high_u64(r, max);
        let mut lo = r.wrapping_mul(max);
        if lo < max {
            let t = max.wrapping_neg() % max;
            while lo < t {
                r = self.u64();
                hi = mul_high_u64(r, max);
                lo = r.wrapping_mul(max);
            }
        }
        hi
    }

    #[inline]
    pub fn u32_less_than(&self, max: u32) -> u32 {
        let mut r = self.u32();
        let mut hi = mul_high_u32(r, max);
        let mut lo = r.wrapping_mul(max);
        if lo < max {
            let t = max.wrapping_neg() % max;
            while lo < t {
                r = self.u32();
                hi = mul_high_u32(r, max);
                lo = r.wrapping_mul(max);
            }
        }
        hi
    }

    #[inline]
    pub fn f64_less_than(&self, max: f64) -> f64 {
        assert!(max > 0., "max must be positive");
        self.f64() * max
    }

    #[inline]
    pub fn f32_less_than(&self, max: f32) -> f32 {
        assert!(max > 0., "max must be positive");
        self.f32() * max
    }

    #[inline]
    pub fn i64_less_than(&self, max: i64) -> i64 {
        self.u64_less_than(max as u64) as i64
    }

    #[inline]
    pub fn i32_less_than(&self, max: i32) -> i32 {
        self.u32_less_than(max as u32) as i32
    }

    #[inline]
    pub fn u64_in_range(&self, min: u64, max: u64) -> u64 {
        assert!(max > min, "max must be greater than min");
        min + self.u64_less_than(max + 1 - min)
    }

    #[inline]
    pub fn u32_in_range(&self, min: u32, max: u32) -> u32 {
        assert!(max > min, "max must be greater than min");
        min + self.u32_less_than(max + 1 - min)
    }

    #[inline]
    pub fn f64_in_range(&self, min: f64, max: f64) -> f64 {
        assert!(max > min, "max must be greater than min");
        min + self.f64_less_than(max - min)
    }

    #[inline]
    pub fn f32_in_range(&self, min: f32, max: f32) -> f32 {
        assert!(max > min, "max must be greater than min");
        min + self.f32_less_than(max - min)
    }

    #[inline]
    pub fn i64_in_range(&self, min: i64, max: i64) -> i64 {
        assert!(max > min, "max must be greater than min");
        min + self.i64_less_than(max + 1 - min)
    }

    #[inline]
    pub fn i32_in_range(&self, min: i32, max: i32) -> i32 {
        assert!(max > min, "max must be greater than min");
        min + self.i32_less_than(max + 1 - min)
    }

    #[inline]
    pub fn bool(&self) -> bool {
        self.f32() < 0.5
    }

    #[inline]
    pub fn wyhash_u64(&self) -> u64 {
        self.0.set(self.0.get() + 0x60bee2bee120fc15);
        let mut tmp: u128 = (self.0.get() as u128) * 0xa3b195354a39b70d;
        let m1: u64 = ((tmp >> 64) ^ tmp) as u64;
        tmp = (m1 as u128) * 0x1b03738712fad5c9;
        ((tmp >> 64) ^ tmp) as u64
    }

    #[inline]
    pub fn wyhash_f64(&self) -> f64 {
        (self.wyhash_u64() as f64) / (u64::MAX as f64)
    }
}

#[inline]
fn mul_high_u32(a: u32, b: u32) -> u32 {
    (((a as u64) * (b as u64)) >> 32) as u32
}

#[inline]
fn mul_high_u64(a: u64, b: u64) -> u64 {
    (((a as u128) * (b as u128)) >> 64) as u64
}

thread_local! {
    static RNG: Rng = Rng::new();
}

#[doc = "Get the seed for the random number generator."]
pub fn get_seed() -> u64 {
    RNG.with(|rng| rng.get_seed())
}

#[doc = "Set the seed for the random number generator."]
pub fn set_seed(seed: u64) {
    RNG.with(|rng| rng.set_seed(seed));
}

macro_rules! impl_rng_functions {
($doc1: tt $doc2: tt | $($fn: ident $type: ident $($arg: ident)* ),+ $(,)?) => {
    $(
    #[doc = $doc1]
    #[doc = stringify!($type)]
    #[doc = $doc2]
    pub fn $fn( $($arg: $type, )* ) -> $type {
        RNG.with(|rng| rng.$fn( $($arg, )* ))
    }
    )+
};
}

macro_rules! impl_rng_functions_helper_1 {
($doc1: tt $doc2: tt | $($type: ident, )+) => {
    impl_rng_functions!($doc1 $doc2 | $($type $type, )+);
};
}

macro_rules! impl_rng_functions_helper_2 {
($doc1: tt $doc2: tt | $($fn: tt $type: ident, )+) => {
    impl_rng_functions!($doc1 $doc2 | $($fn $type max, )+);
};
}

macro_rules! impl_rng_functions_helper_3 {
($($fn: tt $type: ident, )+) => {
    impl_rng_functions!("Generate a random `" "` value in the range [min, max] (i.e., both endpoints are included)." | $($fn $type min max, )+);
}
}

impl_rng_functions_helper_1!("Generate a random `" "` value." | u64, u32, i64, i32, bool,);
impl_rng_functions_helper_1!("Generate a random `" "` value in the range [0, 1)." | f64, f32,);
impl_rng_functions_helper_2!("Generate a random `" "` value less than `max`." | u64_less_than u64, u32_less_than u32, i64_less_than i64, i32_less_than i32,);
impl_rng_functions_helper_2!("Generate a random `" "` value in the range [0, max)." | f64_less_than f64, f32_less_than f32,);
impl_rng_functions_helper_3!(u64_in_range u64, u32_in_range u32, f64_in_range f64, f32_in_range f32, i64_in_range i64, i32_in_range i32,);
