//! Scripted-answer seam. With no script installed every function here is a no-op and the
//! generator is upstream's. With a script installed the three choke points consume the next
//! scripted answer instead of touching the generator state.
use std::cell::RefCell;

/// Kind of a pending request.
#[derive(Debug, Clone, Copy, PartialEq, Eq, Hash)]
pub enum Kind {
    /// raw 64-bit word (`u64()`)
    Word,
    /// unit float in [0,1) (`f64()`)
    Unit,
    /// bounded integer in [0,max) (`u64_less_than(max)`)
    Below(u64),
}

#[derive(Debug, Clone, Copy, PartialEq)]
pub enum Ans {
    Word(u64),
    Unit(f64),
    Below(u64),
}

impl Ans {
    pub fn as_word(self) -> u64 {
        match self {
            Ans::Word(w) => w,
            Ans::Unit(u) => ((u * 9007199254740992.0) as u64) << 11,
            Ans::Below(i) => i,
        }
    }
    pub fn as_unit(self) -> f64 {
        match self {
            Ans::Unit(u) => u,
            Ans::Word(w) => ((w >> 11) as f64) * (1.0 / ((1u64 << 53) as f64)),
            Ans::Below(_) => 0.5,
        }
    }
    pub fn as_below(self, max: u64) -> u64 {
        match self {
            Ans::Below(i) => {
                if i < max {
                    i
                } else {
                    max - 1
                }
            }
            Ans::Word(w) => (((w as u128) * (max as u128)) >> 64) as u64,
            Ans::Unit(u) => ((u * max as f64) as u64).min(max - 1),
        }
    }
}

/// What a scripted run did.
#[derive(Debug, Clone, Default)]
pub struct Report {
    /// kinds of all requests, in order (scripted and defaulted)
    pub trace: Vec<Kind>,
    /// number of scripted answers consumed
    pub consumed: usize,
    /// number of requests answered by the default after the script ran out
    pub defaults: usize,
    /// a scripted answer had a different kind than the request it answered
    pub kind_mismatch: bool,
    /// the default-answer budget was exceeded (the subject was unwound by a panic)
    pub livelock: bool,
}

struct State {
    answers: Vec<Ans>,
    pos: usize,
    report: Report,
    default_budget: usize,
    default_word: u64,
    default_unit: f64,
}

thread_local! {
    static SCRIPT: RefCell<Option<State>> = RefCell::new(None);
    static DRAWS: std::cell::Cell<u64> = std::cell::Cell::new(0);
    static DRAW_LIMIT: std::cell::Cell<u64> = std::cell::Cell::new(u64::MAX);
}

/// Pass-through watchdog: panic (unwinding the subject) once `draws()` exceeds `limit`.
/// `None` removes the limit.
pub fn set_draw_limit(limit: Option<u64>) {
    DRAW_LIMIT.with(|d| d.set(limit.unwrap_or(u64::MAX)));
}

pub const LIVELOCK_MSG: &str = "alea-shim: livelock (default-answer budget exceeded)";

/// Install a script on this thread. `default_budget` = how many requests beyond the script are
/// answered with defaults before the subject is declared livelocked.
pub fn install(answers: Vec<Ans>, default_budget: usize) {
    install_with_defaults(answers, default_budget, 0x0000_0000_0000_0101, 0.5)
}

pub fn install_with_defaults(answers: Vec<Ans>, default_budget: usize, default_word: u64, default_unit: f64) {
    SCRIPT.with(|s| {
        *s.borrow_mut() = Some(State {
            answers,
            pos: 0,
            report: Report::default(),
            default_budget,
            default_word,
            default_unit,
        })
    });
}

/// Remove the script and return what happened.
pub fn uninstall() -> Report {
    SCRIPT.with(|s| s.borrow_mut().take().map(|st| st.report).unwrap_or_default())
}

pub fn active() -> bool {
    SCRIPT.with(|s| s.borrow().is_some())
}

/// Number of generator requests (scripted or real) made on this thread since `reset_draws`.
pub fn draws() -> u64 {
    DRAWS.with(|d| d.get())
}
pub fn reset_draws() {
    DRAWS.with(|d| d.set(0));
}

#[inline]
pub(crate) fn intercept(kind: Kind) -> Option<Ans> {
    let mut livelock = false;
    let r = SCRIPT.with(|s| {
        let mut b = s.borrow_mut();
        let st = match b.as_mut() {
            None => {
                // pass-through: every real draw funnels through `Rng::u64`
                if kind == Kind::Word {
                    let n = DRAWS.with(|d| {
                        d.set(d.get() + 1);
                        d.get()
                    });
                    if n > DRAW_LIMIT.with(|l| l.get()) {
                        livelock = true;
                    }
                }
                return None;
            }
            Some(st) => st,
        };
        DRAWS.with(|d| d.set(d.get() + 1));
        st.report.trace.push(kind);
        if st.pos < st.answers.len() {
            let a = st.answers[st.pos];
            st.pos += 1;
            st.report.consumed += 1;
            let ok = matches!(
                (a, kind),
                (Ans::Word(_), Kind::Word) | (Ans::Unit(_), Kind::Unit) | (Ans::Below(_), Kind::Below(_))
            );
            if !ok {
                st.report.kind_mismatch = true;
            }
            Some(a)
        } else {
            st.report.defaults += 1;
            if st.report.defaults > st.default_budget {
                st.report.livelock = true;
                livelock = true;
                // keep the trace bounded
                return None;
            }
            Some(match kind {
                Kind::Word => Ans::Word(st.default_word),
                Kind::Unit => Ans::Unit(st.default_unit),
                Kind::Below(_) => Ans::Below(0),
            })
        }
    });
    if livelock {
        panic!("{}", LIVELOCK_MSG);
    }
    r
}
