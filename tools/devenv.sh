#!/bin/bash
# tools/devenv.sh [dir]  — sets up a development copy of the harness (default /tmp/dev) that is independent of
# /repo and /verif/.build: a copy of harness/ and shims/, a scratch git worktree of /repo's HEAD and its own
# target directory. Use it to try seeded / neutral patches and new check sections while /repo is busy with
# official runs; port the edited props files back to /verif/harness afterwards. Nothing registered in
# MANIFEST.json depends on it. Remove with: git -C /repo worktree remove --force <dir>/repo; rm -rf <dir>
set -e
D=${1:-/tmp/dev}
mkdir -p $D && cd $D
rm -rf harness shims
cp -a /verif/harness harness && cp -a /verif/shims shims
[ -d $D/repo ] || git -C /repo worktree add -q --detach $D/repo HEAD
sed -i "s#path = \"/repo\"#path = \"$D/repo\"#" harness/Cargo.toml
cat > $D/chk.sh <<EOF
#!/bin/bash
# $D/chk.sh <ID> [tier] — build the dev harness against $D/repo and run one check (evidence under $D/ev)
cd $D/harness
export CARGO_NET_OFFLINE=true CARGO_TARGET_DIR=$D/build
cargo build --release --offline > $D/build.log 2>&1 || { grep -E "^error" -A12 $D/build.log | head -40; exit 2; }
VERIF_EVIDENCE_DIR=$D/ev VERIF_REPLAY_DIR=$D/rp $D/build/release/mc \$1 \${2:-quick} 2>&1 | grep -E "^MC: property|VIOLATION|MACHINERY|KNOWN" | cut -c1-330
EOF
cat > $D/patch.sh <<EOF
#!/bin/bash
# $D/patch.sh <patch.diff> <ID...> — apply a patch to $D/repo, run the checks, revert
P=\$1; shift
cd $D/repo && git checkout -q -- . && git clean -fdq -- src && git apply \$P || exit 2
for C in "\$@"; do echo "== \$P against \$C"; $D/chk.sh \$C quick | cut -c1-260 | head -8; done
cd $D/repo && git checkout -q -- . && git clean -fdq -- src
EOF
chmod +x $D/chk.sh $D/patch.sh
echo "dev copy in $D: $D/chk.sh <ID> [tier], $D/patch.sh <patch> <ID...>"
