#!/usr/bin/env python3
"""Regenerates the generated blocks of DESIGN.md (between <!-- GEN:name --> and <!-- /GEN:name -->)."""
import json, re, subprocess, os, glob
D = '/verif/DESIGN.md'
s = open(D).read()

def block(name, text):
    global s
    pat = re.compile(r'(<!-- GEN:%s -->\n).*?(<!-- /GEN:%s -->)' % (name, name), re.S)
    assert pat.search(s), name
    s = pat.sub(lambda m: m.group(1) + text + m.group(2), s)

kf = json.load(open('/verif/known_findings.json'))['findings']
rows = ["| property | status | /repo commit | what failed (specific input) | finding keys |", "|---|---|---|---|---|"]
for f in kf:
    rows.append("| %s | %s | %s | %s | `%s` |" % (f['property'], f['status'], f.get('commit', ''), f['what'].replace('|', '\\|'), f['key'].replace('|', '\\|')))
block('findings', "\n".join(rows) + "\n")

# seeded / mutant table
rows = ["| change | breaks | repo tests | detected by | keys reported |", "|---|---|---|---|---|"]
for m in sorted(glob.glob('/verif/seeded/*/meta.json')):
    j = json.load(open(m))
    rows.append("| seeded/%s | %s | %s | %s | %s |" % (os.path.basename(os.path.dirname(m)), j.get('property'), j.get('repo_tests', ''), j.get('detected_by', ''), ", ".join(j.get('keys', []))[:160]))
res = '/verif/mutants/RESULTS.json'
if os.path.exists(res):
    for name, j in sorted(json.load(open(res)).items()):
        rows.append("| mutants/%s | %s | %s | %s | %s |" % (name, j.get('property'), j.get('repo_tests', ''), j.get('detected_by', ''), ", ".join(j.get('keys', []))[:160]))
block('mutants', "\n".join(rows) + "\n")
rows = ["| change | property | what it restructures | checks run | silent |", "|---|---|---|---|---|"]
for m in sorted(glob.glob('/verif/neutral/*/meta.json')):
    j = json.load(open(m))
    title = (j.get('title') or '').replace('|', '\\|')
    rows.append("| neutral/%s | %s | %s | %s | %s |" % (os.path.basename(os.path.dirname(m)), j.get('property'), title[:230], ", ".join(c['check'] for c in j.get('checks_run', [])), "yes" if j.get('silent') else "NO"))
block('neutral', "\n".join(rows) + "\n")
open(D, 'w').write(s)
print("DESIGN.md tables regenerated")
