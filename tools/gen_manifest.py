#!/usr/bin/env python3
"""Regenerates /verif/MANIFEST.json from the table below (claimed = properties whose check exists)."""
import json, re, os, sys

ENG = {
 "E1": "envx: exhaustive exploration of scripted RNG answers (environment-answer model checking of the real samplers)",
 "E2": "seqx: explicit-state BFS (stateright) over public operation sequences of real objects, lock-step reference model",
 "E3": "gridx: bounded-exhaustive enumeration of input lattices against exact/independent reference models",
}

# id -> (engine, technique, level text, level note)
P = {
 "C18": ("E2", "explicit-state breadth-first search to closure over each law's mutation API (setters and update with lattice arguments), parameter-tuple reference model, fresh-twin state invariant; closure size cross-checked with stateright",
         "For each of the 13 univariate laws the search applies, in every reachable state, every setter with every value of a 4-8 value lattice (valid values on both sides of the current ones, boundary values, invalid ones, NaN) and update with every tuple of the lattices, and runs to closure, i.e. it covers mutation histories of every length. Transition oracle: the call must succeed iff the law's own constructor accepts the resulting tuple, whatever the previous state; after a rejected call the object must be observationally equal to the twin of the old or of a partially updated in-domain tuple. State invariant, evaluated once per distinct state: density/mass on 25 points, mean, variance and the first 16 samples after set_seed(s) for three seeds are bitwise those of a freshly constructed twin, and observing twice gives identical streams. Separately: constructing 26 other distribution objects between set_seed and sampling consumes zero generator words (counted by the shim) and leaves the stream unchanged. In the thorough tier the unique-state count of each closure is re-derived with stateright's BFS checker on 1 and 16 threads and must agree.",
         "Validity is defined by the constructor. The state key is the derived Debug string (all private fields incl. cached samplers). Seeded streams run on the upstream generator through the pass-through shim."),
 "C19": ("E1", "exhaustive enumeration of scripted RNG answers (bounded-integer index draws) on the real resamplers: all answer sequences for small n, deviation-bounded (<=2 / <=1 deviations from a base script) up to n=40; selection/permutation reference model",
         "The only nondeterminism of bootstrap/shuffle/shuffle_two is alea's bounded integer; the shim scripts it. bootstrap: every answer sequence for (n, resamples) in {(1,1..3),(2,1..3),(3,1..2),(4,1)} and every sequence within 2 deviations (n<=12) or 1 deviation (n<=40) of the all-zero script for 1..=3 resamples; shuffle and shuffle_two: all 3^12 answer sequences for n<=3, and <=2 (n<=8) / <=1 (n<=40) deviations around two base scripts. Every run checks the kind, range (exactly n values) and number of the draws, then out[r][i] = data[answer[r n + i]] for bootstrap, and for the shuffles that the output equals the composition of the scripted transpositions applied to both arrays (hence a permutation, and paired), with distinct, repeated and NaN/+-0/inf labels compared by bits. jackknife: every length 1..=64 against the leave-one-out definition, and it must draw nothing.",
         "Equal likelihood of positions is decided structurally (one uniform draw over exactly n values mapped by the identity), not statistically. 100 real-seed runs are an undeciding supplement."),
 "C15": ("E2", "explicit-state breadth-first search over sequences of structural operations on the real Matrix (labelled elements), lock-step row-major reference model, state invariant evaluated once in every distinct state; bounded-exhaustive enumeration for constructors/predicates",
         "From nine labelled start matrices (non-square, with zeros and a symmetric one) every sequence of up to 8 (12 thorough) operations out of ~100 per state - t/t_mut, reshape/reshape_mut/Vector::reshape with all (r,c) in {-2,-1,0,1,2,3,4,6}^2 (valid, inferred, non-dividing, impossible), hcat/vcat/hrepeat/vrepeat, row/column extraction incl. one-past-the-end, in-place row/column sign maps, flat replace, diag, to_vec/to_matrix, both layout conversions - is executed on the real object and on a Vec-of-rows model; each transition compares outcome class (value/panic) and full content, a rejected in-place request must leave the object unchanged, and in every distinct state (8.8e4 quick, 4.7e6 thorough) data.len()=rows x cols and all accessors/predicates ([i,j], [i], flat_idx, rows, columns, diag, shape, size, iteration, is_square/symmetric/upper/lower, out-of-range panics) are compared with the model. Constructors (eye, zeros, ones, diag_matrix, diag, toeplitz, vandermonde, design, transpose, is_matrix/is_square/is_symmetric/is_design) for all sizes 1..=64, arange/linspace on lattices (462 / 2304 instances), rotations at k pi/8 for three axes, and the approximate-equality predicates on all pairs of a 9-value alphabet are enumerated exhaustively.",
         "The reachable set is not small (transposes of all factorisations generate a large permutation group), so the search is bounded by depth under a 12-element cap; impossible reshape requests are tried in full on objects of <=4 elements and as a state-hash-selected 1/8 subset elsewhere; sign maps only on objects of <=4 (6) elements. Level-synchronous BFS written in the harness (stateright's state-count/timeout caps did not stop its multi-threaded BFS; stateright is kept for cross-checking closures)."),
 "C07": ("E3", "bounded-exhaustive enumeration of interval lattice x panel counts / level budgets x monomial basis, plus a catalogue of analytic integrands and all small sample arrays; exact (double-double) reference integrals",
         "On a 10x10 lattice of end-points in +-1000 (a>b and a=b included): trapz with every panel count 1..=64,100,1000,4096 on all affine integrands over {-2..2}^2; romberg at eps=0 with every level budget k=1..=12 (20 thorough) on every monomial of degree < 2k; the Gauss-Legendre rule on monomials 0..=19; linearity Q(2f-3g)=2Q(f)-3Q(g) and Q(a,b)=-Q(b,a) for all three rules - exactness on the monomial basis plus linearity decides exactness on the polynomial class. The trapezoid error bound (b-a)h^2/12 max|f''| is checked for every panel count and Romberg's error against 10 eps on 20 analytic integrands with closed-form antiderivatives (including sin^2(2 pi x), whose first three trapezoid levels coincide). The sampled rule is compared exactly on all increasing abscissa sets from a 6-point lattice x all ordinate words over {-2..2}, and on arrays of every length 2..=300.",
         "Exactness tolerance 64 N u (b-a) max|f| (N integrand evaluations). The smooth-integrand clauses are decided on the 20 catalogued integrands only."),
 "C09": ("E3", "exhaustive enumeration of the f32 argument lattice (complete in thorough, every 16th in quick) against glibc tgamma/erf; identities on adjacent lattice points",
         "gamma is evaluated at every f32-representable argument in (-170,171.6) outside 2^-10 of a pole (2.9e8 arguments thorough; every 16th with a VERIF_SEED-chosen offset quick), at all integers and half-integers and +-8 f64-ulps around them and on the k/64 lattice, against glibc tgamma with relative tolerance 1e-13 max(1, 0.5/dist-to-pole); Gamma(n+1)=n! for all n<=170 in double-double; Gamma(x+1)=x Gamma(x) on the lattice; beta on a 51x51 (411x411 thorough) lattice in (1e-3,80] against tgamma products to 1e-12 with symmetry; digamma on all integers <= 10^4 against exact harmonic numbers, on a geometric lattice to 1e6 and an f32 sweep of [1e-3,64] against a 7-term asymptotic reference with the recurrence identity; erf on every f32 in [-6,6] (8.6e8 arguments thorough) and a lattice to +-40: accuracy 1.5e-7, |erf|<=1, oddness.",
         "glibc tgamma/erf are the truth (few ulp). 'Scaled by proximity to a pole' is read as 1e-13 max(1, 0.5/dist). Random f64 arguments are replaced by the complete f32 lattice."),
 "C17": ("E3", "exhaustive enumeration of the f32 lattice in increasing order (monotonicity on consecutive points), all softmax vectors over an extreme-value alphabet, a Box-Cox parameter lattice, all (n,k) against a u128 Pascal triangle",
         "logistic is evaluated on the f32 lattice of +-745 in increasing order (every point thorough: 2.3e9; every 16th quick): values in [0,1], logistic(-x)=1-logistic(x) to 4u, and non-decrease between consecutive lattice points; logistic(logit(p))=p to 4u on the f32 lattice of [0,1] and 1-p; logit must reject 10 out-of-domain arguments incl. NaN. softmax: all 37448 vectors of length 1..=5 over {-1e4,-745,-1,0,1,709,710,1e4}, structured vectors up to length 1000, four shifts each: finite, non-negative, sum 1 to n u, order-preserving, shift-invariant, equal to exp(x-max)/sum. Box-Cox: 49 x values in [1e-6,1e6] x 17 lambdas (0, +-1e-12, +-1e-9, ... +-5) x 6 shifts x 3 placements, domain acceptance/rejection exactly at x+shift>0, values against expm1(lambda ln x)/lambda. binom_coeff: all 0<=k<=n<=67 and all n<=4000 with k or n-k <=32 and C(n,k)<2^64 against an exact u128 Pascal triangle; binom_coeff_alt for n<=45.",
         "Box-Cox tolerance 1e-9 max(1,|value|) (an 8-digit loss is a violation, ulp-level differences are not). Softmax order preservation is non-strict."),
 "C04": ("E3", "bounded-exhaustive enumeration of all lengths 0..40 x operators x operand forms x special-value injections; bitwise scalar reference model",
         "Every length 0..=40 (so every remainder of the 8-way unrolled kernels), every operator form of Vector and Matrix (owned/borrowed, scalar left/right, compound assignment, negation), all 29 unary maps, powi(-2..=5) and powf are executed on the real code with position-coded values and with every single-position injection of {+-0, +-inf, NaN, min subnormal, MAX}; each output element is compared bit for bit with the scalar f64 operation; all mismatched length pairs up to 17 and unequal Matrix shapes must panic; reductions are compared with double-double sums under the gamma_n bound, including large-magnitude log-domain inputs. A poisoning allocator turns an unwritten output element into a deterministic violation.",
         "Lengths above 40 only at 63..65,127,128,1000,10000 (thorough). NaN payloads are not compared. 0x0 Matrix arithmetic and empty logsumexp are recorded, not judged. Same-build libm is the scalar reference."),
 "C08": ("E3", "bounded-exhaustive enumeration of all small-integer data vectors x shifts x scales; exact integer reference model",
         "All data vectors of length 1..=6 over {-2..2} under 5 shifts (up to 2^40, mean/sd up to 1e8+) and 3 scales, all pairs of vectors of length 2..=4 for the four covariance algorithms, structured vectors of every length 1..=40 (crossing the unrolled sum), all signed-zero/tie vectors of length <=6 for min/max/argmin/argmax, and all increasing edge sequences from a 7-point lattice are run through the free functions and the Vector/Matrix methods and compared with exact i128 integer arithmetic under the Welford/two-pass rounding bound fixed a priori.",
         "Data are multiples of 1/4 (exact oracle); gaussian real-valued data and lengths above 96 are not enumerated. The tolerance is the a-priori bound 16 n u sqrt(var(var+mean^2))."),
 "C12": ("E3", "bounded-exhaustive enumeration of all shape pairs x operators x operand kinds x ownership forms; NumPy-rule reference model, bitwise",
         "All 1296 shape pairs with rows, cols in 1..=6 (10^4 pairs thorough, plus unroll-crossing sizes), four operators, Matrix-Matrix / Matrix-Vector / Vector-Matrix in four ownership forms each: the real operator is executed and compared bit for bit with the NumPy broadcasting rule computed by a 20-line model; an incompatible pair must panic, a compatible pair must not; every one of the nine structural stretch cases must have been entered or the run fails as vacuous.",
         "Entries are distinct primes (left) and other primes + 0.5 (right), so each output entry identifies its two source entries. Larger shapes only on the listed sizes."),
 "C16": ("E3", "bounded-exhaustive enumeration of all increasing knot sets from a lattice x ordinates x target lattice x modes x variants; exact piecewise-linear reference model",
         "All 238 strictly increasing knot sets of 2..=6 abscissae from an 8-point lattice (spacing ratios up to 1e6), all ordinate assignments over 4 letters for <=4 knots, regular/geometric/thirds grids of every length 2..=200, targets at every knot, +-1 ulp around it, mid and quarter points and beyond both ends, in all three out-of-range modes, checked and unchecked: knot values must be bit-exact, interior values on the line (double-double reference) and between the ordinates, out-of-range targets must panic / return the correct fill value / continue the end segment. All permutations of 3- and 4-knot sets and all length mismatches must be rejected by the checked variant.",
         "Tolerance 16u(|ya|+|yb|) max(1,|ratio|). A target equal to the first or last abscissa is treated as in range."),
 "C05": ("E3", "bounded-exhaustive enumeration of all shapes x transpose flags x block sizes x trait forms; exact integer reference model",
         "Every (m,l,n) up to the bound, all four transpose-flag combinations, every block size 1..2*max and every Dot impl (4 ownership forms x 4 methods, conformable and non-conformable shape pairs) is executed on the real code and compared for exact equality with an i64 triple-loop model; non-conformable pairs must panic. Exhaustive within the stated shape bound; integer entries make the oracle exact.",
         "Entries are small integers (exact f64 arithmetic); shapes beyond the bound and real-valued entries are not enumerated. Trusts the harness's 30-line triple loop."),
}

TODO_REASON = "check not built yet in this revision of /verif (work in progress; see DESIGN.md section 4 for the planned model-checking design)"

def main():
    props = [json.loads(l) for l in open('/verif/properties.jsonl')]
    checks, na = [], []
    for p in props:
        pid = p['id']
        if pid in P:
            eng, tech, text, note = P[pid]
            checks.append({
                "property_id": pid,
                "quick_cmd": f"./check {pid} quick",
                "thorough_cmd": f"./check {pid} thorough",
                "evidence_file": f"/verif/evidence/{pid}.json",
                "replay_cmd_template": f"./check {pid} quick --replay {{path}}",
                "engine": eng,
                "level_claimed": {"category": "model_checking", "text": text, "design_ref": f"DESIGN.md section 4, {pid}"},
                "level_note": note,
                "technique": tech,
            })
        else:
            na.append({"property_id": pid, "reason": TODO_REASON})
    m = {
        "version": 1,
        "setup_cmd": "./setup.sh",
        "hooks": {
            "guard": "compute_verif",
            "enable": "none needed: the only seam (the RNG) is injected outside /repo by [patch.crates-io] alea = /verif/shims/alea in /verif/harness/Cargo.toml; no cfg-guarded code exists in /repo",
            "baseline_off_cmd": "cd /repo && cargo test --workspace --no-fail-fast --offline",
            "source_commits": [],
            "add_only": True,
        },
        "engines": [
            {"name": "envx", "path": "/verif/harness/src/envx", "serves_properties": [c["property_id"] for c in checks if c["engine"] == "E1"], "kind_free_text": ENG["E1"]},
            {"name": "seqx", "path": "/verif/harness/src/seqx", "serves_properties": [c["property_id"] for c in checks if c["engine"] == "E2"], "kind_free_text": ENG["E2"]},
            {"name": "gridx", "path": "/verif/harness/src/props", "serves_properties": [c["property_id"] for c in checks if c["engine"] == "E3"], "kind_free_text": ENG["E3"]},
        ],
        "checks": checks,
        "notes": "One binary (/verif/harness, package mc) built against /repo's working tree by ./check; see DESIGN.md. Exit 0 held / 1 VIOLATION / 2 machinery failure. known_findings.json lists open and fixed findings.",
        "not_applicable": na,
    }
    json.dump(m, open('/verif/MANIFEST.json', 'w'), indent=1)
    print(f"claimed {len(checks)}, not_applicable {len(na)}")

if __name__ == '__main__':
    main()
