#!/usr/bin/env python3
"""Regenerates /verif/MANIFEST.json from the table below (claimed = properties whose check exists)."""
import json, re, os, sys

ENG = {
 "E1": "envx: exhaustive exploration of scripted RNG answers (environment-answer model checking of the real samplers)",
 "E2": "seqx: explicit-state BFS (stateright) over public operation sequences of real objects, lock-step reference model",
 "E3": "gridx: bounded-exhaustive enumeration of input lattices against exact/independent reference models",
}

# id -> (engine, technique, level text, level note)
P = {
 "C04": ("E3", "bounded-exhaustive enumeration of all lengths 0..40 x operators x operand forms x special-value injections; bitwise scalar reference model",
         "Every length 0..=40 (so every remainder of the 8-way unrolled kernels), every operator form of Vector and Matrix (owned/borrowed, scalar left/right, compound assignment, negation), all 29 unary maps, powi(-2..=5) and powf are executed on the real code with position-coded values and with every single-position injection of {+-0, +-inf, NaN, min subnormal, MAX}; each output element is compared bit for bit with the scalar f64 operation; all mismatched length pairs up to 17 and unequal Matrix shapes must panic; reductions are compared with double-double sums under the gamma_n bound, including large-magnitude log-domain inputs. A poisoning allocator turns an unwritten output element into a deterministic violation.",
         "Lengths above 40 only at 63..65,127,128,1000,10000 (thorough). NaN payloads are not compared. 0x0 Matrix arithmetic and empty logsumexp are recorded, not judged. Same-build libm is the scalar reference."),
 "C08": ("E3", "bounded-exhaustive enumeration of all small-integer data vectors x shifts x scales; exact integer reference model",
         "All data vectors of length 1..=6 over {-2..2} under 5 shifts (up to 2^40, mean/sd up to 1e8+) and 3 scales, all pairs of vectors of length 2..=4 for the four covariance algorithms, structured vectors of every length 1..=40 (crossing the unrolled sum), all signed-zero/tie vectors of length <=6 for min/max/argmin/argmax, and all increasing edge sequences from a 7-point lattice are run through the free functions and the Vector/Matrix methods and compared with exact i128 integer arithmetic under the Welford/two-pass rounding bound fixed a priori.",
         "Data are multiples of 1/4 (exact oracle); gaussian real-valued data and lengths above 96 are not enumerated. The tolerance is the a-priori bound 16 n u sqrt(var(var+mean^2))."),
 "C12": ("E3", "bounded-exhaustive enumeration of all shape pairs x operators x operand kinds x ownership forms; NumPy-rule reference model, bitwise",
         "All 1296 shape pairs with rows, cols in 1..=6 (10^4 pairs thorough, plus unroll-crossing sizes), four operators, Matrix-Matrix / Matrix-Vector / Vector-Matrix in four ownership forms each: the real operator is executed and compared bit for bit with the NumPy broadcasting rule computed by a 20-line model; an incompatible pair must panic, a compatible pair must not; every one of the nine structural stretch cases must have been entered or the run fails as vacuous.",
         "Entries are distinct primes (left) and other primes + 0.5 (right), so each output entry identifies its two source entries. Larger shapes only on the listed sizes."),
 "C16": ("E3", "bounded-exhaustive enumeration of all increasing knot sets from a lattice x ordinates x target lattice x modes x variants; exact piecewise-linear reference model",
         "All 238 strictly increasing knot sets of 2..=6 abscissae from an 8-point lattice (spacing ratios up to 1e6), all ordinate assignments over 4 letters for <=4 knots, regular/geometric/thirds grids of every length 2..=200, targets at every knot, +-1 ulp around it, mid and quarter points and beyond both ends, in all three out-of-range modes, checked and unchecked: knot values must be bit-exact, interior values on the line (double-double reference) and between the ordinates, out-of-range targets must panic / return the correct fill value / continue the end segment. All permutations of 3- and 4-knot sets and all length mismatches must be rejected by the checked variant.",
         "Tolerance 16u(|ya|+|yb|) max(1,|ratio|). A target equal to the first or last abscissa is treated as in range."),
 "C05": ("E3", "bounded-exhaustive enumeration of all shapes x transpose flags x block sizes x trait forms; exact integer reference model",
         "Every (m,l,n) up to the bound, all four transpose-flag combinations, every block size 1..2*max and every Dot impl (4 ownership forms x 4 methods, conformable and non-conformable shape pairs) is executed on the real code and compared for exact equality with an i64 triple-loop model; non-conformable pairs must panic. Exhaustive within the stated shape bound; integer entries make the oracle exact.",
         "Entries are small integers (exact f64 arithmetic); shapes beyond the bound and real-valued entries are not enumerated. Trusts the harness's 30-line triple loop."),
}

TODO_REASON = "check not built yet in this revision of /verif (work in progress; see DESIGN.md section 4 for the planned model-checking design)"

def main():
    props = [json.loads(l) for l in open('/verif/properties.jsonl')]
    checks, na = [], []
    for p in props:
        pid = p['id']
        if pid in P:
            eng, tech, text, note = P[pid]
            checks.append({
                "property_id": pid,
                "quick_cmd": f"./check {pid} quick",
                "thorough_cmd": f"./check {pid} thorough",
                "evidence_file": f"/verif/evidence/{pid}.json",
                "replay_cmd_template": f"./check {pid} quick --replay {{path}}",
                "engine": eng,
                "level_claimed": {"category": "model_checking", "text": text, "design_ref": f"DESIGN.md section 4, {pid}"},
                "level_note": note,
                "technique": tech,
            })
        else:
            na.append({"property_id": pid, "reason": TODO_REASON})
    m = {
        "version": 1,
        "setup_cmd": "./setup.sh",
        "hooks": {
            "guard": "compute_verif",
            "enable": "none needed: the only seam (the RNG) is injected outside /repo by [patch.crates-io] alea = /verif/shims/alea in /verif/harness/Cargo.toml; no cfg-guarded code exists in /repo",
            "baseline_off_cmd": "cd /repo && cargo test --workspace --no-fail-fast --offline",
            "source_commits": [],
            "add_only": True,
        },
        "engines": [
            {"name": "envx", "path": "/verif/harness/src/envx", "serves_properties": [c["property_id"] for c in checks if c["engine"] == "E1"], "kind_free_text": ENG["E1"]},
            {"name": "seqx", "path": "/verif/harness/src/seqx", "serves_properties": [c["property_id"] for c in checks if c["engine"] == "E2"], "kind_free_text": ENG["E2"]},
            {"name": "gridx", "path": "/verif/harness/src/props", "serves_properties": [c["property_id"] for c in checks if c["engine"] == "E3"], "kind_free_text": ENG["E3"]},
        ],
        "checks": checks,
        "notes": "One binary (/verif/harness, package mc) built against /repo's working tree by ./check; see DESIGN.md. Exit 0 held / 1 VIOLATION / 2 machinery failure. known_findings.json lists open and fixed findings.",
        "not_applicable": na,
    }
    json.dump(m, open('/verif/MANIFEST.json', 'w'), indent=1)
    print(f"claimed {len(checks)}, not_applicable {len(na)}")

if __name__ == '__main__':
    main()
