#!/usr/bin/env python3
"""Regenerates /verif/MANIFEST.json from the table below (claimed = properties whose check exists)."""
import json, re, os, sys

ENG = {
 "E1": "envx: exhaustive exploration of scripted RNG answers (environment-answer model checking of the real samplers)",
 "E2": "seqx: explicit-state BFS (stateright) over public operation sequences of real objects, lock-step reference model",
 "E3": "gridx: bounded-exhaustive enumeration of input lattices against exact/independent reference models",
}

# id -> (engine, technique, level text, level note)
P = {
 "C05": ("E3", "bounded-exhaustive enumeration of all shapes x transpose flags x block sizes x trait forms; exact integer reference model",
         "Every (m,l,n) up to the bound, all four transpose-flag combinations, every block size 1..2*max and every Dot impl (4 ownership forms x 4 methods, conformable and non-conformable shape pairs) is executed on the real code and compared for exact equality with an i64 triple-loop model; non-conformable pairs must panic. Exhaustive within the stated shape bound; integer entries make the oracle exact.",
         "Entries are small integers (exact f64 arithmetic); shapes beyond the bound and real-valued entries are not enumerated. Trusts the harness's 30-line triple loop."),
}

TODO_REASON = "check not built yet in this revision of /verif (work in progress; see DESIGN.md section 4 for the planned model-checking design)"

def main():
    props = [json.loads(l) for l in open('/verif/properties.jsonl')]
    checks, na = [], []
    for p in props:
        pid = p['id']
        if pid in P:
            eng, tech, text, note = P[pid]
            checks.append({
                "property_id": pid,
                "quick_cmd": f"./check {pid} quick",
                "thorough_cmd": f"./check {pid} thorough",
                "evidence_file": f"/verif/evidence/{pid}.json",
                "replay_cmd_template": f"./check {pid} quick --replay {{path}}",
                "engine": eng,
                "level_claimed": {"category": "model_checking", "text": text, "design_ref": f"DESIGN.md section 4, {pid}"},
                "level_note": note,
                "technique": tech,
            })
        else:
            na.append({"property_id": pid, "reason": TODO_REASON})
    m = {
        "version": 1,
        "setup_cmd": "./setup.sh",
        "hooks": {
            "guard": "compute_verif",
            "enable": "none needed: the only seam (the RNG) is injected outside /repo by [patch.crates-io] alea = /verif/shims/alea in /verif/harness/Cargo.toml; no cfg-guarded code exists in /repo",
            "baseline_off_cmd": "cd /repo && cargo test --workspace --no-fail-fast --offline",
            "source_commits": [],
            "add_only": True,
        },
        "engines": [
            {"name": "envx", "path": "/verif/harness/src/envx", "serves_properties": [c["property_id"] for c in checks if c["engine"] == "E1"], "kind_free_text": ENG["E1"]},
            {"name": "seqx", "path": "/verif/harness/src/seqx", "serves_properties": [c["property_id"] for c in checks if c["engine"] == "E2"], "kind_free_text": ENG["E2"]},
            {"name": "gridx", "path": "/verif/harness/src/props", "serves_properties": [c["property_id"] for c in checks if c["engine"] == "E3"], "kind_free_text": ENG["E3"]},
        ],
        "checks": checks,
        "notes": "One binary (/verif/harness, package mc) built against /repo's working tree by ./check; see DESIGN.md. Exit 0 held / 1 VIOLATION / 2 machinery failure. known_findings.json lists open and fixed findings.",
        "not_applicable": na,
    }
    json.dump(m, open('/verif/MANIFEST.json', 'w'), indent=1)
    print(f"claimed {len(checks)}, not_applicable {len(na)}")

if __name__ == '__main__':
    main()
