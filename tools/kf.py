#!/usr/bin/env python3
"""tools/kf.py fixed <ID> <commit> <key> <what>   |   tools/kf.py open <ID> <key> <what>"""
import json, sys
p = '/verif/known_findings.json'
d = json.load(open(p))
if sys.argv[1] == 'fixed':
    _, _, pid, commit, key, what = sys.argv
    d['findings'].append({"property": pid, "key": key, "status": "fixed", "commit": commit, "what": what,
                          "line": f"fixed: property={pid} {commit} {what}"})
elif sys.argv[1] == 'open':
    _, _, pid, key, what = sys.argv
    d['findings'].append({"property": pid, "key": key, "status": "open", "what": what})
json.dump(d, open(p, 'w'), indent=1)
print(len(d['findings']), "findings")
