#!/usr/bin/env python3
"""tools/mkmut.py <name> <file-in-repo> <old> <new> [<file2> <old2> <new2> ...]
Creates /verif/mutants/<name>.diff by replacing exactly one occurrence of <old> by <new>."""
import sys, subprocess
name = sys.argv[1]
trip = sys.argv[2:]
assert len(trip) % 3 == 0 and trip
assert subprocess.run(['git','-C','/repo','diff','--quiet']).returncode == 0, "/repo not clean"
try:
    for i in range(0, len(trip), 3):
        f, old, new = trip[i:i+3]
        p = '/repo/' + f
        s = open(p).read()
        assert s.count(old) == 1, f"{f}: pattern occurs {s.count(old)} times"
        open(p, 'w').write(s.replace(old, new))
    d = subprocess.run(['git','-C','/repo','diff'], capture_output=True, text=True).stdout
    open(f'/verif/mutants/{name}.diff', 'w').write(d)
    print(f"wrote mutants/{name}.diff ({len(d.splitlines())} lines)")
finally:
    subprocess.run(['git','-C','/repo','checkout','--','.'])
