#!/bin/bash
# tools/mutant.sh <patch.diff> <ID> [<ID>...]
# Applies a patch to /repo (must be clean), runs the repo's own tests (unless SKIP_TESTS=1),
# runs the listed checks (tier from TIER, default quick) with evidence/replays redirected to a
# scratch dir, then restores /repo. Prints one summary line per check.
set -u
PATCH=$(readlink -f "$1"); shift
if ! git -C /repo diff --quiet || ! git -C /repo diff --cached --quiet; then
  echo "mutant: /repo working tree is not clean"; exit 2
fi
SCR=$(mktemp -d /tmp/verif-mut.XXXXXX)
cleanup() { git -C /repo checkout -- . && git -C /repo clean -fdq -- src ; git -C /repo clean -fdq -- src 2>/dev/null; rm -rf "$SCR"; }
trap cleanup EXIT
if ! git -C /repo apply "$PATCH"; then echo "mutant: patch does not apply"; exit 2; fi
if [ "${SKIP_TESTS:-0}" != "1" ]; then
  T=$(cd /repo && cargo test --workspace --no-fail-fast --offline 2>&1 | grep -E "^test result" | head -1)
  echo "mutant: repo tests: $T"
fi
export VERIF_EVIDENCE_DIR=$SCR/evidence VERIF_REPLAY_DIR=$SCR/replays
for ID in "$@"; do
  OUT=$(/verif/check "$ID" "${TIER:-quick}" 2>&1); RC=$?
  KEYS=$(echo "$OUT" | grep -o "^VIOLATION property=[A-Z0-9]* replay=[^ ]* key=[^ ]*" | sed 's/.*key=//' | tr '\n' ' ')
  echo "mutant: $(basename "$PATCH") check=$ID exit=$RC keys=[$KEYS]"
  if [ "${VERBOSE:-0}" = "1" ]; then echo "$OUT" | cut -c1-600; fi
done
