#!/bin/bash
# tools/neutral_confirm.sh <base-dir> <Cxx> <X> [extra check ids...]
# Confirms a property-preserving change in its scratch worktree <base-dir>/<Cxx> only (applies, builds,
# pinned suite passes, demonstration passes with and without it) and stores it under
# /verif/neutral/<Cxx>-<X>/ with the list of checks to run against it (tools/neutral_regress.sh).
set -u
BASE=$1; ID=$2; X=$3; shift 3
W=$BASE/$ID; S=$W/NEUTRAL/$X; OUT=/verif/neutral/$ID-$X
[ -f $S/patch.diff ] || { echo "no patch $S/patch.diff"; exit 2; }
cd $W && git checkout -q -- . && git clean -fdq -- src && rm -f tests/demo.rs
git apply --check $S/patch.diff || { echo "$ID-$X: patch does not apply"; exit 2; }
git apply $S/patch.diff
mkdir -p tests && cp $S/demo.rs tests/demo.rs
SUITE=$(CARGO_NET_OFFLINE=true cargo test --offline --lib 2>&1 | grep -E "^test result:" | head -1)
if echo "$SUITE" | grep -q "FAILED"; then SUITE2=$(CARGO_NET_OFFLINE=true cargo test --offline --lib 2>&1 | grep -E "^test result:|^test .*FAILED" | tr '\n' ' '); SUITE="$SUITE || rerun: $SUITE2"; fi
DEMO_P=$(CARGO_NET_OFFLINE=true cargo test --offline --test demo 2>&1 | grep -E "^test result:" | head -1)
git checkout -q -- . && git clean -fdq -- src
DEMO_C=$(CARGO_NET_OFFLINE=true cargo test --offline --test demo 2>&1 | grep -E "^test result:" | head -1)
rm -f tests/demo.rs; rmdir tests 2>/dev/null
echo "$ID-$X suite(patched): $SUITE | demo patched: $DEMO_P | clean: $DEMO_C"
mkdir -p $OUT && cp $S/patch.diff $OUT/patch.diff && cp $S/demo.rs $OUT/demo.rs && cp $S/meta.json $OUT/agent_meta.json
python3 - "$ID" "$X" "$SUITE" "$DEMO_P" "$DEMO_C" "$ID $*" <<'PY'
import json, sys
pid, x, suite, dp, dc, checks = sys.argv[1:7]
am = json.load(open(f'/verif/neutral/{pid}-{x}/agent_meta.json'))
meta = {
  "property": pid, "title": am.get("title"), "kind": am.get("kind"),
  "why_property_still_holds": am.get("why_property_still_holds"),
  "what_changed_observably": am.get("what_changed_observably"),
  "files_touched": am.get("files_touched"),
  "written_by": "independent sub-agent given only the property text and a scratch worktree",
  "confirmed_here": {"pinned_suite_with_patch": suite, "demo_with_patch": dp, "demo_without_patch": dc},
  "checks_run": [{"check": c + " quick", "exit": None, "keys": []} for c in checks.split()],
  "silent": None,
}
json.dump(meta, open(f'/verif/neutral/{pid}-{x}/meta.json', 'w'), indent=1)
PY
