#!/bin/bash
# tools/neutral_eval.sh <Cxx> <E|F> [extra check ids...]
# Confirms an independently written property-PRESERVING change in its scratch worktree (applies,
# builds, pinned suite passes, its demonstration passes with and without it), then runs the
# property's quick check against it on /repo (apply, check, revert): the check must stay silent
# (exit 0). Stores everything under /verif/neutral/<Cxx>-<X>/.
set -u
ID=$1; X=$2; shift 2
W=/tmp/seed/$ID; S=$W/NEUTRAL/$X; OUT=/verif/neutral/$ID-$X
[ -f $S/patch.diff ] || { echo "no patch $S/patch.diff"; exit 2; }
cd $W && git checkout -q -- . && rm -f tests/demo.rs
git apply --check $S/patch.diff || { echo "$ID-$X: patch does not apply"; exit 2; }
git apply $S/patch.diff
mkdir -p tests && cp $S/demo.rs tests/demo.rs
SUITE=$(CARGO_NET_OFFLINE=true cargo test --offline --lib 2>&1 | grep -E "^test result" | head -1)
if echo "$SUITE" | grep -q "FAILED"; then SUITE2=$(CARGO_NET_OFFLINE=true cargo test --offline --lib 2>&1 | grep -E "^test result|^test .*FAILED" | tr '\n' ' '); SUITE="$SUITE || rerun: $SUITE2"; fi
DEMO_P=$(CARGO_NET_OFFLINE=true cargo test --offline --test demo 2>&1 | grep -E "^test result" | head -1)
git checkout -q -- .
DEMO_C=$(CARGO_NET_OFFLINE=true cargo test --offline --test demo 2>&1 | grep -E "^test result" | head -1)
rm -f tests/demo.rs; rmdir tests 2>/dev/null
echo "$ID-$X suite(patched): $SUITE"
echo "$ID-$X demo patched: $DEMO_P | clean: $DEMO_C"
cd /verif
git -C /repo diff --quiet || { echo "/repo not clean"; exit 2; }
git -C /repo apply $S/patch.diff || { echo "$ID-$X: patch does not apply to /repo"; exit 2; }
SCR=$(mktemp -d /tmp/verif-neutral.XXXXXX)
RES=""
for C in $ID "$@"; do
  O=$(VERIF_EVIDENCE_DIR=$SCR/ev VERIF_REPLAY_DIR=$SCR/rp /verif/check $C quick 2>&1); RC=$?
  KEYS=$(echo "$O" | grep -o "^VIOLATION property=[A-Z0-9]* replay=[^ ]* key=[^ ]*" | sed 's/.*key=//' | tr '\n' ' ')
  MACH=$(echo "$O" | grep "MACHINERY-ERROR" | head -2 | tr '\n' ' ')
  echo "$ID-$X check=$C exit=$RC keys=[$KEYS] $MACH"
  if [ $RC -ne 0 ]; then mkdir -p $OUT; echo "$O" | grep -E "^VIOLATION|MACHINERY" | cut -c1-1500 > $OUT/alarm_$C.txt; fi
  RES="$RES$C:$RC:$KEYS;"
done
git -C /repo checkout -- . && git -C /repo clean -fdq -- src
rm -rf $SCR
mkdir -p $OUT && cp $S/patch.diff $OUT/patch.diff && cp $S/demo.rs $OUT/demo.rs && cp $S/meta.json $OUT/agent_meta.json
python3 - "$ID" "$X" "$SUITE" "$DEMO_P" "$DEMO_C" "$RES" <<'PY'
import json, sys
pid, x, suite, dp, dc, res = sys.argv[1:7]
am = json.load(open(f'/verif/neutral/{pid}-{x}/agent_meta.json'))
checks = [r.split(':', 2) for r in res.split(';') if r]
meta = {
  "property": pid, "title": am.get("title"), "kind": am.get("kind"),
  "why_property_still_holds": am.get("why_property_still_holds"),
  "what_changed_observably": am.get("what_changed_observably"),
  "files_touched": am.get("files_touched"),
  "written_by": "independent sub-agent given only the property text and a scratch worktree",
  "confirmed_here": {"pinned_suite_with_patch": suite, "demo_with_patch": dp, "demo_without_patch": dc},
  "checks_run": [{"check": c[0] + " quick", "exit": int(c[1]), "keys": c[2].split()} for c in checks],
  "silent": all(c[1] == '0' for c in checks),
}
json.dump(meta, open(f'/verif/neutral/{pid}-{x}/meta.json', 'w'), indent=1)
PY
