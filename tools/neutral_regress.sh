#!/bin/bash
# tools/neutral_regress.sh [pattern] — every stored property-preserving change against the quick checks
# recorded in its meta.json; each must stay silent (exit 0). Non-zero exit if any check alarms.
cd /verif
BAD=0; N=0
for d in neutral/${1:-C}*; do
  D=$(basename $d)
  [ -f $d/patch.diff ] || continue
  CHECKS=$(python3 -c "import json;print(' '.join(c['check'].split()[0] for c in json.load(open('$d/meta.json'))['checks_run']))")
  git -C /repo diff --quiet || { echo "/repo not clean"; exit 2; }
  git -C /repo apply /verif/$d/patch.diff || { echo "$D: patch does not apply"; BAD=$((BAD+1)); continue; }
  SCR=$(mktemp -d /tmp/verif-neutral.XXXXXX)
  for C in $CHECKS; do
    O=$(VERIF_EVIDENCE_DIR=$SCR/ev VERIF_REPLAY_DIR=$SCR/rp /verif/check $C quick 2>&1); RC=$?
    N=$((N+1))
    KEYS=$(echo "$O" | grep -o "^VIOLATION property=[A-Z0-9]* replay=[^ ]* key=[^ ]*" | sed 's/.*key=//' | tr '\n' ' ')
    MACH=$(echo "$O" | grep "MACHINERY-ERROR" | head -1 | cut -c1-200)
    echo "$D check=$C exit=$RC keys=[$KEYS] $MACH"
    if [ $RC -ne 0 ]; then BAD=$((BAD+1)); echo "$O" | grep -E "^VIOLATION|MACHINERY" | cut -c1-1200 | head -5; fi
  done
  git -C /repo checkout -- . && git -C /repo clean -fdq -- src
  rm -rf $SCR
done
echo "neutral checks run: $N, not silent: $BAD"
[ $BAD -eq 0 ]
