#!/bin/bash
# runs the repository's pinned suite (guard off: there is no guard) and prints the result line
cd /repo && cargo test --workspace --no-fail-fast --offline 2>&1 | grep -E "^test result|^test .* FAILED|panicked" | head -20
