#!/bin/bash
# tools/run_all.sh [quick|thorough]: every check once, with wall time and exit code
T=${1:-quick}
for i in $(seq -w 1 20); do
  ID=C$i
  S=$(date +%s.%N)
  OUT=$(/verif/check $ID $T 2>&1); RC=$?
  E=$(date +%s.%N)
  printf "%s rc=%d %.1fs %s\n" $ID $RC $(echo "$E - $S" | bc) "$(echo "$OUT" | grep -E "^MC: property" | sed 's/MC: property=[A-Z0-9]* tier=[a-z]* //' | cut -c1-110)"
  echo "$OUT" | grep -E "VIOLATION|MACHINERY|KNOWN" | cut -c1-220
done
