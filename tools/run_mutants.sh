#!/bin/bash
# runs every mutants/*.diff against the check of its property (cNN_ prefix), writes mutants/RESULTS.json
cd /verif
python3 - <<'PY'
import glob, subprocess, json, re, os
res = {}
for f in sorted(glob.glob('/verif/mutants/*.diff')):
    name = os.path.basename(f)[:-5]
    pid = 'C' + name[1:3]
    out = subprocess.run(['/verif/tools/mutant.sh', f, pid], capture_output=True, text=True).stdout
    tests = re.search(r'repo tests: test result: (\w+)\. (\d+) passed; (\d+) failed', out)
    m = re.search(r'check=(\w+) exit=(\d+) keys=\[(.*?)\]', out)
    if not m:
        res[name] = {"property": pid, "error": out[-300:]}
        print(name, "ERROR", out[-200:]); continue
    keys = m.group(3).split()
    res[name] = {"property": pid, "repo_tests": (f"{tests.group(2)} pass / {tests.group(3)} fail" if tests else "?"),
                 "detected_by": (f"{pid} quick" if m.group(2) == '1' else ("(machinery exit 2)" if m.group(2) == '2' else "NOT DETECTED (quick)")), "keys": keys[:6]}
    print(name, res[name]["repo_tests"], res[name]["detected_by"], keys[:3])
json.dump(res, open('/verif/mutants/RESULTS.json', 'w'), indent=1)
PY
