#!/bin/bash
# tools/seed_eval.sh <Cxx> <A|B> [extra check ids...]
# Confirms an independently written breaking change in its scratch worktree (applies, builds, pinned
# suite passes, demo fails with / passes without), then runs the property's check against it on /repo
# (apply, check, revert) and stores everything under /verif/seeded/<Cxx>-<X>/.
set -u
ID=$1; X=$2; shift 2
W=/tmp/seed/$ID; S=$W/SEED/$X; OUT=/verif/seeded/$ID-$X
[ -f $S/patch.diff ] || { echo "no patch $S/patch.diff"; exit 2; }
cd $W && git checkout -q -- . && rm -f tests/demo.rs
git apply --check $S/patch.diff || { echo "$ID-$X: patch does not apply"; exit 2; }
git apply $S/patch.diff
mkdir -p tests && cp $S/demo.rs tests/demo.rs
SUITE=$(CARGO_NET_OFFLINE=true cargo test --offline --lib 2>&1 | grep -E "^test result:" | head -1)
if echo "$SUITE" | grep -q "FAILED"; then SUITE2=$(CARGO_NET_OFFLINE=true cargo test --offline --lib 2>&1 | grep -E "^test result:|^test .*FAILED" | tr '\n' ' '); SUITE="$SUITE || rerun: $SUITE2"; fi
DOC=$(CARGO_NET_OFFLINE=true cargo test --offline --doc 2>&1 | grep -E "^test result:" | head -1)
DEMO_P=$(CARGO_NET_OFFLINE=true cargo test --offline --test demo 2>&1 | grep -E "^test result:" | head -1)
git checkout -q -- . 
DEMO_C=$(CARGO_NET_OFFLINE=true cargo test --offline --test demo 2>&1 | grep -E "^test result:" | head -1)
rm -f tests/demo.rs; rmdir tests 2>/dev/null
echo "$ID-$X suite(patched): $SUITE | doc: $DOC"
echo "$ID-$X demo patched: $DEMO_P"
echo "$ID-$X demo clean:   $DEMO_C"
# now our checks
cd /verif
git -C /repo diff --quiet || { echo "/repo not clean"; exit 2; }
git -C /repo apply $S/patch.diff || { echo "$ID-$X: patch does not apply to /repo"; exit 2; }
SCR=$(mktemp -d /tmp/verif-seed.XXXXXX)
RES=""
for C in $ID "$@"; do
  O=$(VERIF_EVIDENCE_DIR=$SCR/ev VERIF_REPLAY_DIR=$SCR/rp /verif/check $C quick 2>&1); RC=$?
  KEYS=$(echo "$O" | grep -o "^VIOLATION property=[A-Z0-9]* replay=[^ ]* key=[^ ]*" | sed 's/.*key=//' | tr '\n' ' ')
  MACH=$(echo "$O" | grep -c "MACHINERY-ERROR")
  echo "$ID-$X check=$C exit=$RC mach=$MACH keys=[$KEYS]"
  RES="$RES$C:$RC:$KEYS;"
done
git -C /repo checkout -- . && git -C /repo clean -fdq -- src
rm -rf $SCR
mkdir -p $OUT && cp $S/patch.diff $OUT/patch.diff && cp $S/demo.rs $OUT/demo.rs && cp $S/meta.json $OUT/agent_meta.json
python3 - "$ID" "$X" "$SUITE" "$DEMO_P" "$DEMO_C" "$RES" <<'PY'
import json, sys
pid, x, suite, dp, dc, res = sys.argv[1:7]
am = json.load(open(f'/verif/seeded/{pid}-{x}/agent_meta.json'))
checks = [r.split(':', 2) for r in res.split(';') if r]
det = [c for c in checks if c[1] == '1']
meta = {
  "property": pid,
  "title": am.get("title"),
  "what_it_needs_to_manifest": am.get("what_it_needs_to_manifest"),
  "files_touched": am.get("files_touched"),
  "written_by": "independent sub-agent given only the property text and a scratch worktree",
  "confirmed_here": {"pinned_suite_with_patch": suite, "demo_with_patch": dp, "demo_without_patch": dc,
                     "commands": ["git apply patch.diff", "cargo test --offline --lib / --doc", "cp demo.rs tests/demo.rs && cargo test --offline --test demo", "git checkout -- . && cargo test --offline --test demo"]},
  "repo_tests": "pass" if ("ok." in suite or "ok." in suite.split("rerun:")[-1]) else suite,
  "checks_run": [{"check": c[0] + " quick", "exit": int(c[1]), "keys": c[2].split()} for c in checks],
  "detected_by": ", ".join(c[0] + " quick" for c in det) if det else "NOT DETECTED (quick)",
  "keys": sum([c[2].split() for c in det], [])[:8],
}
json.dump(meta, open(f'/verif/seeded/{pid}-{x}/meta.json', 'w'), indent=1)
PY
