#!/bin/bash
# tools/seed_recheck.sh <seed-dir-name> <check ids...>  — re-run checks against a stored seeded change
# (apply to /repo, run quick checks with evidence redirected, revert); prints exit code and keys.
set -u
D=$1; shift
git -C /repo diff --quiet || { echo "/repo not clean"; exit 2; }
git -C /repo apply /verif/seeded/$D/patch.diff || exit 2
SCR=$(mktemp -d /tmp/verif-seed.XXXXXX)
TIER=${TIER:-quick}
for C in "$@"; do
  O=$(VERIF_EVIDENCE_DIR=$SCR/ev VERIF_REPLAY_DIR=$SCR/rp /verif/check $C $TIER 2>&1); RC=$?
  KEYS=$(echo "$O" | grep -o "^VIOLATION property=[A-Z0-9]* replay=[^ ]* key=[^ ]*" | sed 's/.*key=//' | tr '\n' ' ')
  echo "$D check=$C $TIER exit=$RC keys=[$KEYS]"
done
git -C /repo checkout -- . && git -C /repo clean -fdq -- src
rm -rf $SCR
