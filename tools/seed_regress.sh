#!/bin/bash
# tools/seed_regress.sh [pattern]  — every stored seeded change against the quick check of its own
# property; prints one line per change and a summary; non-zero exit if any is no longer detected.
cd /verif
MISS=0; N=0
for d in seeded/${1:-C}*; do
  D=$(basename $d); P=${D%%-*}
  L=$(tools/seed_recheck.sh $D $P | tail -1)
  N=$((N+1))
  echo "$L" | cut -c1-220
  echo "$L" | grep -q "exit=1" || { MISS=$((MISS+1)); echo "  ^^^ NOT DETECTED"; }
done
echo "seeded changes: $N, not detected: $MISS"
[ $MISS -eq 0 ]
