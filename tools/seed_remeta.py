#!/usr/bin/env python3
"""tools/seed_remeta.py <seeded-dir> <check ids...> — re-run checks against a stored seeded change after a
check was strengthened and record the new result in its meta.json (the first result is kept as
initial_result)."""
import json, subprocess, sys
d, checks = sys.argv[1], sys.argv[2:]
out = subprocess.run(["/verif/tools/seed_recheck.sh", d] + checks, capture_output=True, text=True).stdout
m = json.load(open(f"/verif/seeded/{d}/meta.json"))
if "initial_result" not in m:
    m["initial_result"] = {"checks_run": m["checks_run"], "detected_by": m["detected_by"]}
runs, det, keys = [], [], []
for line in out.splitlines():
    if " check=" not in line: continue
    parts = line.split()
    c = parts[1].split('=')[1]; rc = int(parts[3].split('=')[1]); ks = line.split('keys=[')[1].rstrip(']').split()
    runs.append({"check": c + " quick", "exit": rc, "keys": ks})
    if rc == 1: det.append(c + " quick"); keys += ks
m["checks_run"] = runs
m["detected_by"] = ", ".join(det) if det else "NOT DETECTED (quick)"
m["keys"] = keys[:8]
m["strengthened"] = True
json.dump(m, open(f"/verif/seeded/{d}/meta.json", "w"), indent=1)
print(d, m["detected_by"], "| initially:", m["initial_result"]["detected_by"])
