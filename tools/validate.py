#!/usr/bin/env python3-vt
import json, jsonschema, glob, sys
ok = True
try:
    jsonschema.validate(json.load(open('/verif/MANIFEST.json')), json.load(open('/root/.vp/MANIFEST.schema.json')))
    print("MANIFEST ok")
except Exception as e:
    ok = False; print("MANIFEST INVALID", e)
sch = json.load(open('/root/.vp/EVIDENCE.schema.json'))
for f in sorted(glob.glob('/verif/evidence/*.json')):
    try:
        jsonschema.validate(json.load(open(f)), sch)
    except Exception as e:
        ok = False; print("EVIDENCE INVALID", f, str(e)[:300])
print("evidence files:", len(glob.glob('/verif/evidence/*.json')))
sys.exit(0 if ok else 1)
